"""C18 convolution and filtering act per epoch, linearly, and keep the time axis (partial for Butterworth)."""
import itertools
import random
import warnings

import numpy as np

import common as C
import gen as G

LEVEL = "proof"
DRIVERS = ["driver_c18"]
TRUSTED = ["model: coq/Model/Convolve.v (conv, cut/trim, splice/apply_epochs, convolve_epochs/_frame/_arg, spectral_inversion, sinc kernels, butter_epochs with "
           "the filter as a function argument) over Model/Slice.v (searchsorted as counts); theorems: Proofs/ConvolveProofs.v",
           "np.searchsorted's contract on a sorted array (left = #{t < v}, right = #{t <= v}) is NumPy's (C08)",
           "PARTIAL (Butterworth): scipy.signal.sosfiltfilt is an unknown length-preserving (for linearity: linear) function F of the epoch's slice; "
           "the premises len_pres F / lin_op F are visible in the closed theorems C18_butter_*_partial",
           "scipy.signal.convolve = np.convolve 'full' (direct method; scipy's FFT branch is SciPy's numerics, not modelled - it is exercised through the public "
           "filters on a 12000-sample epoch with an 801-tap kernel and judged by the statement's relations to the tolerance)",
           "correspondence for the Butterworth bookkeeping patches pynapple.process.filtering.sosfiltfilt INSIDE the harness process by an "
           "integer-valued stand-in (reverse + running sum); /repo is not modified",
           "WHICH routine / coefficients the library uses is not part of the statement: 'each epoch == scipy sosfiltfilt on that epoch alone (bit-exact)', 'fs=None means the "
           "series' rate', 'smooth == convolution with the documented gaussian window' and 'sinc low-pass == convolution with the blackman-windowed sinc' are checked as "
           "CORRESPONDENCE (model instantiated with that F / window / kernel vs implementation; a mismatch is a disagreement, not a violation of the statement)"]
ASSUMPTIONS = ["signals and kernels of the exact part are integer valued and small (sums exact in float64)",
               "real-valued kernels (gaussian smooth, windowed sinc) and Butterworth linearity are compared to a tolerance: |difference| <= 1e-12 * (1 + max|operands|) "
               "(largest deviation observed over three thorough runs: 7e-15 of that scale)",
               "Butterworth: cutoffs in (0.05, 0.45) * fs, orders 1..4. An interval of the support holding NO sample must be left alone (as convolve does since cf7fba4): the call "
               "raising is a violation with key op=butter, empty_epoch=True. An interval holding 1..padlen samples (SciPy's sosfiltfilt refuses such a slice) makes the whole call "
               "raise too: reported with key short_epoch=True (a finding: one interval's length decides whether every other interval gets an output)",
               "the theorems are ring identities over Z; a rational kernel is an integer kernel over a common denominator u (float rounding of real kernels is outside the model)",
               "an epoch holding no sample is expected to be left alone (nothing to convolve); the implementation raising there is reported as a violation "
               "with key empty_epoch=True",
               "trim='both' with an EVEN kernel removes k-1 (odd) entries: the statement does not say which side loses the extra one, so both splits are accepted "
               "(the same one in the whole call); the model and the code cut (k-1)//2 on the left, which the model comparison pins",
               "convolve(k, ep=ep) is read as restrict(ep) followed by convolve: the 'input' whose timestamps and support are kept is the series restricted to ep",
               "a series (or a series restricted to ep) holding no sample at all has, in pynapple, an EMPTY time support (base-class invariant: zero epochs, strictly outside "
               "'one or many epochs'); convolve must still not raise on it: expected result = no timestamp, empty support; key no_sample=True",
               "widened forms (parts 6-8): 'the signal' of the statement is the sequence of VALUES, whatever dtype stores it: a float32 / integer / unsigned / bool signal must give the output of the same values "
               "in float64 (an instance of linearity with the combination stored in float64); narrow kernel x narrow signal pairs whose NumPy result type would wrap are not generated",
               "widened forms: signals holding NaN / +-inf: 'equals NumPy's full convolution' fixes every output entry (NaN where a NaN or inf*0 or inf-inf enters the sum); smooth must not raise on them; the "
               "filters document a ValueError for NaN input, which is accepted (and nothing else)",
               "widened forms: an argument form the documented signature does not accept (list / tuple kernel, np.float32 / np.int64 / 0-d std, np.int64 or float order, np.float32 transition_bandwidth, "
               "trim / mode in another letter case, any operation on an EMPTY series) must either raise a Python exception or behave as the statement says; whether it raises is counted, not judged",
               "widened forms: smooth's std is kept 1e-3 away from the values where int(rate*std) jumps; time arguments that round to the same nanosecond are the same instants"]

U = 1953125  # 2^-9 s in ticks
TRIMS = ("left", "right", "both")
MODE = {"left": 0, "right": 1, "both": 2}
TOL = 1e-12


def _nap():
    import pynapple as nap
    return nap


# ------------------------------------------------------------------------------------------------
# statement-level oracles (brute force, independent of the model and of NumPy's convolve)
def full_conv(w, k):
    if not len(w):
        return []
    return [sum(w[i] * k[n - i] for i in range(len(w)) if 0 <= n - i < len(k)) for n in range(len(w) + len(k) - 1)]


def trimmed(w, k, trim, ceil_split=False):
    """full convolution of the epoch's samples, trimmed on the requested side back to len(w) entries.
    'both' removes k-1 entries, half on each side; for an EVEN kernel k-1 is odd and the statement does not say which side
    loses the extra entry: ceil_split=False cuts (k-1)//2 on the left (what the model and the code do), True cuts k//2"""
    f = full_conv(w, k)
    t, n = len(w), len(k)
    if trim == "left":        # the left (first) k-1 entries are cut
        return f[n - 1:]
    if trim == "right":       # the right (last) k-1 entries are cut
        return f[:t]
    c = n // 2 if ceil_split else (n - 1) // 2
    return f[c:c + t]


def epoch_rows(ts, ep):
    return [[i for i, t in enumerate(ts) if s <= t <= e] for s, e in ep]


def oracle_convolve(ts, col, ep, k, trim, ceil_split=False):
    """expected column: every epoch's rows replaced by the trimmed full convolution of those rows alone"""
    out = [0] * len(ts)
    for rows in epoch_rows(ts, ep):
        r = trimmed([col[i] for i in rows], k, trim, ceil_split)
        for i, v in zip(rows, r):
            out[i] = v
    return out


def iset(nap, ep):
    return nap.IntervalSet(G.arr([s for s, _ in ep]), G.arr([e for _, e in ep]))


def support_of(x):
    return [(C.to_ns(s), C.to_ns(e)) for s, e in x.time_support.values]


def ints(a):
    a = np.asarray(a, dtype=float)
    if not np.all(np.isfinite(a)) or not np.all(a == np.round(a)):
        return None
    return [int(v) for v in a.ravel()]


def parse(line):
    return [[int(v) for v in f.split()] for f in line.split("|")]


# ------------------------------------------------------------------------------------------------
def part_exhaustive(res, nap, tier, rng):
    """complete small space through the public convolve, both routes (support / ep argument)"""
    def space(npts, nint):
        pts = G.lattice(npts, step=2 * U)
        tss = [ts for ts in G.sorted_multisets(pts, 4) if len(ts) >= 1] + [list(c) for n in range(5, npts + 1) for c in itertools.combinations(pts, n)]
        eps = [e for e in G.canonical_isets(pts, nint) if e]
        return [(ts, ep) for ts in tss for ep in eps]
    kerns = [[3], [1, 10], [1, 10, 100], [2, -1, 5, 7], [1, 0, -2, 0, 4]]
    if tier == "quick":
        # complete: 5-point lattice, supports of <= 2 intervals, all kernels; plus a sample of the 6-point / 3-interval space
        small = space(5, 2)
        seen = set((tuple(ts), tuple(ep)) for ts, ep in small)
        pairs = [(ts, ep, kerns) for ts, ep in small]
        pairs += [(ts, ep, rng.sample(kerns, 2)) for ts, ep in rng.sample(space(6, 3), 1200) if (tuple(ts), tuple(ep)) not in seen]
    else:
        pairs = [(ts, ep, kerns) for ts, ep in space(6, 3)]
    cases, lines = [], []
    for n, (ts, ep, ks) in enumerate(pairs):
        col = [((7 * i + 3 * n) % 19) - 9 for i in range(len(ts))]
        for k in ks:
            for trim in TRIMS:
                cases.append((ts, col, ep, k, trim))
                lines.append("convolve_arg\t%d\t%s\t%s\t%s\t%s" % (MODE[trim], C.fmt_ints(ts), C.fmt_ints(col), C.fmt_iset(ep), C.fmt_ints(k)))
    out = C.run_model(lines, driver="driver_c18")
    wide = nap.IntervalSet(-1.0, 1.0)
    eobj, xobj_a, xobj_b = {}, {}, {}
    for n, (ts, col, ep, k, trim) in enumerate(cases):
        ek, tk = tuple(ep), (tuple(ts), tuple(col))
        if ek not in eobj:
            eobj[ek] = iset(nap, ep)
        epo = eobj[ek]
        if tk not in xobj_b:
            xobj_b[tk] = nap.Tsd(G.arr(ts), np.array(col, dtype=float), time_support=wide)
        if (tk, ek) not in xobj_a:
            xobj_a[(tk, ek)] = nap.Tsd(G.arr(ts), np.array(col, dtype=float), time_support=epo)
        rows = epoch_rows(ts, ep)
        keep = sorted(i for r in rows for i in r)
        ts_in, col_in = [ts[i] for i in keep], [col[i] for i in keep]
        exp = oracle_convolve(ts_in, col_in, ep, k, trim)
        has_empty = any(len(r) == 0 for r in rows)
        short = any(0 < len(r) < len(k) for r in rows)
        res.case((tuple(ts), ek, tuple(k), trim), nontrivial=len(ep) > 1 and not has_empty)
        res.count("exhaustive_cases")
        res.count("k_even" if len(k) % 2 == 0 else "k_odd")
        if has_empty:
            res.count("some_epoch_without_sample")
        if short:
            res.count("some_epoch_shorter_than_kernel")
        if len(set(ts)) < len(ts):
            res.count("duplicate_timestamps")
        inp = {"ts": ts, "col": col, "ep": ep, "kernel": k, "trim": trim}
        m = parse(out[n])
        if m[0] != ts_in or (m[1] if len(m) > 1 else []) != exp:
            res.disagreements.append({"op": "convolve(model vs statement)", "input": inp, "model": m, "expected": [ts_in, exp]})
        # 'both' with an even kernel: the statement leaves open which side loses the extra entry; either split is accepted (one per call)
        alt = oracle_convolve(ts_in, col_in, ep, k, trim, ceil_split=True) if (trim == "both" and len(k) % 2 == 0) else exp
        # a series holding no sample at all has, in pynapple, an EMPTY time support (base-class invariant); the statement's
        # "input's timestamps and time support" is then: no timestamp, empty support (= what x.restrict(ep) has)
        esup = list(ep) if ts_in else []
        for route in ("support", "ep_argument"):
            kk = {"op": "convolve", "route": route, "empty_epoch": bool(has_empty), "no_sample": not ts_in}
            try:
                if route == "support":
                    r = xobj_a[(tk, ek)].convolve(np.array(k, dtype=float), trim=trim)
                else:
                    r = xobj_b[tk].convolve(np.array(k, dtype=float), ep=epo, trim=trim)
            except Exception as ex:
                if not ts_in:
                    res.count("no_sample_raises")
                res.violations.append({"key": dict(kk, part="exception", exception=type(ex).__name__),
                                       "what": "convolve raised %s: %s" % (type(ex).__name__, str(ex)[:80]),
                                       "input": inp, "impl": type(ex).__name__, "expected": exp})
                continue
            if not ts_in:
                res.count("no_sample_ok")
            got_t = [C.to_ns(t) for t in r.t]
            got = ints(r.values)
            if got_t != ts_in or support_of(r) != esup or type(r).__name__ != "Tsd":
                res.violations.append({"key": dict(kk, part="time_axis"), "what": "convolve changed the timestamps / time support / type", "input": inp,
                                       "impl": [got_t, support_of(r)], "expected": [ts_in, esup]})
            elif got != exp and got != alt:
                res.violations.append({"key": dict(kk, part="values", trim=trim, k_even=len(k) % 2 == 0, short_epoch=bool(short)),
                                       "what": "an epoch's output is not the full convolution of that epoch's samples trimmed on the requested side",
                                       "input": inp, "impl": got, "expected": exp})
            elif alt != exp:
                res.count("even_both_extra_entry_cut_on_the_right" if got == exp else "even_both_extra_entry_cut_on_the_left")
            if got != (m[1] if len(m) > 1 else []) or got_t != m[0]:
                res.disagreements.append({"op": "convolve", "route": route, "input": inp, "impl": [got_t, got], "model": m})
        if n % 4001 == 0:
            res.sample({"ts": ts, "col": col, "ep": ep, "kernel": k, "trim": trim, "expected": exp})


def rand_case(rng, nmax=36, emax=5, dup=0.15):
    """random sorted timestamps grouped into epochs of very different lengths (incl. 1-2 samples)"""
    m = rng.randint(1, emax)
    ts, ep, t = [], [], rng.randrange(0, 50) * U
    for _ in range(m):
        ln = rng.choice([1, 1, 2, 3, 4, 6, 9, 14])
        s = t
        inside = []
        for j in range(ln):
            inside.append(t)
            if rng.random() >= dup or j == ln - 1:
                t += rng.choice([1, 1, 2, 3]) * U
        e = inside[-1] + rng.choice([0, 0, U // 5])
        if e <= s:
            e = s + U // 5
        if rng.random() < 0.3:
            s -= U // 5
        ts += inside
        ep.append((s, e))
        t = max(t, e) + rng.choice([U, 2 * U, 10 * U])
    return ts, ep


def part_random(res, nap, tier, rng):
    """Tsd / TsdFrame / TsdTensor x 1-D / 2-D kernels x trims; model op `frame`; linearity and independence"""
    N = 1500 if tier == "quick" else 12000
    cases, lines = [], []
    for c in range(N):
        ts, ep = rand_case(rng)
        rows = epoch_rows(ts, ep)
        keep = sorted(i for r in rows for i in r)
        ts = [ts[i] for i in keep]
        kind = rng.choice(["Tsd", "TsdFrame", "TsdTensor"])
        dshape = {"Tsd": (), "TsdFrame": (rng.randint(1, 3),), "TsdTensor": (2, rng.randint(1, 2))}[kind]
        nc = int(np.prod(dshape)) if dshape else 1
        klen = rng.choice([1, 2, 3, 4, 5, 6, 7, 9])
        kcols = rng.choice([0, 0, 1, 2, 3])      # 0 = 1-D kernel
        data = [[rng.randint(-9, 9) for _ in ts] for _ in range(nc)]
        data2 = [[rng.randint(-9, 9) for _ in ts] for _ in range(nc)]
        kern = [[rng.randint(-5, 5) for _ in range(klen)] for _ in range(max(kcols, 1))]
        trim = rng.choice(TRIMS)
        a, b = rng.randint(-4, 4), rng.randint(-4, 4)
        cases.append((ts, ep, kind, dshape, data, data2, kern, kcols, trim, a, b))
        lines.append("frame\t%d\t%s\t%s\t%d %d\t%s\t%s" % (MODE[trim], C.fmt_ints(ts), C.fmt_iset(ep), nc, len(kern),
                                                        "\t".join(C.fmt_ints(d) for d in data), "\t".join(C.fmt_ints(k) for k in kern)))
    out = C.run_model(lines, driver="driver_c18")
    from scipy import signal
    for n, (ts, ep, kind, dshape, data, data2, kern, kcols, trim, a, b) in enumerate(cases):
        nc, nk, T = len(data), len(kern), len(ts)
        klen = len(kern[0])
        epo = iset(nap, ep)
        rows = epoch_rows(ts, ep)

        # every 5th case: an INTEGER-dtype signal against a kernel of halves (the output is still the exact real convolution: seed C18-5 allocated the
        # result in the signal's dtype); outputs are doubled before they are compared with the integer oracle / model
        half = n % 5 == 4
        dt = np.int64 if half else float

        def build(cols):
            arr = np.array(cols, dtype=dt).T.reshape((T,) + dshape) if dshape else np.array(cols[0], dtype=dt)
            if kind == "Tsd":
                return nap.Tsd(G.arr(ts), arr, time_support=epo)
            if kind == "TsdFrame":
                return nap.TsdFrame(G.arr(ts), arr, time_support=epo, columns=["c%d" % (3 * i + 1) for i in range(dshape[0])])
            return nap.TsdTensor(G.arr(ts), arr, time_support=epo)

        karr = np.array(kern, dtype=float).T if kcols else np.array(kern[0], dtype=float)
        if rng.random() < 0.3:
            karr = karr.astype(int)
        if half:
            karr = karr.astype(float) * 0.5
            res.count("integer_signal_half_kernel")
        x = build(data)
        inp = {"ts": ts, "ep": ep, "kind": kind, "data": data, "kernel": kern, "kernel_2d": bool(kcols), "trim": trim, "integer_signal_kernel_halved": half}
        short = any(0 < len(r) < klen for r in rows)
        res.case((tuple(ts), tuple(ep), kind, kcols, klen, trim, n), nontrivial=len(ep) > 1)
        res.count("random_cases")
        res.count("kind_" + kind)
        res.count("kernel_2d" if kcols else "kernel_1d")
        res.count("k_even" if klen % 2 == 0 else "k_odd")
        if short:
            res.count("some_epoch_shorter_than_kernel")
        if len(set(len(r) for r in rows)) > 1:
            res.count("epochs_of_different_lengths")
        if signal.choose_conv_method(np.zeros(max(len(r) for r in rows)), np.zeros(klen)) != "direct":
            res.count("scipy_fft_method")
        kk = {"op": "convolve", "kind": kind, "kernel_2d": bool(kcols)}
        try:
            r = x.convolve(karr, trim=trim)
        except Exception as ex:
            res.violations.append({"key": dict(kk, part="exception"), "what": "convolve raised %s: %s" % (type(ex).__name__, str(ex)[:80]), "input": inp})
            continue
        exp = [[oracle_convolve(ts, data[i], ep, kern[j], trim) for j in range(nk)] for i in range(nc)]
        eshape = (T,) + dshape + ((nk,) if kcols else ())
        etype = {1: "Tsd", 2: "TsdFrame"}.get(len(eshape), "TsdTensor")
        got_flat = ints(np.asarray(r.values) * (2 if half else 1))
        ok_axis = [C.to_ns(t) for t in r.t] == ts and support_of(r) == list(ep)
        if not ok_axis:
            res.violations.append({"key": dict(kk, part="time_axis"), "what": "convolve changed the timestamps / time support", "input": inp})
            continue
        if tuple(r.shape) != eshape or type(r).__name__ != etype:
            res.violations.append({"key": dict(kk, part="shape"), "what": "output shape/type is not input shape (+ kernel columns)", "input": inp,
                                   "impl": [type(r).__name__, list(r.shape)], "expected": [etype, list(eshape)]})
            continue
        if kind == "TsdFrame" and not kcols and list(r.columns) != list(x.columns):
            res.violations.append({"key": dict(kk, part="columns"), "what": "1-D kernel: column labels not kept", "input": inp,
                                   "impl": list(map(str, r.columns)), "expected": list(map(str, x.columns))})
        got = None
        if got_flat is not None:
            g3 = np.array(got_flat).reshape(T, nc, nk)
            got = [[[int(v) for v in g3[:, i, j]] for j in range(nk)] for i in range(nc)]
        alt = exp
        if trim == "both" and klen % 2 == 0:      # even kernel: either side may lose the extra entry (the same side in the whole call)
            alt = [[oracle_convolve(ts, data[i], ep, kern[j], trim, ceil_split=True) for j in range(nk)] for i in range(nc)]
        if got != exp and got != alt:
            res.violations.append({"key": dict(kk, part="values", trim=trim, k_even=klen % 2 == 0, short_epoch=bool(short)),
                                   "what": "entry (column i, kernel column j) is not column i convolved per epoch with kernel column j, trimmed on the requested side",
                                   "input": inp, "impl": got, "expected": exp})
        m = parse(out[n]) if T else [[] for _ in range(nc * nk)]
        mm = [[m[i * nk + j] for j in range(nk)] for i in range(nc)]
        if mm != got:
            res.disagreements.append({"op": "convolve_frame", "input": inp, "impl": got, "model": mm})
        # linearity in the signal through the public API (exact: integers)
        y = build(data2)
        comb = build([[a * u + b * v for u, v in zip(d1, d2)] for d1, d2 in zip(data, data2)])
        try:
            lhs = comb.convolve(karr, trim=trim).values
            rhs = a * r.values + b * y.convolve(karr, trim=trim).values
            if not np.array_equal(lhs, rhs):
                res.violations.append({"key": dict(kk, part="linearity"), "what": "convolve(a*x + b*y) != a*convolve(x) + b*convolve(y)",
                                       "input": dict(inp, data2=data2, a=a, b=b)})
        except Exception as ex:
            res.violations.append({"key": dict(kk, part="exception"), "what": "convolve raised " + type(ex).__name__, "input": inp})
        # independence through the public API: overwrite every other epoch, epoch q's output must not move
        if len(ep) > 1:
            q = rng.randrange(len(ep))
            data3 = [[d[i] if i in rows[q] else rng.randint(-50, 50) for i in range(T)] for d in data]
            r3 = build(data3).convolve(karr, trim=trim).values
            if not np.array_equal(r3[rows[q]], r.values[rows[q]]):
                res.violations.append({"key": dict(kk, part="independence"), "what": "output inside an epoch changed when only data of OTHER epochs changed",
                                       "input": dict(inp, epoch=q, data_changed=data3)})
            res.count("independence_checks")
        if n % 211 == 0:
            res.sample({"ts": ts, "ep": ep, "kind": kind, "kernel": kern, "trim": trim, "out_col0_k0": exp[0][0]})


def gauss_window(rate, std_s, windowsize_s, size_factor, norm):
    """the window the docstring of smooth promises, computed independently"""
    from scipy.signal.windows import gaussian
    std = round(std_s * 1e9) / 1e9
    std_size = int(rate * std)
    if windowsize_s is not None:
        M = int(rate * (round(windowsize_s * 1e9) / 1e9))
    else:
        M = std_size * size_factor
    if M % 2 == 0:
        M += 1
    w = gaussian(M=M, std=std_size)
    return w / w.sum() if norm else w


def sinc_lowpass(fc, fs, tb):
    M = int(np.rint(4.0 / tb))
    x = np.arange(-(M // 2), 1 + (M // 2))
    k = np.sinc(2 * (fc / fs) * x) * np.blackman(len(x))
    return k / k.sum()


def close(a, b, scale):
    return np.all(np.abs(np.asarray(a) - np.asarray(b)) <= TOL * (1.0 + scale))


def regular_case(rng, min_len, emax=3):
    """regularly sampled epochs (step 2U... = 256 Hz lattice) of different lengths >= min_len, with gaps"""
    m = rng.randint(1, emax)
    ts, ep, t = [], [], rng.randrange(0, 20) * 2 * U
    for _ in range(m):
        ln = min_len + rng.choice([0, 1, 2, 5, 9, 17])
        inside = [t + j * 2 * U for j in range(ln)]
        ts += inside
        ep.append((inside[0] - U // 5, inside[-1] + U // 5))
        t = inside[-1] + rng.choice([2, 3, 11]) * 2 * U
    return ts, ep


def build_any(nap, kind, ts, cols, epo, dshape):
    T = len(ts)
    arr = np.array(cols, dtype=float).T.reshape((T,) + dshape) if dshape else np.array(cols[0], dtype=float)
    if kind == "Tsd":
        return nap.Tsd(G.arr(ts), arr, time_support=epo)
    if kind == "TsdFrame":
        return nap.TsdFrame(G.arr(ts), arr, time_support=epo, columns=["c%d" % (3 * i + 1) for i in range(dshape[0])])
    return nap.TsdTensor(G.arr(ts), arr, time_support=epo)


def axis_ok(r, x, ts, ep):
    return ([C.to_ns(t) for t in r.t] == ts and support_of(r) == list(ep) and tuple(r.shape) == tuple(x.shape)
            and type(r) is type(x) and (not hasattr(x, "columns") or list(r.columns) == list(x.columns)))


def _others_overwritten(rng, data, rows, q, T):
    return [[d[i] if i in rows[q] else rng.randint(-50, 50) for i in range(T)] for d in data]


def part_smooth_sinc(res, nap, tier, rng, variant="small"):
    """real-valued kernels through the public API: smooth, windowed-sinc filters (to the declared tolerance).
    variant "small": transition bandwidth 0.1..0.5 (9..41 taps), epochs of 1..25 samples;
    "default_bw": the DEFAULT transition bandwidth (0.02 -> 201 taps) and smooth's default size_factor on epochs of 150..440 samples;
    "fft": transition bandwidth 0.005 (801 taps) on an epoch of 12000 samples, where scipy.signal.convolve switches to its FFT method"""
    from scipy import signal
    long_kernel = variant != "small"
    N = {"small": (400, 4000), "default_bw": (10, 100), "fft": (2, 12)}[variant][0 if tier == "quick" else 1]
    TB = {"default_bw": 0.02, "fft": 0.005}
    fs = 1e9 / (2 * U)
    SINC = (("lowpass", nap.apply_lowpass_filter), ("highpass", nap.apply_highpass_filter),
            ("bandpass", nap.apply_bandpass_filter), ("bandstop", nap.apply_bandstop_filter))
    for c in range(N):
        if variant == "fft":
            ts, ep = regular_case(rng, 12000, emax=1)
        else:
            ts, ep = regular_case(rng, rng.choice([150, 260, 420]) if long_kernel else rng.choice([1, 2, 3, 8]))
        if long_kernel and rng.random() < 0.5:      # plus one epoch much shorter than the 201-tap kernel
            t0 = ts[-1] + 5 * 2 * U
            extra = [t0 + j * 2 * U for j in range(rng.choice([1, 7, 40]))]
            ts, ep = ts + extra, ep + [(extra[0] - U // 5, extra[-1] + U // 5)]
        kind = rng.choice(["Tsd", "TsdFrame", "TsdTensor"]) if variant != "fft" else "Tsd"
        dshape = {"Tsd": (), "TsdFrame": (2,), "TsdTensor": (2, 2)}[kind]
        nc = int(np.prod(dshape)) if dshape else 1
        data = [[rng.randint(-9, 9) for _ in ts] for _ in range(nc)]
        d2 = [[rng.randint(-9, 9) for _ in ts] for _ in range(nc)]
        a, b = rng.randint(-3, 3), rng.randint(-3, 3)
        epo = iset(nap, ep)
        x = build_any(nap, kind, ts, data, epo, dshape)
        y = build_any(nap, kind, ts, d2, epo, dshape)
        z = build_any(nap, kind, ts, [[a * u + b * v for u, v in zip(p, q_)] for p, q_ in zip(data, d2)], epo, dshape)
        rows = epoch_rows(ts, ep)
        T = len(ts)
        scale = 9.0
        inp = {"ts": ts, "ep": ep, "kind": kind, "data": data, "variant": variant}
        res.case(("smooth_sinc", variant, c, kind, len(ep)), nontrivial=len(ep) > 1)
        res.count("smooth_sinc_cases_" + variant)
        q = rng.randrange(len(ep))
        x3 = build_any(nap, kind, ts, _others_overwritten(rng, data, rows, q, T), epo, dshape) if len(ep) > 1 else None
        # ---- smooth
        step = 2 * U / 1e9 * 1.0001
        std_s = rng.choice([1, 2, 3]) * step
        ws = rng.choice([None, 5 * step, 8 * step])
        sf = rng.choice([3, 4])
        if long_kernel:
            std_s, ws, sf = rng.choice([2, 3]) * step, None, (100 if variant == "default_bw" else 400)   # 100 is the default: 201 / 301 taps; 400: 801 / 1201
        norm = rng.random() < 0.7
        kk = {"op": "smooth", "kind": kind, "variant": variant}
        sm = dict(windowsize=ws, size_factor=sf, norm=norm)
        try:
            r = x.smooth(std_s, **sm)
            if not axis_ok(r, x, ts, ep):
                res.violations.append({"key": dict(kk, part="time_axis"), "what": "smooth changed timestamps / support / shape / columns", "input": inp})
            else:
                if x3 is not None and not np.array_equal(x3.smooth(std_s, **sm).values[rows[q]], r.values[rows[q]]):
                    res.violations.append({"key": dict(kk, part="independence"), "what": "smooth: an epoch's output changed with other epochs' data", "input": inp})
                lz, ly = z.smooth(std_s, **sm).values, y.smooth(std_s, **sm).values
                if not close(lz, a * r.values + b * ly, scale * 7 * (1 if norm else 10)):
                    res.violations.append({"key": dict(kk, part="linearity"), "what": "smooth is not linear in the signal (beyond the declared tolerance)",
                                           "input": dict(inp, data2=d2, a=a, b=b, std=std_s, **sm)})
                # correspondence with the model's smooth_epochs, window := the gaussian window the docstring promises (not part of the statement)
                w = gauss_window(x.rate, std_s, ws, sf, norm)
                if any(signal.choose_conv_method(np.zeros(len(rw)), np.zeros(len(w))) != "direct" for rw in rows if rw):
                    res.count("scipy_fft_method_smooth")
                g = np.asarray(r.values).reshape(T, nc)
                for i in range(nc):
                    e = np.zeros(T)
                    for rw in rows:
                        f = signal.convolve(np.array([data[i][j] for j in rw], dtype=float), w)
                        cc = (len(w) - 1) // 2
                        e[rw] = f[cc:cc + len(rw)]
                    if not close(g[:, i], e, scale * (1 if norm else 10)):
                        res.disagreements.append({"op": "smooth(window := documented gaussian)", "input": dict(inp, std=std_s, **sm),
                                                  "impl": g[:, i].tolist()[:40], "model": e.tolist()[:40]})
                        break
        except Exception as ex:
            res.violations.append({"key": dict(kk, part="exception", exception=type(ex).__name__), "what": "smooth raised %s: %s" % (type(ex).__name__, str(ex)[:80]),
                                   "input": dict(inp, std=std_s, **sm)})
        # ---- windowed sinc, four types
        tb = rng.choice([0.5, 0.4, 0.25, 0.1])
        f1 = rng.choice([0.08, 0.15, 0.22]) * fs
        f2 = f1 + rng.choice([0.1, 0.2]) * fs
        kw = {"transition_bandwidth": tb}
        if long_kernel:
            tb = TB[variant]
            kw = {} if variant == "default_bw" else {"transition_bandwidth": tb}
        ntaps = len(sinc_lowpass(f1, fs, tb))
        if any(signal.choose_conv_method(np.zeros(len(rw)), np.zeros(ntaps)) != "direct" for rw in rows if rw):
            res.count("scipy_fft_method_sinc")
        if any(0 < len(rw) < ntaps for rw in rows):
            res.count("sinc_epoch_shorter_than_kernel")
        kk = {"op": "sinc", "kind": kind, "variant": variant}
        try:
            use_fs = rng.choice([fs, None]) if len(ep) == 1 else fs
            # the band limits in every admissible form; ONE object is passed to both complementary calls, as a user would
            band = rng.choice([lambda: (f1, f2), lambda: [f1, f2], lambda: np.array([f1, f2])])()
            cut = {"lowpass": f1, "highpass": f1, "bandpass": band, "bandstop": band}
            use = {"lowpass": use_fs, "highpass": use_fs, "bandpass": fs, "bandstop": fs}
            out = {nm: f(x, cut[nm], fs=use[nm], mode="sinc", **kw) for nm, f in SINC}
            lp, hp, bp, bs = (out[nm] for nm, _ in SINC)
            for nm, f in SINC:
                r = out[nm]
                if not axis_ok(r, x, ts, ep):
                    res.violations.append({"key": dict(kk, part="time_axis", filter=nm), "what": "sinc filter changed timestamps / support / shape / columns", "input": inp})
                    continue
                if x3 is not None and not np.array_equal(f(x3, cut[nm], fs=use[nm], mode="sinc", **kw).values[rows[q]], r.values[rows[q]]):
                    res.violations.append({"key": dict(kk, part="independence", filter=nm), "what": "sinc filter: an epoch's output changed with other epochs' data", "input": inp})
                lz = f(z, cut[nm], fs=use[nm], mode="sinc", **kw).values
                ly = f(y, cut[nm], fs=use[nm], mode="sinc", **kw).values
                if not close(lz, a * r.values + b * ly, scale * 7):
                    res.violations.append({"key": dict(kk, part="linearity", filter=nm), "what": "sinc filter is not linear in the signal (beyond the declared tolerance)",
                                           "input": dict(inp, data2=d2, a=a, b=b, cutoff=str(cut[nm]), tb=kw)})
            if not close(lp.values + hp.values, x.values, scale):
                res.violations.append({"key": dict(kk, part="lp_plus_hp"), "what": "windowed-sinc low-pass + high-pass outputs do not sum to the input",
                                       "input": dict(inp, cutoff=f1, fs=use_fs, tb=kw), "impl": (lp.values + hp.values).ravel().tolist()[:40], "expected": x.values.ravel().tolist()[:40]})
            if not close(bp.values + bs.values, x.values, scale):
                res.violations.append({"key": dict(kk, part="bp_plus_bs"), "what": "windowed-sinc band-pass + band-stop outputs do not sum to the input",
                                       "input": dict(inp, cutoff=[f1, f2], fs=fs, tb=kw)})
            if use_fs is not None:
                # correspondence with the model's sinc_filter, kernel := the documented blackman-windowed sinc (not part of the statement)
                kl = sinc_lowpass(f1, fs, tb)
                g = np.asarray(lp.values).reshape(T, nc)
                for i in range(nc):
                    e = np.zeros(T)
                    for rw in rows:
                        f = signal.convolve(np.array([data[i][j] for j in rw], dtype=float), kl)
                        cc = (len(kl) - 1) // 2
                        e[rw] = f[cc:cc + len(rw)]
                    if not close(g[:, i], e, scale):
                        res.disagreements.append({"op": "sinc lowpass(kernel := documented windowed sinc)", "input": dict(inp, cutoff=f1, fs=fs, tb=kw)})
                        break
        except Exception as ex:
            res.violations.append({"key": dict(kk, part="exception", exception=type(ex).__name__), "what": "sinc filter raised %s: %s" % (type(ex).__name__, str(ex)[:80]),
                                   "input": dict(inp, cutoff=[f1, f2], tb=kw)})
        if c % 29 == 0:
            res.sample({"smooth/sinc": variant, "epochs": [len(r) for r in rows], "kind": kind, "taps": ntaps, "std": std_s})


def butter_padlen(sos):
    """sosfiltfilt's default padlen (SciPy: the slice must hold MORE samples than this)"""
    return int(3 * (2 * len(sos) + 1 - min((sos[:, 2] == 0).sum(), (sos[:, 5] == 0).sum())))


def part_empty_epoch(res, nap, tier, rng):
    """a time support with an interval holding no sample (smooth / sinc / Butterworth; convolve itself: part 1), and, for
    Butterworth, an interval holding 1..padlen samples: "process each interval independently" - the other intervals' outputs
    must not depend on it, so the call must not raise"""
    from scipy.signal import butter
    fs = 1e9 / (2 * U)
    FUN = {"lowpass": nap.apply_lowpass_filter, "highpass": nap.apply_highpass_filter,
           "bandpass": nap.apply_bandpass_filter, "bandstop": nap.apply_bandstop_filter}
    for c in range(12 if tier == "quick" else 80):
        ts, ep = regular_case(rng, 30, emax=2)
        ftype = rng.choice(sorted(FUN))
        order = rng.randint(1, 3)
        cutoff = 0.2 * fs if ftype in ("lowpass", "highpass") else (0.1 * fs, 0.2 * fs)
        padlen = butter_padlen(butter(order, cutoff, btype=ftype, fs=fs, output="sos"))
        nshort = 0 if c % 2 == 0 else rng.choice([1, 2, padlen - 1, padlen])     # samples in the extra interval
        gap_s = ep[-1][1] + 3 * 2 * U
        extra = [gap_s + U + j * 2 * U for j in range(nshort)]
        where = rng.choice(["last", "first", "middle"]) if (len(ep) > 1 and nshort == 0) else rng.choice(["last", "first"])
        width = max(nshort, 1) * 2 * U
        if where == "last":
            ts2, ep2 = ts + extra, ep + [(gap_s, gap_s + width)]
        elif where == "first":
            sh = ts[0] - 4 * 2 * U - width
            ts2, ep2 = [t - gap_s + sh for t in extra] + ts, [(sh, sh + width)] + ep
        else:       # an empty interval strictly between the two epochs (their samples are >= 2 steps apart)
            ts2, ep2 = ts, [ep[0], (ep[0][1] + U // 2, ep[1][0] - U // 2), ep[1]]
        rows = epoch_rows(ts2, ep2)
        data = [rng.randint(-9, 9) for _ in ts2]
        x = nap.Tsd(G.arr(ts2), np.array(data, dtype=float), time_support=iset(nap, ep2))
        if [C.to_ns(t) for t in x.t] != ts2 or support_of(x) != ep2:
            raise RuntimeError("harness: could not build the input %r on %r" % (ts2, ep2))
        inp = {"ts": ts2, "ep": ep2, "data": data}
        empty, short = nshort == 0, nshort > 0
        res.case(("empty_epoch", c), nontrivial=True)
        res.count("empty_epoch_filter_cases" if empty else "short_epoch_butter_cases")
        calls = []
        if empty:
            calls += [("smooth", lambda x_: x_.smooth(2 * U / 1e9 * 1.0001, size_factor=3)),
                      ("sinc", lambda x_: nap.apply_lowpass_filter(x_, 0.2 * fs, fs=fs, mode="sinc", transition_bandwidth=0.5))]
        calls.append(("butter", lambda x_: FUN[ftype](x_, cutoff, fs=fs, mode="butter", order=order)))
        for nm, f in calls:
            key = {"op": nm, "empty_epoch": empty, "short_epoch": short}
            if nm == "butter":
                key["filter"] = ftype
            try:
                r = f(x)
            except Exception as ex:
                res.count(nm + ("_empty_epoch_raises" if empty else "_short_epoch_raises"))
                res.violations.append({"key": dict(key, part="exception", exception=type(ex).__name__),
                                       "what": "%s raised %s (%s) for the WHOLE series because one interval of the support holds %s"
                                               % (nm, type(ex).__name__, str(ex)[:70], "no sample" if empty else "%d sample(s), not more than sosfiltfilt's padlen %d" % (nshort, padlen)),
                                       "input": dict(inp, filter=ftype, order=order), "impl": type(ex).__name__})
                continue
            res.count(nm + ("_empty_epoch_ok" if empty else "_short_epoch_ok"))
            if [C.to_ns(t) for t in r.t] != ts2 or support_of(r) != ep2:
                res.violations.append({"key": dict(key, part="time_axis"), "what": nm + " changed the time axis", "input": inp})
                continue
            # the full intervals' outputs are what they are without the empty / short interval (smooth derives its window
            # from the rate of the object it is given, which restriction changes: not compared)
            for q, rw in enumerate(rows):
                if len(rw) <= padlen or nm == "smooth":
                    continue
                one = f(x.restrict(nap.IntervalSet(ep2[q][0] / 1e9, ep2[q][1] / 1e9))).values
                if not np.array_equal(np.asarray(one), np.asarray(r.values)[rw]):
                    res.violations.append({"key": dict(key, part="independence_restrict"), "what": nm + ": filtering the restricted epoch differs from the epoch's rows of the whole result",
                                           "input": dict(inp, epoch=q)})


def part_sinc_model(res, nap, tier, rng):
    """spectral inversion / band kernels and complementarity on INTEGER kernels: model vs implementation, exact"""
    from pynapple.process import filtering as F
    N = 400 if tier == "quick" else 4000
    cases, lines = [], []
    for c in range(N):
        ts, ep = rand_case(rng, nmax=24, emax=3)
        rows = epoch_rows(ts, ep)
        keep = sorted(i for r in rows for i in r)
        ts = [ts[i] for i in keep]
        col = [rng.randint(-9, 9) for _ in ts]
        cc = rng.randint(0, 4)
        u = rng.choice([1, 1, 7, 16])
        lp0 = [rng.randint(-5, 5) for _ in range(2 * cc + 1)]
        lp1 = [rng.randint(-5, 5) for _ in range(2 * cc + 1)]
        cases.append((ts, ep, col, u, lp0, lp1))
        lines.append("sinc_kernels\t%d\t%s\t%s" % (u, C.fmt_ints(lp0), C.fmt_ints(lp1)))
    out = C.run_model(lines, driver="driver_c18")
    lines2 = []
    for n, (ts, ep, col, u, lp0, lp1) in enumerate(cases):
        hp, bs, bp = parse(out[n])
        for k in (lp0, hp, bs, bp):
            lines2.append("sinc\t%s\t%s\t%s\t%s" % (C.fmt_ints(ts), C.fmt_ints(col), C.fmt_iset(ep), C.fmt_ints(k)))
    out2 = C.run_model(lines2, driver="driver_c18")
    for n, (ts, ep, col, u, lp0, lp1) in enumerate(cases):
        hp, bs, bp = parse(out[n])
        res.case(("sinc_model", n), nontrivial=len(lp0) > 1)
        res.count("sinc_integer_kernel_cases")
        inp = {"ts": ts, "ep": ep, "col": col, "u": u, "lp0": lp0, "lp1": lp1}
        if u == 1:
            # the implementation's own kernel algebra (in place, float)
            i_hp = F._compute_spectral_inversion(np.array(lp0, dtype=float))
            kern = np.array([lp0, lp1], dtype=float).T.copy()
            kern[:, 1] = F._compute_spectral_inversion(kern[:, 1])
            i_bs = np.sum(kern, axis=1)
            i_bp = F._compute_spectral_inversion(i_bs.copy())
            if [ints(i_hp), ints(i_bs), ints(i_bp)] != [hp, bs, bp]:
                res.disagreements.append({"op": "sinc_kernels", "input": inp, "impl": [ints(i_hp), ints(i_bs), ints(i_bp)], "model": [hp, bs, bp]})
        x = nap.Tsd(G.arr(ts), np.array(col, dtype=float), time_support=iset(nap, ep))
        o = []
        for j, k in enumerate((lp0, hp, bs, bp)):
            try:
                r = ints(x.convolve(np.array(k, dtype=float)).values)
            except Exception as ex:
                res.violations.append({"key": {"op": "convolve", "part": "exception", "exception": type(ex).__name__, "integer_kernel": True},
                                       "what": "convolve raised %s: %s" % (type(ex).__name__, str(ex)[:80]), "input": dict(inp, kernel=k)})
                r = None
            o.append(r)
            if r != parse(out2[4 * n + j])[0]:
                res.disagreements.append({"op": "sinc_filter", "input": dict(inp, kernel=k), "impl": r, "model": parse(out2[4 * n + j])[0]})
        if any(r is None for r in o):
            continue
        if [p + q for p, q in zip(o[0], o[1])] != [u * v for v in col]:
            res.violations.append({"key": {"op": "sinc", "part": "lp_plus_hp", "integer_kernel": True}, "what": "conv(x, k) + conv(x, u*delta - k) != u*x for an odd kernel, 'both' trim",
                                   "input": inp})
        if [p + q for p, q in zip(o[2], o[3])] != [u * v for v in col]:
            res.violations.append({"key": {"op": "sinc", "part": "bp_plus_bs", "integer_kernel": True}, "what": "band-stop + band-pass kernels do not give back u*x", "input": inp})


def probe_F(sos, x, axis=0):
    """integer-valued stand-in for sosfiltfilt: reverse along time, then running sums"""
    return np.cumsum(np.asarray(x)[::-1], axis=0)


def part_butter(res, nap, tier, rng):
    from scipy.signal import butter, sosfiltfilt
    from pynapple.process import filtering as F
    fs = 1e9 / (2 * U)
    FUN = {"lowpass": nap.apply_lowpass_filter, "highpass": nap.apply_highpass_filter,
           "bandpass": nap.apply_bandpass_filter, "bandstop": nap.apply_bandstop_filter}
    N = 200 if tier == "quick" else 2000
    for c in range(N):
        ftype = rng.choice(sorted(FUN))
        order = rng.randint(1, 4)
        f1 = rng.choice([0.06, 0.1, 0.2, 0.3]) * fs
        f2 = f1 + rng.choice([0.05, 0.1, 0.14]) * fs
        cutoff = f1 if ftype in ("lowpass", "highpass") else (f1, f2)
        sos = butter(order, cutoff, btype=ftype, fs=fs, output="sos")
        padlen = butter_padlen(sos)
        ts, ep = regular_case(rng, padlen + 1)      # 1..padlen samples and empty intervals: part_empty_epoch
        kind = rng.choice(["Tsd", "TsdFrame", "TsdTensor"])
        dshape = {"Tsd": (), "TsdFrame": (2,), "TsdTensor": (2, 2)}[kind]
        nc = int(np.prod(dshape)) if dshape else 1
        data = [[rng.randint(-9, 9) for _ in ts] for _ in range(nc)]
        epo = iset(nap, ep)
        x = build_any(nap, kind, ts, data, epo, dshape)
        rows = epoch_rows(ts, ep)
        T = len(ts)
        inp = {"ts": ts, "ep": ep, "kind": kind, "data": data, "filter": ftype, "order": order, "cutoff": cutoff, "fs": fs}
        kk = {"op": "butter", "filter": ftype, "kind": kind}
        res.case(("butter", c, ftype, order, kind, len(ep)), nontrivial=len(ep) > 1)
        res.count("butter_cases")
        res.count("butter_" + ftype)
        try:
            r = FUN[ftype](x, cutoff, fs=fs, mode="butter", order=order)
        except Exception as ex:
            res.violations.append({"key": dict(kk, part="exception", exception=type(ex).__name__, empty_epoch=False, short_epoch=False),
                                   "what": "butterworth filter raised %s: %s" % (type(ex).__name__, str(ex)[:80]), "input": inp})
            continue
        if not axis_ok(r, x, ts, ep):
            res.violations.append({"key": dict(kk, part="time_axis"), "what": "butterworth filter changed timestamps / support / shape / columns", "input": inp})
            continue
        g = np.asarray(r.values).reshape(T, nc)
        for q, rw in enumerate(rows):
            e = np.stack([sosfiltfilt(sos, np.array([data[i][j] for j in rw], dtype=float)) for i in range(nc)], axis=1)
            if not np.array_equal(g[rw], e):
                # correspondence with the model's butter_epochs, F := scipy.signal.sosfiltfilt (the statement does not name the routine)
                res.disagreements.append({"op": "butter(F := scipy sosfiltfilt on the epoch's samples alone)", "input": dict(inp, epoch=q),
                                          "impl": g[rw].tolist(), "model": e.tolist()})
                break
        if len(ep) > 1:
            q = rng.randrange(len(ep))
            d3 = [[d[i] if i in rows[q] else rng.randint(-50, 50) for i in range(T)] for d in data]
            r3 = FUN[ftype](build_any(nap, kind, ts, d3, epo, dshape), cutoff, fs=fs, mode="butter", order=order).values
            if not np.array_equal(r3[rows[q]], r.values[rows[q]]):
                res.violations.append({"key": dict(kk, part="independence"), "what": "butterworth: an epoch's output changed with other epochs' data", "input": dict(inp, epoch=q)})
            # the same epoch filtered on its own (public API on the restricted object, same fs)
            one = x.restrict(nap.IntervalSet(ep[q][0] / 1e9, ep[q][1] / 1e9))
            r1 = FUN[ftype](one, cutoff, fs=fs, mode="butter", order=order).values
            if not np.array_equal(np.asarray(r1), np.asarray(r.values)[rows[q]]):
                res.violations.append({"key": dict(kk, part="independence_restrict"), "what": "filtering the restricted epoch differs from the epoch's rows of the whole result",
                                       "input": dict(inp, epoch=q)})
        d2 = [[rng.randint(-9, 9) for _ in ts] for _ in range(nc)]
        a, b = rng.randint(-3, 3), rng.randint(-3, 3)
        y = FUN[ftype](build_any(nap, kind, ts, d2, epo, dshape), cutoff, fs=fs, mode="butter", order=order).values
        z = FUN[ftype](build_any(nap, kind, ts, [[a * u + b * v for u, v in zip(p, q_)] for p, q_ in zip(data, d2)], epo, dshape),
                       cutoff, fs=fs, mode="butter", order=order).values
        sc = max(1.0, float(np.max(np.abs(z))), float(np.max(np.abs(r.values))) * abs(a), float(np.max(np.abs(y))) * abs(b))
        if not close(z, a * r.values + b * y, sc):
            res.violations.append({"key": dict(kk, part="linearity"), "what": "butterworth filter is not linear in the signal (beyond the declared tolerance)",
                                   "input": dict(inp, data2=d2, a=a, b=b), "impl": float(np.max(np.abs(z - a * r.values - b * y)))})
        if len(ep) == 1 and c % 3 == 0:
            r0 = FUN[ftype](x, cutoff, mode="butter", order=order)     # fs inferred from the rate
            sos0 = butter(order, cutoff, btype=ftype, fs=x.rate, output="sos")
            e0 = np.stack([sosfiltfilt(sos0, np.array(data[i], dtype=float)) for i in range(nc)], axis=1)
            if not axis_ok(r0, x, ts, ep):
                res.violations.append({"key": dict(kk, part="time_axis", fs_default=True), "what": "butterworth filter (fs=None) changed timestamps / support / shape / columns", "input": inp})
            elif not np.array_equal(np.asarray(r0.values).reshape(T, nc), e0):
                res.disagreements.append({"op": "butter(fs=None: F := sosfiltfilt designed for the series' rate)", "input": inp})
        if c % 37 == 0:
            res.sample({"butter": ftype, "order": order, "epochs": [len(r_) for r_ in rows], "kind": kind})
    # ---- correspondence of the per-epoch bookkeeping: sosfiltfilt replaced by an integer stand-in (in this process only)
    M = 1000 if tier == "quick" else 10000
    cases, lines = [], []
    for c in range(M):
        ts, ep = rand_case(rng, nmax=30, emax=4)
        rows = epoch_rows(ts, ep)
        keep = sorted(i for r in rows for i in r)
        ts = [ts[i] for i in keep]
        col = [rng.randint(-9, 9) for _ in ts]
        cases.append((ts, ep, col))
        lines.append("butter_probe\t%s\t%s\t%s" % (C.fmt_ints(ts), C.fmt_ints(col), C.fmt_iset(ep)))
    out = C.run_model(lines, driver="driver_c18")
    orig = F.sosfiltfilt
    F.sosfiltfilt = probe_F
    try:
        for n, (ts, ep, col) in enumerate(cases):
            rows = epoch_rows(ts, ep)
            res.case(("butter_probe", tuple(ts), tuple(ep)), nontrivial=len(ep) > 1)
            res.count("butter_probe_cases")
            inp = {"ts": ts, "ep": ep, "col": col}
            x = nap.Tsd(G.arr(ts), np.array(col, dtype=float), time_support=iset(nap, ep))
            try:
                r = nap.apply_lowpass_filter(x, 0.2 * fs, fs=fs, mode="butter", order=2)
            except Exception as ex:
                res.disagreements.append({"op": "butter_probe", "input": inp, "impl": type(ex).__name__ + ": " + str(ex)[:80]})
                continue
            got = ints(r.values)
            exp = [0] * len(ts)
            for rw in rows:
                acc, vals = 0, []
                for j in reversed(rw):
                    acc += col[j]
                    vals.append(acc)
                for i, v in zip(rw, vals):
                    exp[i] = v
            if got != exp or [C.to_ns(t) for t in r.t] != ts or support_of(r) != list(ep):
                res.violations.append({"key": {"op": "butter", "part": "per_epoch_bookkeeping"}, "what": "with sosfiltfilt replaced by a stand-in F, an epoch's rows are not F(that epoch's rows)",
                                       "input": inp, "impl": got, "expected": exp})
            if got != parse(out[n])[0]:
                res.disagreements.append({"op": "butter_probe", "input": inp, "impl": got, "model": parse(out[n])[0]})
    finally:
        F.sosfiltfilt = orig


# (widened argument forms follow; see res.rule, parts 6-8)
# ------------------------------------------------------------------------------------------------
# WIDENED ARGUMENT FORMS (parts 6 and 7): the same statement oracles, the inputs given in every admissible form
SEC = 10 ** 9
DT_ALL = ("float64", "float32", "int64", "int32", "int16", "int8", "uint8", "uint16", "uint32", "uint64", "bool")
DT_WEIGHTS = (5, 3, 3, 1, 2, 2, 3, 1, 1, 2, 2)
TFORMS = ("list", "tuple", "pandas", "pd_index", "tsindex", "other_t", "ms", "us", "f32")
TFORMS_INT = ("int64_s", "int32_s", "uint64_s", "uint32_s")
EFORMS = ("lists", "tuples", "ms", "us", "2d", "df")
EFORMS_INT = ("int64_s", "int32_s", "uint64_s", "uint32_s")
HISTS = ("restrict", "getitem", "arith", "npfunc", "saveload", "colpick")
LABELS = ("strings", "ints_unsorted", "digit_strings", "floats")
KFORMS = ("i64", "f32", "i8", "i16", "u8", "bool", "halves", "list", "tuple", "noncontig", "negstride", "fortran", "view_of_data")
KDTYPE = {"f64": "float64", "i64": "int64", "f32": "float32", "i8": "int8", "i16": "int16", "u8": "uint8", "bool": "bool"}
OPTIONAL_KFORMS = ("list", "tuple")       # not "a numpy array": the call may refuse them (cleanly) or must satisfy the statement


def dt_class(dt):
    return "bool" if dt == "bool" else "uint" if dt.startswith("uint") else "int" if dt.startswith("int") else dt


def val_range(dt, big=False):
    c = dt_class(dt)
    return (0, 1) if c == "bool" else (0, 50 if big else 9) if c == "uint" else (-50, 50) if big else (-9, 9)


def fits(cols, dt):
    c = dt_class(dt)
    if c.startswith("float"):
        return True
    flat = [v for col in cols for v in col]
    if c == "bool":
        return all(v in (0, 1) for v in flat)
    info = np.iinfo(dt)
    return all(info.min <= v <= info.max for v in flat)


def safe_pair(sdt, kdt, bound):
    """NumPy convolves in result_type(signal, kernel): only pairs whose result type holds every partial sum exactly are generated"""
    rt = np.result_type(np.dtype(sdt), np.dtype(kdt))
    if rt == np.bool_:
        return False
    if rt.kind in "iu":
        return np.iinfo(rt).max >= bound
    return True


def pick(rng, default, others, p=0.4):
    return rng.choice(others) if rng.random() < p else default


def label_list(form, n):
    if form == "default":
        return None
    return {"strings": ["c%d" % (3 * i + 1) for i in range(7)], "ints_unsorted": [7, 2, 5, 11, 3, 0, 9],
            "digit_strings": ["10", "9", "100", "1", "55", "07", "2"], "floats": [1.5, 0.5, 2.5, -1.0, 4.25, 3.0, 0.25]}[form][:n]


def make_t(nap, ts, tform):
    """the timestamps `ts` (ticks) in the requested argument form -> (t, constructor keywords)"""
    import pandas as pd
    a = G.arr(ts)
    if tform == "list":
        return a.tolist(), {}
    if tform == "tuple":
        return tuple(a.tolist()), {}
    if tform == "pandas":          # Tsd / TsdFrame: the whole object comes as a pandas Series / DataFrame (see realise); TsdTensor: t is a Series
        return pd.Series(a), {}
    if tform == "pd_index":
        return pd.Index(a), {}
    if tform in ("tsindex", "other_t"):
        o = nap.Ts(a, time_support=nap.IntervalSet(a[0] - 1.0, a[-1] + 1.0))
        return (o.index if tform == "tsindex" else o.t), {}
    if tform == "ms":
        return np.asarray(ts, dtype=float) / 1e6, {"time_units": "ms"}
    if tform == "us":
        return np.asarray(ts, dtype=float) / 1e3, {"time_units": "us"}
    if tform == "f32" and np.array_equal(a.astype(np.float32).astype(float), a):
        return a.astype(np.float32), {}
    if tform.endswith("_s") and all(t % SEC == 0 for t in ts):
        return np.array([t // SEC for t in ts], dtype=tform[:-2]), {}
    return a, {}


def make_ep(nap, ep, eform, meta=False):
    """the interval set `ep` (ticks) built from the requested argument form, with or without metadata"""
    import pandas as pd
    s, e = [a for a, _ in ep], [b for _, b in ep]
    kw = {"metadata": {"lab": ["e%d" % i for i in range(len(ep))]}} if (meta and ep) else {}
    fs_, fe_ = G.arr(s), G.arr(e)
    if not ep:
        return nap.IntervalSet([], []) if eform == "lists" else nap.IntervalSet(fs_, fe_)
    if eform == "lists":
        return nap.IntervalSet(fs_.tolist(), fe_.tolist(), **kw)
    if eform == "tuples":
        return nap.IntervalSet(tuple(fs_.tolist()), tuple(fe_.tolist()), **kw)
    if eform in ("ms", "us"):
        d = 1e6 if eform == "ms" else 1e3
        return nap.IntervalSet(np.asarray(s, dtype=float) / d, np.asarray(e, dtype=float) / d, time_units=eform, **kw)
    if eform == "2d":
        return nap.IntervalSet(np.stack([fs_, fe_], axis=1), **kw)
    if eform == "df":
        return nap.IntervalSet(pd.DataFrame({"start": fs_, "end": fe_}), **kw)
    if eform.endswith("_s") and all(v % SEC == 0 for v in s + e):
        return nap.IntervalSet(np.array([v // SEC for v in s], dtype=eform[:-2]), np.array([v // SEC for v in e], dtype=eform[:-2]), **kw)
    return nap.IntervalSet(fs_, fe_, **kw)


def data_form(a, dform):
    if dform == "list" and a.dtype.name in ("float64", "int64", "bool"):
        return a.tolist()
    if dform == "noncontig":
        big = np.zeros((2 * a.shape[0],) + a.shape[1:], dtype=a.dtype)
        big[::2] = a
        return big[::2]
    if dform == "fortran" and a.ndim >= 2:
        return np.asfortranarray(a)
    return a


def pick_spec(rng, int_forms, unsigned, kinds=("Tsd", "TsdFrame", "TsdTensor"), frame_cols=(1, 2, 3)):
    """one choice per argument-form axis; every axis leaves its most common value with probability ~0.4, independently (so the forms also occur COMBINED)"""
    kind = rng.choice(kinds)
    dshape = {"Tsd": (), "TsdFrame": (rng.choice(frame_cols),), "TsdTensor": (2, rng.randint(1, 2))}[kind]
    nc = int(np.prod(dshape)) if dshape else 1
    tints = [f for f in TFORMS_INT if unsigned or not f.startswith("u")]
    eints = [f for f in EFORMS_INT if unsigned or not f.startswith("u")]
    sp = {"kind": kind, "dshape": list(dshape),
          "dtype": rng.choices(DT_ALL, DT_WEIGHTS)[0],
          "dform": pick(rng, "ndarray", ("list", "noncontig", "fortran"), 0.3),
          "labels": pick(rng, "default", LABELS, 0.6), "fmeta": rng.random() < 0.3,
          "tform": rng.choice(tints) if (int_forms and rng.random() < 0.7) else pick(rng, "ndarray", TFORMS),
          "eform": rng.choice(eints) if (int_forms and rng.random() < 0.7) else pick(rng, "arrays", EFORMS),
          "emeta": rng.random() < 0.3, "ctor_kw": rng.random() < 0.5,
          "hist": pick(rng, "direct", HISTS), "restrict_default": rng.random() < 0.5,
          "getitem": rng.choice(["full_slice", "range_slice", "arange", "mask"]), "arith": rng.choice(["mul1", "add0"]),
          "pick_style": rng.choice(["pos", "loc"])}
    # colpick: the real columns sit at distinct, NON-MONOTONE positions of a wider frame
    sp["pick"] = rng.sample(range(nc + 2), nc) if kind != "TsdTensor" else []
    return sp


def realise(nap, sp, ts, cols, ep, extras=(), wide=False):
    """The signal holding `cols` (one list per flattened column) at the ticks `ts`, built the way `sp` says.
    wide=False: its time support is `ep`; the samples `extras` (ticks outside ep) only exist before a restrict.
    wide=True: one interval around everything and the extras stay (the input of convolve's ep= route).
    Returns (object, expected column labels or None, timestamps held, columns held)"""
    kind, dshape, dt, hist = sp["kind"], tuple(sp["dshape"]), sp["dtype"], sp["hist"]
    junk = 1 if dt == "bool" else 7
    if (wide or hist == "restrict") and extras:
        allp = sorted([(t, 0, i) for i, t in enumerate(ts)] + [(t, 1, i) for i, t in enumerate(extras)])
        uts = [p[0] for p in allp]
        ucols = [[(col[p[2]] if p[1] == 0 else junk) for p in allp] for col in cols]
    else:
        uts, ucols = list(ts), cols
    T = len(uts)
    lo = min(uts + [s for s, _ in ep]) - 2 * SEC
    hi = max(uts + [e for _, e in ep]) + 2 * SEC
    target = [(lo, hi)] if wide else ep
    if hist == "restrict":
        sup = None if sp["restrict_default"] else make_ep(nap, [(lo, hi)], sp["eform"], sp["emeta"])
    else:
        sup = make_ep(nap, target, sp["eform"], sp["emeta"])
    a = np.array(ucols, dtype=float).T.reshape((T,) + dshape) if dshape else np.array(ucols[0], dtype=float)
    a = a.astype(dt)
    nc = len(cols)
    labels = label_list(sp["labels"], nc)
    big_labels = None
    if hist == "colpick":
        if kind == "TsdTensor":
            a = np.ascontiguousarray(a[:, ::-1])
        else:
            big = np.full((T, nc + 2), junk, dtype=a.dtype)
            big[:, sp["pick"]] = a.reshape(T, nc)
            a = big
            big_labels = label_list(sp["labels"], nc + 2) or list(range(nc + 2))
            labels = [big_labels[p] for p in sp["pick"]]
    a = data_form(a, sp["dform"])
    t_arg, kw = make_t(nap, uts, sp["tform"])
    kw = dict(kw)
    if sup is not None:
        kw["time_support"] = sup
    frame = kind == "TsdFrame" or (hist == "colpick" and kind == "Tsd")
    if frame:
        ncol = (nc + 2) if hist == "colpick" else nc
        cl = big_labels if hist == "colpick" else labels
        if cl is not None and sp["labels"] != "default":
            kw["columns"] = cl
        if sp["fmeta"]:
            kw["metadata"] = {"m": list(range(ncol))}
    cls = nap.TsdFrame if frame else {"Tsd": nap.Tsd, "TsdTensor": nap.TsdTensor}[kind]
    if sp["tform"] == "pandas" and cls is not nap.TsdTensor:
        import pandas as pd
        cols_kw = kw.pop("columns", None)
        pobj = pd.DataFrame(np.asarray(a), index=G.arr(uts), columns=cols_kw) if frame else pd.Series(np.asarray(a), index=G.arr(uts))
        x = cls(t=pobj, **kw) if sp["ctor_kw"] else cls(pobj, **kw)
    else:
        x = cls(t=t_arg, d=a, **kw) if sp["ctor_kw"] else cls(t_arg, a, **kw)
    if hist == "restrict":
        x = x.restrict(make_ep(nap, target, sp["eform"], sp["emeta"]))
        if not wide:
            uts, ucols = list(ts), cols
            T = len(uts)
    elif hist == "getitem":
        g = sp["getitem"]
        x = x[:] if g == "full_slice" else x[0:T] if g == "range_slice" else x[np.arange(T)] if g == "arange" else x[np.ones(T, dtype=bool)]
    elif hist == "arith":
        x = (x * 1) if sp["arith"] == "mul1" else (x + 0)
    elif hist == "npfunc":
        x = np.logical_not(np.logical_not(x)) if x.dtype == np.bool_ else np.negative(np.negative(x))
    elif hist == "saveload":
        import os
        import tempfile
        d_ = tempfile.mkdtemp(prefix="c18_", dir=os.path.join(C.CACHE))
        f_ = os.path.join(d_, "x.npz")
        try:
            x.save(f_)
            x = nap.load_file(f_)
        finally:
            if os.path.exists(f_):
                os.remove(f_)
            os.rmdir(d_)
    elif hist == "colpick":
        if kind == "Tsd":
            x = x[:, sp["pick"][0]] if sp["pick_style"] == "pos" else x.loc[big_labels[sp["pick"][0]]]
            labels = None
        elif kind == "TsdFrame":
            x = x[:, list(sp["pick"])] if sp["pick_style"] == "pos" else x.loc[[big_labels[p] for p in sp["pick"]]]
        else:
            x = x[:, ::-1]
    if kind == "TsdFrame" and labels is None:
        labels = list(range(nc))
    return x, (labels if kind == "TsdFrame" else None), uts, ucols


def same(a, b):
    """exact equality of two real arrays, NaN matching NaN (infinities by sign)"""
    a, b = np.asarray(a, dtype=float), np.asarray(b, dtype=float)
    return a.shape == b.shape and bool(np.array_equal(a, b, equal_nan=True))


def holds(x, kind, uts, ucols, sup, labels, dshape):
    """harness precondition: the object handed to the operation is the intended input"""
    T = len(uts)
    try:
        return (type(x).__name__ == kind and [C.to_ns(t) for t in x.t] == list(uts) and support_of(x) == list(sup)
                and tuple(x.shape) == (T,) + tuple(dshape)
                and same(np.asarray(x.values, dtype=float).reshape(T, len(ucols)), np.array(ucols, dtype=float).T.reshape(T, len(ucols)))
                and (labels is None or list(x.columns) == list(labels)))
    except Exception:
        return False


def rand_case_w(rng, unit, off, emax=5):
    """rand_case on the lattice `unit`; interval ends lie `off` ticks off a sample (off=0: samples exactly on the interval ends)"""
    m = rng.randint(1, emax)
    ts, ep, t = [], [], rng.randrange(0, 50) * unit
    for _ in range(m):
        ln = rng.choice([1, 1, 2, 3, 4, 6, 9, 14])
        s = t
        inside = []
        for j in range(ln):
            inside.append(t)
            if rng.random() >= 0.15 or j == ln - 1:
                t += rng.choice([1, 1, 2, 3]) * unit
        e = inside[-1] + rng.choice([0, 0, off])
        if e <= s:
            e = s + (off or unit)
        if rng.random() < 0.3:
            s -= off
        ts += inside
        ep.append((s, e))
        t = max(t, e) + rng.choice([unit, 2 * unit, 10 * unit])
    return ts, ep


def place(rng, ts, ep, unit, int_forms):
    """time placement: at the origin, all negative, straddling 0 (one sample exactly at 0), or 1e5 s away"""
    placement = rng.choice(["zero", "zero", "negative", "straddle", "large"])
    unsigned = int_forms and placement in ("zero", "large") and rng.random() < 0.6
    shift = {"zero": 0, "negative": -(ep[-1][1] // unit + 3) * unit, "straddle": -ts[len(ts) // 2], "large": 10 ** 14}[placement]
    if unsigned:
        shift += 4 * SEC
    return placement, unsigned, [t + shift for t in ts], [(s + shift, e + shift) for s, e in ep]


def outside(rng, ts, ep, unit):
    """lattice ticks strictly outside every interval: one before, one after, some inside the gaps"""
    ex = [min(ep[0][0], ts[0]) - unit, (ep[-1][1] // unit + 2) * unit]
    for (_, e0), (s1, _) in zip(ep, ep[1:]):
        g = (e0 // unit + 1) * unit
        if e0 < g < s1 and rng.random() < 0.6:
            ex.append(g)
    return sorted(ex)


def settle_forms(sp, ts, ep, extras):
    """forms that cannot carry this case's instants exactly fall back to the common form (so that the evidence counts what was really run)"""
    ticks = list(ts) + list(extras) + [v for se in ep for v in se]
    ticks += [min(ticks) - 2 * SEC, max(ticks) + 2 * SEC]
    a = G.arr(ticks)
    if sp["tform"] == "f32" and not np.array_equal(a.astype(np.float32).astype(float), a):
        sp["tform"] = "ndarray"
    if sp["dform"] == "list" and sp["dtype"] not in ("float64", "int64", "bool"):
        sp["dform"] = "ndarray"
    if sp["dform"] == "fortran" and not sp["dshape"]:
        sp["dform"] = "noncontig"
    if sp["kind"] == "TsdFrame" and sp["dshape"] == [1] and sp["hist"] == "colpick":
        sp["pick_style"] = "pos"       # frame.loc[[one label]] gives a Tsd (indexing, not this property's business)


def gen_fc(rng, c):
    """one widened convolve case, as plain data"""
    family = "seconds" if rng.random() < 0.3 else "dyadic"
    unit = SEC if family == "seconds" else U
    int_forms = family == "seconds" and rng.random() < 0.7
    off = 0 if (int_forms or rng.random() < 0.3) else unit // 5
    ts, ep = rand_case_w(rng, unit, off)
    placement, unsigned, ts, ep = place(rng, ts, ep, unit, int_forms)
    sp = pick_spec(rng, int_forms, unsigned)
    extras = outside(rng, ts, ep, unit)
    settle_forms(sp, ts, ep, extras)
    dt = sp["dtype"]
    nc = int(np.prod(sp["dshape"])) if sp["dshape"] else 1
    T = len(ts)
    lo, hi = val_range(dt)
    data = [[rng.randint(lo, hi) for _ in ts] for _ in range(nc)]
    data2 = [[rng.randint(lo, hi) for _ in ts] for _ in range(nc)]
    special = dt in ("float64", "float32") and rng.random() < 0.25
    if special:
        for _ in range(rng.randint(1, 3)):
            data[rng.randrange(nc)][rng.randrange(T)] = rng.choice([float("nan"), float("inf"), float("-inf")])
    if rng.random() < 0.05:
        v = rng.randint(lo, hi)
        data = [[v for _ in ts] for _ in range(nc)]          # all-equal data (zeros when v == 0)
        special = False
    klen = rng.choice([1, 2, 3, 4, 5, 6, 7, 9])
    kcols = rng.choice([0, 0, 1, 2, 3])
    kform = pick(rng, "f64", KFORMS, 0.6)
    if sp["kind"] == "Tsd" and not kcols and rng.random() < 0.15:
        kform = "view_of_data"
    if kform == "fortran" and not kcols:
        kform = "noncontig"
    if kform == "halves" and special:
        kform = "f64"
    if kform == "view_of_data" and (sp["kind"] != "Tsd" or kcols or special or T < klen or not safe_pair(dt, dt, 50 * 9 * klen)
                                    or sp["hist"] in ("restrict", "colpick") or sp["dform"] == "list"):
        kform = "f64"
    klo, khi = (0, 5) if kform == "u8" else (0, 1) if kform == "bool" else (-5, 5)
    kern = [[rng.randint(klo, khi) for _ in range(klen)] for _ in range(max(kcols, 1))]
    if kform == "view_of_data":
        kern = [list(data[0][:klen])]
    if kform in KDTYPE and not safe_pair(dt, KDTYPE[kform], 72 * max(sum(abs(v) for v in k) for k in kern)):
        kform = rng.choice(["i64", "f64"])
    route = rng.choice(["support_omit", "support_omit", "support_None_kw", "support_None_pos", "ep_kw", "ep_pos", "ep_kw"])
    r_ = rng.random()
    if r_ < 0.03:
        route = "ep_empty"
    elif r_ < 0.06:
        route = "ep_miss"
    if kform == "view_of_data" and route.startswith("ep_"):
        route = "support_omit"
    trim = rng.choice(TRIMS)
    positional_ep = route in ("support_None_pos", "ep_pos")
    tstyle = rng.choice(["kw", "pos"] if positional_ep else ["kw"]) if (trim != "both" or rng.random() < 0.5) else "omit"
    astyle = "pos" if positional_ep else rng.choice(["pos", "kw"])
    sgn = dt_class(dt) in ("uint", "bool")
    cs = {"part": "forms_convolve", "index": c, "family": family, "placement": placement, "ts": ts, "ep": ep, "extras": extras, "spec": sp,
          "data": data, "data2": data2, "special": special, "kernel": kern, "kcols": kcols, "kform": kform, "route": route, "trim": trim,
          "tstyle": tstyle, "astyle": astyle, "trim_variant": rng.choice(["upper", "title"]) if rng.random() < 0.08 else None,
          "ep_arg_form": pick(rng, "arrays", EFORMS + (tuple(f for f in EFORMS_INT if unsigned or not f.startswith("u")) if int_forms else ())),
          "ep_arg_meta": rng.random() < 0.4, "a": rng.randint(0 if sgn else -4, 4), "b": rng.randint(0 if sgn else -4, 4), "rseed": rng.randrange(2 ** 30)}
    line = None
    if not special:
        line = "frame\t%d\t%s\t%s\t%d %d\t%s\t%s" % (MODE[trim], C.fmt_ints(ts), C.fmt_iset(ep), nc, len(kern),
                                                     "\t".join(C.fmt_ints(d) for d in data), "\t".join(C.fmt_ints(k) for k in kern))
    return cs, line


def make_kernel(kform, kern, kcols, x):
    base = np.array(kern, dtype=float).T if kcols else np.array(kern[0], dtype=float)
    if kform in KDTYPE:
        return base.astype(KDTYPE[kform])
    if kform == "halves":
        return base * 0.5
    if kform == "list":
        return base.tolist()
    if kform == "tuple":
        return tuple(base.tolist())
    if kform == "noncontig":
        big = np.full((2 * base.shape[0],) + base.shape[1:], 99.0)
        big[::2] = base
        return big[::2]
    if kform == "negstride":
        return np.ascontiguousarray(base[::-1])[::-1]
    if kform == "fortran":
        return np.asfortranarray(base)
    if kform == "view_of_data":
        return x.values[:len(kern[0])]        # shares memory with the signal it is convolved with
    raise ValueError(kform)


def conv_call(xo, karr, route, epo2, trimarg, tstyle, astyle):
    args, kw = [], {}
    if astyle == "kw":
        kw["array"] = karr
    else:
        args.append(karr)
    if route == "support_None_kw":
        kw["ep"] = None
    elif route == "support_None_pos":
        args.append(None)
    elif route == "ep_pos":
        args.append(epo2)
    elif route in ("ep_kw", "ep_empty", "ep_miss"):
        kw["ep"] = epo2
    if tstyle == "kw":
        kw["trim"] = trimarg
    elif tstyle == "pos":
        args.append(trimarg)
    return xo.convolve(*args, **kw)


def check_fc(res, nap, cs, mline):
    rng = random.Random(cs["rseed"])
    ts, ep, sp = list(cs["ts"]), [tuple(e) for e in cs["ep"]], cs["spec"]
    kind, dshape, dt = sp["kind"], tuple(sp["dshape"]), sp["dtype"]
    data, data2, kern, kcols, trim, route = cs["data"], cs["data2"], cs["kernel"], cs["kcols"], cs["trim"], cs["route"]
    special, kform, extras = cs["special"], cs["kform"], cs["extras"]
    nc, nk, T, klen = len(data), len(kern), len(ts), len(kern[0])
    wide = route.startswith("ep_")
    rows = epoch_rows(ts, ep)
    short = any(0 < len(r) < klen for r in rows)
    res.case(("forms_convolve", cs["index"], tuple(ts), tuple(ep), kind, kcols, klen, trim), nontrivial=len(ep) > 1)
    res.count("forms_convolve_cases")
    for nm in ("family", "placement", "kform", "route", "tstyle", "astyle"):
        res.count("fc_%s_%s" % (nm, cs[nm]))
    for nm in ("dtype", "dform", "tform", "eform", "hist"):
        res.count("fc_%s_%s" % (nm, sp[nm]))
    res.count("fc_kind_" + kind)
    if kind == "TsdFrame":
        res.count("fc_labels_" + sp["labels"])
    if special:
        res.count("fc_data_with_nan_or_inf")
    if len(set(v for d in data for v in d if v == v)) <= 1 and not special:
        res.count("fc_all_equal_data")
    if any(t in (s, e) for t in ts for s, e in ep):
        res.count("fc_sample_on_interval_end")
    if wide and cs["ep_arg_meta"]:
        res.count("fc_ep_argument_with_metadata")
    if wide:
        res.count("fc_ep_arg_form_" + cs["ep_arg_form"])
    inp = {"case": cs}
    kk = {"op": "convolve", "kind": kind, "kernel_2d": bool(kcols), "widened": True, "data_dtype": dt, "kernel_form": kform, "route": route,
          "hist": sp["hist"], "tform": sp["tform"], "eform": sp["eform"], "special_values": bool(special)}

    def build(cols, spec=sp):
        return realise(nap, spec, ts, cols, ep, extras, wide)

    try:
        x, xlabels, uts, ucols = build(data)
        sup_in = [(min(uts + [s for s, _ in ep]) - 2 * SEC, max(uts + [e for _, e in ep]) + 2 * SEC)] if wide else list(ep)
        if not holds(x, kind, uts, ucols, sup_in, xlabels, dshape):
            res.disagreements.append({"op": "build (harness precondition: the constructed input is not the intended one)", "input": inp,
                                      "impl": [[C.to_ns(t) for t in x.t], support_of(x), np.asarray(x.values, dtype=float).tolist()]})
            return
    except Exception as ex:
        res.disagreements.append({"op": "build (harness precondition: constructing the input raised)", "input": inp, "impl": "%s: %s" % (type(ex).__name__, str(ex)[:120])})
        return
    if route == "ep_empty":
        epo2 = make_ep(nap, [], cs["ep_arg_form"])
    elif route == "ep_miss":
        far = max(uts + [e for _, e in ep]) + 40 * SEC
        epo2 = make_ep(nap, [(far, far + SEC)], cs["ep_arg_form"], cs["ep_arg_meta"])
    else:
        epo2 = make_ep(nap, ep, cs["ep_arg_form"], cs["ep_arg_meta"]) if wide else None
    karr = make_kernel(kform, kern, kcols, x)
    half = kform == "halves"
    variant = cs["trim_variant"]
    trimarg = trim if (variant is None or cs["tstyle"] == "omit") else (trim.upper() if variant == "upper" else trim.title())

    def call(xo, k_=None, t_=None):
        return conv_call(xo, karr if k_ is None else k_, route, epo2, trimarg if t_ is None else t_, cs["tstyle"], cs["astyle"])

    # forms the documented signature does not promise to accept (a trim in another letter case, a list / tuple kernel): the call either raises a
    # clean Python exception (then the accepted form is used for the rest of the case) or it must satisfy the statement like any other call
    if trimarg != trim:
        try:
            call(x)
            res.count("fc_trim_other_case_accepted")
        except Exception:
            res.count("fc_trim_other_case_rejected")
            trimarg = trim
    if kform in OPTIONAL_KFORMS:
        try:
            call(x)
            res.count("fc_kernel_%s_accepted" % kform)
        except Exception:
            res.count("fc_kernel_%s_rejected" % kform)
            karr = np.array(kern, dtype=float).T if kcols else np.array(kern[0], dtype=float)
    kk["integer_kernel"] = bool(getattr(karr, "dtype", np.dtype(float)).kind in "iu")
    try:
        r = call(x)
    except Exception as ex:
        res.violations.append({"key": dict(kk, part="exception", exception=type(ex).__name__, nonfinite_data=bool(special)),
                               "what": "convolve raised %s: %s" % (type(ex).__name__, str(ex)[:80]), "input": inp})
        return
    if route in ("ep_empty", "ep_miss"):
        # no sample at all inside ep: the restricted input holds no timestamp and (pynapple invariant) an empty support
        res.count("fc_no_sample_inside_ep")
        eshape0 = (0,) + dshape + ((nk,) if kcols else ())
        if len(r.t) != 0 or support_of(r) != [] or tuple(r.shape) != eshape0:
            res.violations.append({"key": dict(kk, part="time_axis", no_sample=True), "what": "convolve on an ep holding no sample did not return the empty series", "input": inp,
                                   "impl": [list(r.shape), support_of(r)], "expected": [list(eshape0), []]})
        return
    fl = float if special else int
    exp = [[[fl(v) for v in oracle_convolve(ts, data[i], ep, kern[j], trim)] for j in range(nk)] for i in range(nc)]
    alt = exp
    if trim == "both" and klen % 2 == 0:
        alt = [[[fl(v) for v in oracle_convolve(ts, data[i], ep, kern[j], trim, ceil_split=True)] for j in range(nk)] for i in range(nc)]
    eshape = (T,) + dshape + ((nk,) if kcols else ())
    etype = {1: "Tsd", 2: "TsdFrame"}.get(len(eshape), "TsdTensor")
    if [C.to_ns(t) for t in r.t] != ts or support_of(r) != list(ep):
        res.violations.append({"key": dict(kk, part="time_axis"), "what": "convolve changed the timestamps / time support", "input": inp,
                               "impl": [[C.to_ns(t) for t in r.t], support_of(r)], "expected": [ts, list(ep)]})
        return
    if tuple(r.shape) != eshape or type(r).__name__ != etype:
        res.violations.append({"key": dict(kk, part="shape"), "what": "output shape/type is not input shape (+ kernel columns)", "input": inp,
                               "impl": [type(r).__name__, list(r.shape)], "expected": [etype, list(eshape)]})
        return
    if kind == "TsdFrame" and not kcols and (list(r.columns) != list(xlabels) or list(r.columns) != list(x.columns)):
        res.violations.append({"key": dict(kk, part="columns", labels=sp["labels"]), "what": "1-D kernel: column labels not kept", "input": inp,
                               "impl": list(map(str, r.columns)), "expected": list(map(str, xlabels))})

    def columns_of(vals):
        g3 = np.asarray(vals, dtype=float).reshape(T, nc, nk) * (2 if half else 1)
        return [[g3[:, i, j].tolist() for j in range(nk)] for i in range(nc)]

    got = columns_of(r.values)
    if not same(got, exp) and not same(got, alt):
        res.violations.append({"key": dict(kk, part="values", trim=trim, k_even=klen % 2 == 0, short_epoch=bool(short)),
                               "what": "entry (column i, kernel column j) is not column i convolved per epoch with kernel column j, trimmed on the requested side",
                               "input": inp, "impl": got, "expected": exp})
    if mline is not None:
        m = parse(mline)
        mm = [[[float(v) for v in m[i * nk + j]] for j in range(nk)] for i in range(nc)]
        if not same(mm, got):
            res.disagreements.append({"op": "convolve_frame (widened forms)", "input": inp, "impl": got, "model": mm})
    # the same live objects (signal, kernel, ep) used a second time
    try:
        r2 = call(x)
        if not same(r2.values, r.values) or [C.to_ns(t) for t in r2.t] != ts or support_of(r2) != list(ep):
            res.violations.append({"key": dict(kk, part="values", second_call=True), "what": "a second identical call on the same live objects gives another result", "input": inp})
    except Exception as ex:
        res.violations.append({"key": dict(kk, part="exception", second_call=True, exception=type(ex).__name__), "what": "second identical call raised " + type(ex).__name__, "input": inp})
    if special:
        res.count("fc_independence_checks_with_nan_inf")
    # linearity (exact: integers); the combination is stored in the signal's dtype when it fits, in float64 otherwise
    a, b = cs["a"], cs["b"]
    if not special:
        comb = [[a * u + b * v for u, v in zip(d1, d2)] for d1, d2 in zip(data, data2)]
        spc = sp if (fits(comb, dt) and rng.random() < 0.7) else dict(sp, dtype="float64")
        if spc is not sp:
            res.count("fc_linearity_combination_in_float64")
        try:
            k2 = karr if kform != "view_of_data" else np.array(kern[0], dtype=float)     # the kernel is held fixed (a view of x's data would follow the signal)
            r0 = r if kform != "view_of_data" else call(x, k2)
            ry = call(build(data2)[0], k2)
            rz = call(build(comb, spc)[0], k2)
            if not same(np.asarray(rz.values, dtype=float), a * np.asarray(r0.values, dtype=float) + b * np.asarray(ry.values, dtype=float)):
                res.violations.append({"key": dict(kk, part="linearity"), "what": "convolve(a*x + b*y) != a*convolve(x) + b*convolve(y)", "input": dict(inp, a=a, b=b)})
        except Exception as ex:
            res.violations.append({"key": dict(kk, part="exception", linearity=True, exception=type(ex).__name__),
                                   "what": "convolve raised %s: %s" % (type(ex).__name__, str(ex)[:80]), "input": inp})
    # independence: every OTHER epoch overwritten (for float data also by NaN / +-inf), epoch q's output must not move
    if len(ep) > 1 and kform != "view_of_data":
        q = rng.randrange(len(ep))
        blo, bhi = val_range(dt, big=True)
        data3 = [[d[i] if i in rows[q] else rng.randint(blo, bhi) for i in range(T)] for d in data]
        nonfin3 = special
        if dt in ("float64", "float32") and rng.random() < 0.5:
            others = [i for i in range(T) if i not in rows[q]]
            for _ in range(rng.randint(1, 3)):
                if others:
                    data3[rng.randrange(nc)][rng.choice(others)] = rng.choice([float("nan"), float("inf"), float("-inf")])
                    nonfin3 = True
            res.count("fc_independence_other_epochs_nan_inf")
        try:
            r3 = call(build(data3)[0])
            if not same(np.asarray(r3.values, dtype=float)[rows[q]], np.asarray(r.values, dtype=float)[rows[q]]):
                res.violations.append({"key": dict(kk, part="independence"), "what": "output inside an epoch changed when only data of OTHER epochs changed",
                                       "input": dict(inp, epoch=q, data_changed=data3)})
        except Exception as ex:
            res.violations.append({"key": dict(kk, part="exception", independence=True, exception=type(ex).__name__, nonfinite_data=bool(nonfin3)),
                                   "what": "convolve raised %s: %s" % (type(ex).__name__, str(ex)[:80]), "input": dict(inp, data_changed=data3)})
        res.count("fc_independence_checks")


def part_forms_convolve(res, nap, tier, seed, only=None):
    """part 6: convolve on every argument form (see res.rule); one private rng per case so that a case replays on its own"""
    N = 900 if tier == "quick" else 9000
    cases, lines = [], []
    for c in (range(N) if only is None else [only]):
        cs, line = gen_fc(random.Random((seed * 11 + 9) * 1000003 + c), c)
        cases.append((cs, line))
        if line is not None:
            lines.append(line)
    out = iter(C.run_model(lines, driver="driver_c18")) if lines else iter(())
    for cs, line in cases:
        check_fc(res, nap, cs, next(out) if line is not None else None)
        if cs["index"] % 301 == 0 and not cs["special"]:
            res.sample({"forms_convolve": {k: cs[k] for k in ("family", "placement", "kform", "route", "trim", "tstyle")}, "spec": cs["spec"], "epochs": len(cs["ep"])})


def regular_case_w(rng, min_len, step, off, emax=3):
    """regular_case on the lattice `step`; interval ends `off` ticks off the first / last sample (0: exactly on them)"""
    m = rng.randint(1, emax)
    ts, ep, t = [], [], rng.randrange(1, 20) * step
    for _ in range(m):
        ln = min_len + rng.choice([0, 1, 2, 5, 9, 17])
        inside = [t + j * step for j in range(ln)]
        ts += inside
        ep.append((inside[0] - off, inside[-1] + off))
        t = inside[-1] + rng.choice([2, 3, 11]) * step
    return ts, ep


def typed(v, form):
    """a scalar argument in the requested form"""
    if form == "int":
        return int(round(v))
    if form == "np.float64":
        return np.float64(v)
    if form == "np.float32":
        return np.float32(v)
    if form == "np.int64":
        return np.int64(int(round(v)))
    if form == "0d":
        return np.array(float(v))
    return float(v)


INT_FORMS = ("int", "np.int64", "tuple_int", "tuple_mixed")
UNIT_DIV = {"s": 1e9, "ms": 1e6, "us": 1e3}


def gen_ff(rng, c):
    """one widened smooth / windowed-sinc / Butterworth case, as plain data"""
    family = "seconds" if rng.random() < 0.3 else "dyadic"
    step = SEC if family == "seconds" else 2 * U
    int_forms = family == "seconds" and rng.random() < 0.7
    off = 0 if (int_forms or rng.random() < 0.3) else (U // 5 if family == "dyadic" else 2 * 10 ** 8)
    ts, ep = regular_case_w(rng, 30, step, off)
    placement, unsigned, ts, ep = place(rng, ts, ep, step, int_forms)
    sp = pick_spec(rng, int_forms, unsigned, frame_cols=(2, 3))
    extras = outside(rng, ts, ep, step)
    settle_forms(sp, ts, ep, extras)
    dt = sp["dtype"]
    nc = int(np.prod(sp["dshape"])) if sp["dshape"] else 1
    lo, hi = val_range(dt)
    data = [[rng.randint(lo, hi) for _ in ts] for _ in range(nc)]
    d2 = [[rng.randint(lo, hi) for _ in ts] for _ in range(nc)]
    if rng.random() < 0.05:
        v = rng.randint(lo, hi)
        data = [[v for _ in ts] for _ in range(nc)]
    pos = dt_class(dt) in ("uint", "bool")
    # ---- smooth
    unit = rng.choice(["s", "s", "ms", "us"])
    std_form = pick(rng, "float", ("int", "np.float64", "np.float32", "np.int64", "0d"), 0.5)
    if std_form in ("int", "np.int64"):
        unit = "us"                       # the only unit in which the value is a whole number
    sm = {"std_ticks": int(rng.choice([1, 2, 3]) * step * 1.0001) // 1000 * 1000, "unit": unit, "std_form": std_form,
          "ws_mode": rng.choice(["omit", "None", "value", "value"]), "ws_ticks": int(rng.choice([5, 8]) * step * 1.0001) // 1000 * 1000,
          "ws_form": pick(rng, "float", ("int", "np.float64", "np.float32", "np.int64"), 0.5),
          "sf": rng.choice(["omit", 3, 4]), "norm": rng.choice(["omit", True, False]), "style": rng.choice(["kw", "pos", "mixed"])}
    if sm["ws_form"] in ("int", "np.int64") and sm["ws_mode"] == "value" and unit != "us":
        sm["ws_form"] = "float"
    # ---- the filters: one shared set of argument forms for the four windowed-sinc calls, one per Butterworth call
    def filt_forms(mode):
        intable = family == "dyadic"
        cf = pick(rng, "float", ("int", "np.float64", "np.float32", "np.int64") if intable else ("np.float64", "np.float32"), 0.5)
        bf = pick(rng, "tuple", ("list", "ndarray", "tuple_int", "tuple_mixed") if intable else ("list", "ndarray"), 0.5)
        cfg = {"cut_form": cf, "band_form": bf, "fs_form": pick(rng, "float", ("int", "np.float64", "np.int64", "None", "omit"), 0.5),
               "style": rng.choice(["kw", "kw", "pos", "mixed"]), "mode_variant": rng.choice(["upper", "title"]) if rng.random() < 0.08 else None}
        if mode == "sinc":
            cfg.update(mode="sinc", order=rng.choice(["omit", "omit", 2, 4]), order_form="int",
                       tb=rng.choice(["omit", 0.5, 0.4, 0.25, 0.1]), tb_form=pick(rng, "float", ("np.float64", "np.float32"), 0.3))
        else:
            cfg.update(mode=rng.choice(["omit", "butter"]), order=rng.choice(["omit", 1, 2, 3, 4]), order_form=pick(rng, "int", ("np.int64", "float"), 0.12),
                       tb=rng.choice(["omit", "omit", 0.3]), tb_form="float")
        if cfg["mode"] == "omit":
            cfg["mode_variant"] = None
        return cfg
    fs = 1e9 / step
    sinc = filt_forms("sinc")
    f1 = rng.choice([0.08, 0.15, 0.22]) * fs
    f2 = f1 + rng.choice([0.1, 0.2]) * fs
    if sinc["cut_form"] in INT_FORMS or sinc["band_form"] in INT_FORMS:
        f1, f2 = float(round(f1)), float(round(f2))
    sinc["cut"] = [f1, f2]
    butter = []
    for ftype in rng.sample(["lowpass", "highpass", "bandpass", "bandstop"], 2):
        cfg = filt_forms("butter")
        g1 = rng.choice([0.06, 0.1, 0.2, 0.3]) * fs
        g2 = g1 + rng.choice([0.05, 0.1, 0.14]) * fs
        if cfg["cut_form"] in INT_FORMS or cfg["band_form"] in INT_FORMS:
            g1, g2 = float(round(g1)), float(round(g2))
        cfg.update(ftype=ftype, cut=[g1, g2])
        butter.append(cfg)
    return {"part": "forms_filters", "index": c, "family": family, "placement": placement, "step": step, "ts": ts, "ep": ep, "extras": extras, "spec": sp,
            "data": data, "data2": d2, "a": rng.randint(0 if pos else -3, 3), "b": rng.randint(0 if pos else -3, 3), "smooth": sm, "sinc": sinc, "butter": butter,
            "others": rng.choice(["finite", "finite", "inf", "nan"]) if dt in ("float64", "float32") else "finite", "rseed": rng.randrange(2 ** 30)}


def smooth_args(sm, canonical=False):
    """(args, kwargs, effective std / windowsize in seconds, size_factor, norm) of the smooth call `sm` describes"""
    div = UNIT_DIV[sm["unit"]]
    stdv = typed(sm["std_ticks"] / div, "float" if canonical else sm["std_form"])
    wsv = typed(sm["ws_ticks"] / div, "float" if canonical else sm["ws_form"]) if sm["ws_mode"] == "value" else None
    sf = 100 if sm["sf"] == "omit" else sm["sf"]
    norm = True if sm["norm"] == "omit" else sm["norm"]
    if sm["style"] == "pos":
        return [stdv, wsv, sm["unit"], sf, norm], {}, stdv, wsv, sf, norm
    kw = {}
    if sm["ws_mode"] != "omit":
        kw["windowsize"] = wsv
    if sm["unit"] != "s":
        kw["time_units"] = sm["unit"]
    if sm["sf"] != "omit":
        kw["size_factor"] = sf
    if sm["norm"] != "omit":
        kw["norm"] = norm
    if sm["style"] == "mixed":
        return [stdv], kw, stdv, wsv, sf, norm
    return [], dict(kw, std=stdv), stdv, wsv, sf, norm


def make_cut(cfg, band):
    f1, f2 = cfg["cut"]
    if not band:
        return typed(f1, cfg["cut_form"])
    bf = cfg["band_form"]
    if bf == "list":
        return [float(f1), float(f2)]
    if bf == "ndarray":
        return np.array([f1, f2], dtype=float)
    if bf == "tuple_int":
        return (int(f1), int(f2))
    if bf == "tuple_mixed":
        return (int(f1), np.float32(f2))
    return (float(f1), float(f2))


def filter_call(nap, cfg, ftype, cut, fs, canonical=False):
    """-> (callable on a signal, effective fs or None, effective order, effective transition bandwidth)"""
    fun = getattr(nap, "apply_%s_filter" % ftype)
    ff = cfg["fs_form"]
    fsv = None if ff in ("None", "omit") else typed(fs, ff)
    mode = cfg["mode"]
    mstr = mode
    if mode != "omit" and cfg["mode_variant"] and not canonical:
        mstr = mode.upper() if cfg["mode_variant"] == "upper" else mode.title()
    order = 4 if cfg["order"] == "omit" else typed(cfg["order"], "int" if canonical else cfg["order_form"])
    tb = 0.02 if cfg["tb"] == "omit" else typed(cfg["tb"], "float" if canonical else cfg["tb_form"])
    if cfg["style"] == "pos":
        return (lambda xo: fun(xo, cut, fsv, "butter" if mode == "omit" else mstr, order, tb)), fsv, order, tb
    kw = {}
    if ff != "omit":
        kw["fs"] = fsv
    if mode != "omit":
        kw["mode"] = mstr
    if cfg["order"] != "omit":
        kw["order"] = order
    if cfg["tb"] != "omit":
        kw["transition_bandwidth"] = tb
    if cfg["style"] == "mixed":
        return (lambda xo: fun(xo, cut, **kw)), fsv, order, tb
    return (lambda xo: fun(data=xo, cutoff=cut, **kw)), fsv, order, tb


def optional_forms(cfg):
    """argument forms the documented signature does not promise to accept: the call raises a clean Python exception or satisfies the statement"""
    return bool(cfg["mode_variant"]) or (cfg["order"] != "omit" and cfg["order_form"] != "int") or (cfg["tb"] != "omit" and cfg["tb_form"] == "np.float32")


def check_ff(res, nap, cs):
    from scipy import signal
    from scipy.signal import butter as sp_butter, sosfiltfilt
    rng = random.Random(cs["rseed"])
    ts, ep, sp, step = list(cs["ts"]), [tuple(e) for e in cs["ep"]], cs["spec"], cs["step"]
    kind, dshape, dt = sp["kind"], tuple(sp["dshape"]), sp["dtype"]
    data, d2, a, b, extras = cs["data"], cs["data2"], cs["a"], cs["b"], cs["extras"]
    nc, T = len(data), len(ts)
    fs = 1e9 / step
    rows = epoch_rows(ts, ep)
    res.case(("forms_filters", cs["index"], kind, dt, len(ep)), nontrivial=len(ep) > 1)
    res.count("forms_filters_cases")
    for nm in ("family", "placement", "others"):
        res.count("ff_%s_%s" % (nm, cs[nm]))
    for nm in ("dtype", "dform", "tform", "eform", "hist"):
        res.count("ff_%s_%s" % (nm, sp[nm]))
    res.count("ff_kind_" + kind)
    if kind == "TsdFrame":
        res.count("ff_labels_" + sp["labels"])
    if any(t in (s, e) for t in ts for s, e in ep):
        res.count("ff_sample_on_interval_end")
    inp = {"case": cs}
    comb = [[a * u + b * v for u, v in zip(p, q_)] for p, q_ in zip(data, d2)]
    spc = sp if (fits(comb, dt) and rng.random() < 0.6) else dict(sp, dtype="float64")
    q = rng.randrange(len(ep))
    d3 = None
    if len(ep) > 1:
        blo, bhi = val_range(dt, big=True)
        d3 = [[d[i] if i in rows[q] else rng.randint(blo, bhi) for i in range(T)] for d in data]
        if cs["others"] != "finite":
            others = [i for i in range(T) if i not in rows[q]]
            v = float("nan") if cs["others"] == "nan" else rng.choice([float("inf"), float("-inf")])
            for _ in range(rng.randint(1, 2)):
                d3[rng.randrange(nc)][rng.choice(others)] = v
    try:
        built = [realise(nap, s_, ts, cols, ep, extras) for cols, s_ in ((data, sp), (d2, sp), (comb, spc))] + ([realise(nap, sp, ts, d3, ep, extras)] if d3 else [])
        for (o, lab, uts, ucols), kd in zip(built, [sp, sp, spc, sp]):
            if not holds(o, kind, uts, ucols, ep, lab, dshape):
                res.disagreements.append({"op": "build (harness precondition: the constructed input is not the intended one)", "input": inp,
                                          "impl": [[C.to_ns(t) for t in o.t][:6], support_of(o), type(o).__name__]})
                return
    except Exception as ex:
        res.disagreements.append({"op": "build (harness precondition: constructing the input raised)", "input": inp, "impl": "%s: %s" % (type(ex).__name__, str(ex)[:120])})
        return
    x, y, z = built[0][0], built[1][0], built[2][0]
    x3 = built[3][0] if d3 else None
    xlabels = built[0][1]
    eff = x.values.dtype.name
    integer_signal = bool(np.dtype(eff).kind in "iub")
    base_key = {"kind": kind, "widened": True, "data_dtype": eff, "integer_signal": integer_signal, "unsigned_signal": bool(np.dtype(eff).kind == "u"), "float32_signal": eff == "float32",
                "hist": sp["hist"], "tform": sp["tform"], "eform": sp["eform"]}
    scale = 9.0

    def fvals(o):
        return np.asarray(o.values, dtype=float)

    def common(kk, f, r, lin_scale, nan_may_raise):
        """time axis (timestamps, support, shape, type, labels), independence, linearity of one operation `f` whose output on x is r"""
        if not axis_ok(r, x, ts, ep) or (xlabels is not None and list(r.columns) != list(xlabels)):
            res.violations.append({"key": dict(kk, part="time_axis"), "what": "%s changed timestamps / support / shape / columns" % kk["op"], "input": inp})
            return False
        if x3 is not None:
            try:
                r3 = f(x3)
                if not same(fvals(r3)[rows[q]], fvals(r)[rows[q]]):
                    res.violations.append({"key": dict(kk, part="independence", other_epochs=cs["others"]),
                                           "what": "%s: an epoch's output changed with other epochs' data" % kk["op"], "input": dict(inp, epoch=q, data_changed=d3)})
            except Exception as ex:
                if cs["others"] == "nan" and nan_may_raise and isinstance(ex, ValueError):
                    res.count("ff_filter_refuses_nan")       # documented refusal (ValueError naming the NaN), not an output
                else:
                    res.violations.append({"key": dict(kk, part="exception", independence=True, other_epochs=cs["others"], exception=type(ex).__name__),
                                           "what": "%s raised %s: %s" % (kk["op"], type(ex).__name__, str(ex)[:80]), "input": dict(inp, data_changed=d3)})
        ry, rz = fvals(f(y)), fvals(f(z))
        rr = fvals(r)
        sc = lin_scale if lin_scale is not None else max(1.0, float(np.max(np.abs(rz))), float(np.max(np.abs(rr))) * abs(a), float(np.max(np.abs(ry))) * abs(b))
        if not close(rz, a * rr + b * ry, sc):
            res.violations.append({"key": dict(kk, part="linearity"), "what": "%s is not linear in the signal (beyond the declared tolerance)" % kk["op"],
                                   "input": dict(inp, a=a, b=b), "impl": float(np.max(np.abs(rz - a * rr - b * ry)))})
        return True

    # ------------------------------------------------------------ smooth
    sm = cs["smooth"]
    # std is chosen away from the places where int(rate * std) jumps (the statement says nothing about the window's length)
    while abs(x.rate * sm["std_ticks"] / 1e9 - round(x.rate * sm["std_ticks"] / 1e9)) < 1e-3:
        sm = dict(sm, std_ticks=sm["std_ticks"] + 20000)
    for nm in ("unit", "std_form", "ws_mode", "style"):
        res.count("ff_smooth_%s_%s" % (nm, sm[nm]))
    if sm["ws_mode"] == "value":
        res.count("ff_smooth_ws_form_" + sm["ws_form"])
    res.count("ff_smooth_size_factor_%s" % sm["sf"])
    res.count("ff_smooth_norm_%s" % sm["norm"])
    kk = dict(base_key, op="smooth", time_units=sm["unit"], style=sm["style"])
    optional = sm["std_form"] in ("np.float32", "np.int64", "0d")
    args, kw, stdv, wsv, sf, norm = smooth_args(sm)
    if optional:
        try:
            x.smooth(*args, **kw)
            res.count("ff_smooth_std_%s_accepted" % sm["std_form"])
        except Exception:
            res.count("ff_smooth_std_%s_rejected" % sm["std_form"])
            sm = dict(sm, std_form="float")
            args, kw, stdv, wsv, sf, norm = smooth_args(sm)

    def f_smooth(xo):
        return xo.smooth(*args, **kw)
    try:
        r = f_smooth(x)
        if common(kk, f_smooth, r, scale * 7 * (1 if norm else 10), False):
            div = UNIT_DIV[sm["unit"]]
            # the library rounds every time argument to the nanosecond: the forms that denote the same nanosecond are the same instants
            lossless = round(float(stdv) * div) == sm["std_ticks"] and (wsv is None or round(float(wsv) * div) == sm["ws_ticks"])
            if lossless:
                # the same instants given in seconds (plain floats, keywords): the same result
                ref = x.smooth(std=sm["std_ticks"] / 1e9, windowsize=(sm["ws_ticks"] / 1e9 if sm["ws_mode"] == "value" else None), time_units="s", size_factor=sf, norm=norm)
                if not same(fvals(ref), fvals(r)):
                    res.violations.append({"key": dict(kk, part="time_units"), "what": "smooth: the same std / windowsize given in another unit / form / call style gives another result",
                                           "input": inp, "impl": float(np.nanmax(np.abs(fvals(ref) - fvals(r))))})
                res.count("ff_smooth_same_instants_checks")
            # correspondence: the window the docstring promises (not part of the statement)
            w = gauss_window(x.rate, float(stdv) * div / 1e9, None if wsv is None else float(wsv) * div / 1e9, sf, norm)
            g = fvals(r).reshape(T, nc)
            for i in range(nc):
                e = np.zeros(T)
                for rw in rows:
                    fconv = signal.convolve(np.array([data[i][j] for j in rw], dtype=float), w)
                    cc = (len(w) - 1) // 2
                    e[rw] = fconv[cc:cc + len(rw)]
                if not close(g[:, i], e, scale * (1 if norm else 10)):
                    res.disagreements.append({"op": "smooth(window := documented gaussian), widened forms", "input": inp, "impl": g[:, i].tolist()[:40], "model": e.tolist()[:40]})
                    break
    except Exception as ex:
        res.violations.append({"key": dict(kk, part="exception", exception=type(ex).__name__), "what": "smooth raised %s: %s" % (type(ex).__name__, str(ex)[:80]), "input": inp})

    # ------------------------------------------------------------ windowed sinc, four types
    cfg = cs["sinc"]
    for nm in ("cut_form", "band_form", "fs_form", "style", "order", "tb", "tb_form"):
        res.count("ff_sinc_%s_%s" % (nm, cfg[nm]))
    kk = dict(base_key, op="sinc", style=cfg["style"], fs_form=cfg["fs_form"])
    canonical = False
    cut1, cut2 = make_cut(cfg, False), make_cut(cfg, True)       # ONE object per cutoff, passed to both complementary calls
    cuts = {"lowpass": cut1, "highpass": cut1, "bandpass": cut2, "bandstop": cut2}
    if optional_forms(cfg):
        try:
            filter_call(nap, cfg, "lowpass", cut1, fs)[0](x)
            res.count("ff_sinc_optional_form_accepted")
        except Exception:
            res.count("ff_sinc_optional_form_rejected")
            canonical = True
    try:
        outs = {}
        ok = True
        for ftype in ("lowpass", "highpass", "bandpass", "bandstop"):
            f, fsv, order, tb = filter_call(nap, cfg, ftype, cuts[ftype], fs, canonical)
            outs[ftype] = f(x)
            ok = common(dict(kk, filter=ftype), f, outs[ftype], scale * 7, True) and ok
        if ok:
            xv = fvals(x)
            if not close(fvals(outs["lowpass"]) + fvals(outs["highpass"]), xv, scale):
                res.violations.append({"key": dict(kk, part="lp_plus_hp"), "what": "windowed-sinc low-pass + high-pass outputs do not sum to the input", "input": inp,
                                       "impl": float(np.max(np.abs(fvals(outs["lowpass"]) + fvals(outs["highpass"]) - xv)))})
            if not close(fvals(outs["bandpass"]) + fvals(outs["bandstop"]), xv, scale):
                res.violations.append({"key": dict(kk, part="bp_plus_bs"), "what": "windowed-sinc band-pass + band-stop outputs do not sum to the input", "input": inp,
                                       "impl": float(np.max(np.abs(fvals(outs["bandpass"]) + fvals(outs["bandstop"]) - xv)))})
            # correspondence: low-pass == convolution with the documented blackman-windowed sinc (cutoff, fs, transition bandwidth as passed; fs=None: the series' rate)
            kl = sinc_lowpass(float(cut1), float(fsv) if fsv is not None else x.rate, float(tb))
            g = fvals(outs["lowpass"]).reshape(T, nc)
            for i in range(nc):
                e = np.zeros(T)
                for rw in rows:
                    fconv = signal.convolve(np.array([data[i][j] for j in rw], dtype=float), kl)
                    cc = (len(kl) - 1) // 2
                    e[rw] = fconv[cc:cc + len(rw)]
                if not close(g[:, i], e, scale):
                    res.disagreements.append({"op": "sinc lowpass(kernel := documented windowed sinc), widened forms", "input": inp})
                    break
    except Exception as ex:
        res.violations.append({"key": dict(kk, part="exception", exception=type(ex).__name__), "what": "sinc filter raised %s: %s" % (type(ex).__name__, str(ex)[:80]), "input": inp})

    # ------------------------------------------------------------ Butterworth, two types
    for cfg in cs["butter"]:
        ftype = cfg["ftype"]
        band = ftype in ("bandpass", "bandstop")
        for nm in ("fs_form", "style", "mode", "order", "order_form", "tb"):
            res.count("ff_butter_%s_%s" % (nm, cfg[nm]))
        res.count("ff_butter_%s_%s" % ("band_form" if band else "cut_form", cfg["band_form" if band else "cut_form"]))
        res.count("ff_butter_" + ftype)
        kk = dict(base_key, op="butter", filter=ftype, style=cfg["style"], fs_form=cfg["fs_form"])
        cut = make_cut(cfg, band)
        canonical = False
        if optional_forms(cfg):
            try:
                filter_call(nap, cfg, ftype, cut, fs)[0](x)
                res.count("ff_butter_optional_form_accepted")
            except Exception:
                res.count("ff_butter_optional_form_rejected")
                canonical = True
        f, fsv, order, tb = filter_call(nap, cfg, ftype, cut, fs, canonical)
        try:
            r = f(x)
        except Exception as ex:
            res.violations.append({"key": dict(kk, part="exception", exception=type(ex).__name__, empty_epoch=False, short_epoch=False),
                                   "what": "butterworth filter raised %s: %s" % (type(ex).__name__, str(ex)[:80]), "input": inp})
            continue
        try:
            if not common(kk, f, r, None, True):
                continue
            if len(ep) > 1 and fsv is not None:
                # the same epoch filtered on its own (the restricted object; with fs=None the rate, hence the design, would change)
                one = x.restrict(nap.IntervalSet(ep[q][0] / 1e9, ep[q][1] / 1e9))
                if not same(fvals(f(one)), fvals(r)[rows[q]]):
                    res.violations.append({"key": dict(kk, part="independence_restrict"), "what": "filtering the restricted epoch differs from the epoch's rows of the whole result",
                                           "input": dict(inp, epoch=q)})
            if eff == "float64":
                # correspondence (float64 signals: what the model's F covers): each epoch == scipy sosfiltfilt on that epoch's samples alone, bit-exact
                cv = np.array([float(v) for v in cut]) if band else float(cut)
                sos = sp_butter(int(order), cv, btype=ftype, fs=float(fsv) if fsv is not None else x.rate, output="sos")
                g = fvals(r).reshape(T, nc)
                for qq, rw in enumerate(rows):
                    e = np.stack([sosfiltfilt(sos, np.array([data[i][j] for j in rw], dtype=float)) for i in range(nc)], axis=1)
                    if not np.array_equal(g[rw], e):
                        res.disagreements.append({"op": "butter(F := scipy sosfiltfilt on the epoch's samples alone), widened forms", "input": dict(inp, epoch=qq, filter=ftype)})
                        break
        except Exception as ex:
            res.violations.append({"key": dict(kk, part="exception", exception=type(ex).__name__, empty_epoch=False, short_epoch=False, after_first_call=True),
                                   "what": "butterworth filter raised %s: %s" % (type(ex).__name__, str(ex)[:80]), "input": inp})


def part_forms_filters(res, nap, tier, seed, only=None):
    """part 7: smooth, the four windowed-sinc filters and Butterworth on every argument form; one private rng per case"""
    N = 110 if tier == "quick" else 1500
    for c in (range(N) if only is None else [only]):
        cs = gen_ff(random.Random((seed * 11 + 10) * 1000003 + c), c)
        check_ff(res, nap, cs)
        if c % 41 == 0:
            res.sample({"forms_filters": {k: cs[k] for k in ("family", "placement", "smooth", "sinc")}, "spec": cs["spec"], "epochs": [len(r) for r in epoch_rows(cs["ts"], [tuple(e) for e in cs["ep"]])]})


def part_forms_degenerate(res, nap, tier, seed):
    """part 8: degenerate receivers in several forms. An EMPTY series (zero epochs: outside the statement's 'one or many epochs') must give the empty series or a clean
    exception; a series of ONE sample, and a series whose timestamps all coincide, on an explicit support, are ordinary inputs (an epoch shorter than the kernel)"""
    fs = 1e9 / (2 * U)
    rng = random.Random(seed * 11 + 0)
    ops = [("convolve", lambda o: o.convolve(np.array([1.0, 2.0, 3.0]))), ("convolve_left", lambda o: o.convolve(np.array([1, 2]), None, "left")),
           ("smooth", lambda o: o.smooth(2 * 2 * U / 1e9 * 1.0001, size_factor=3)),
           ("sinc", lambda o: nap.apply_lowpass_filter(o, 0.2 * fs, fs=fs, mode="sinc", transition_bandwidth=0.25)),
           ("sinc_hp", lambda o: nap.apply_highpass_filter(o, 0.2 * fs, fs, "sinc", 4, 0.25)),
           ("butter", lambda o: nap.apply_lowpass_filter(o, 0.2 * fs, fs=fs))]
    for kind, dshape in (("Tsd", ()), ("TsdFrame", (2,)), ("TsdTensor", (2, 2))):
        cls = getattr(nap, kind)
        for dt in ("float64", "float32", "int64", "uint8", "bool"):
            for tform in ("ndarray", "list", "ms"):
                # ---- empty series
                t_arg, kw = (np.array([]), {}) if tform == "ndarray" else ([], {}) if tform == "list" else (np.array([]), {"time_units": "ms"})
                try:
                    x0 = cls(t_arg, np.zeros((0,) + dshape, dtype=dt), **kw)
                except Exception:
                    continue
                for nm, f in ops:
                    res.case(("degenerate", "empty", kind, dt, tform, nm), nontrivial=False)
                    res.count("degenerate_empty_series_calls")
                    try:
                        r = f(x0)
                    except Exception:
                        res.count("degenerate_empty_series_clean_exception")
                        continue
                    if len(r.t) != 0 or support_of(r) != [] or tuple(r.shape[1:len(dshape) + 1]) != dshape:
                        res.violations.append({"key": {"op": nm, "part": "time_axis", "no_sample": True, "widened": True, "kind": kind, "data_dtype": dt},
                                               "what": nm + " on an empty series did not return an empty series", "input": {"kind": kind, "dtype": dt, "tform": tform}})
                # ---- one sample / all timestamps equal, explicit support (placed before, at and after 0)
                for n_same in (1, 3):
                    t0 = rng.choice([-7, 0, 5, 51200000]) * U
                    ts = [t0] * n_same
                    ep = [(t0 - U, t0 + U)]
                    lo, hi = val_range(dt)
                    nc = int(np.prod(dshape)) if dshape else 1
                    data = [[rng.randint(max(lo, 1 if hi == 1 else lo), hi) for _ in ts] for _ in range(nc)]
                    sp = {"kind": kind, "dshape": list(dshape), "dtype": dt, "dform": "ndarray", "labels": "default", "fmeta": False, "tform": tform, "eform": "arrays",
                          "emeta": False, "ctor_kw": False, "hist": "direct", "restrict_default": False, "getitem": "full_slice", "arith": "mul1", "pick_style": "pos", "pick": []}
                    x, lab, uts, ucols = realise(nap, sp, ts, data, ep)
                    if not holds(x, kind, uts, ucols, ep, lab, dshape):
                        res.disagreements.append({"op": "build (harness precondition, degenerate receiver)", "input": {"spec": sp, "ts": ts}})
                        continue
                    for nm, f in ops[:5]:
                        res.case(("degenerate", n_same, kind, dt, tform, nm, t0), nontrivial=False)
                        res.count("degenerate_one_sample_calls" if n_same == 1 else "degenerate_all_timestamps_equal_calls")
                        key = {"op": nm, "widened": True, "kind": kind, "data_dtype": dt, "degenerate": "one_sample" if n_same == 1 else "all_equal_timestamps"}
                        inp = {"spec": sp, "ts": ts, "ep": ep, "data": data}
                        try:
                            r = f(x)
                        except Exception as ex:
                            res.violations.append({"key": dict(key, part="exception", exception=type(ex).__name__), "what": "%s raised %s: %s" % (nm, type(ex).__name__, str(ex)[:80]), "input": inp})
                            continue
                        if not axis_ok(r, x, ts, ep):
                            res.violations.append({"key": dict(key, part="time_axis"), "what": nm + " changed timestamps / support / shape / columns", "input": inp})
                            continue
                        if nm.startswith("convolve"):
                            k, trim = ([1, 2, 3], "both") if nm == "convolve" else ([1, 2], "left")
                            exp = np.array([oracle_convolve(ts, d, ep, k, trim) for d in data], dtype=float).T.reshape(r.shape)
                            if not same(r.values, exp):
                                res.violations.append({"key": dict(key, part="values", trim=trim), "what": "not the trimmed full convolution of the epoch's samples", "input": inp,
                                                       "impl": np.asarray(r.values, dtype=float).tolist(), "expected": exp.tolist()})
                    # low-pass + high-pass = input
                    try:
                        s_ = np.asarray(ops[3][1](x).values, dtype=float) + np.asarray(ops[4][1](x).values, dtype=float)
                        if not close(s_, np.asarray(x.values, dtype=float), 9.0):
                            res.violations.append({"key": {"op": "sinc", "part": "lp_plus_hp", "widened": True, "kind": kind, "data_dtype": dt, "degenerate": True},
                                                   "what": "windowed-sinc low-pass + high-pass outputs do not sum to the input", "input": {"spec": sp, "ts": ts, "ep": ep, "data": data}})
                    except Exception:
                        pass        # already reported above


def run(res, tier, seed):
    nap = _nap()
    warnings.simplefilter("ignore")
    res.rule = ("(1) convolve, COMPLETE small space: all sorted multisets of 1-4 timestamps + all larger subsets on an N-point dyadic lattice x all canonical supports of <= m intervals with endpoints on "
                "the lattice (samples on starts/ends, intervals with 0/1/2.. samples, shorter than the kernel, NO sample inside any interval) x 5 kernels of length 1..5 (odd and even) x 3 trims, through BOTH routes "
                "(time support, ep= argument); thorough: N=6, m=3 complete; quick: N=5, m=2 complete + 1200 sampled pairs of the N=6, m=3 space x 2 kernels. (2) seeded random: Tsd/TsdFrame/TsdTensor x 1-D/2-D integer kernels "
                "(length 1..9) x trims on 1-5 epochs of 1..14 samples with duplicate timestamps; exact equality with the brute-force statement oracle (even kernel, 'both': either split) and with the extracted model; "
                "linearity (a*x+b*y) and independence (other epochs overwritten) through the public API. (3) smooth and the four windowed-sinc filters (real kernels, tolerance 1e-12 relative): "
                "time axis, independence and linearity for smooth and for EACH of the four filters, lp+hp = id, bp+bs = id; three kernel regimes: 9..41 taps on epochs of 1..25 samples, the default "
                "transition bandwidth (201 taps) / default size_factor on epochs of 150..440 samples plus a short one, 801 taps on 12000 samples (SciPy's FFT convolution); integer kernels: model's spectral "
                "inversion / band kernels vs implementation, exact. (4) Butterworth x4 types x orders 1-4: time axis, restricted-object equality, independence, linearity (tolerance); correspondence: each epoch == "
                "sosfiltfilt on that epoch alone (bit-exact), bookkeeping with an integer stand-in for sosfiltfilt. (5) a support with an interval holding no sample (first / middle / last) through smooth / sinc / "
                "Butterworth, and with an interval of 1..padlen samples through Butterworth: no exception, time axis, the full intervals filtered as on their own. "
                "non-trivial = more than one epoch (and no empty epoch in part 1). "
                "WIDENED ARGUMENT FORMS (parts 6-8; one private rng per case, every axis leaves its most common value with probability 0.3-0.6 independently, so forms are also combined): "
                "(6) convolve as in (2), (7) smooth + the four windowed-sinc filters + two Butterworth types on 1-3 regular epochs of 30..47 samples, (8) degenerate receivers. "
                "Axis 1 data dtype: float64 / float32 / int64 / int32 / int16 / int8 / uint8..uint64 / bool signals (integer values, exact) and float64 / float32 / int64 / int16 / int8 / uint8 / bool / "
                "halved kernels, only pairs whose NumPy result type holds every partial sum; float signals holding NaN / +inf / -inf (expected: what the brute-force sum gives, NaN matching NaN), all-equal and "
                "zero signals; for independence the OTHER epochs are overwritten by large values and, for float data, by NaN / +-inf (a filter may refuse NaN by ValueError); linearity with the combination "
                "stored in the signal's dtype or in float64. "
                "Axis 2 forms of time arguments: t as ndarray / list / tuple / pandas Index / pandas Series-DataFrame object / another object's TsIndex / another object's .t / float32 / int64, int32, uint64, uint32 whole "
                "seconds; supports and ep= as arrays / lists / tuples / 2-D array / DataFrame / integer and unsigned arrays, with and without metadata; scalars (std, windowsize, cutoff, fs, order, "
                "transition_bandwidth) as Python float / int / np.float64 / np.float32 / np.int64 / 0-d array, band limits as tuple / list / ndarray / ints / mixed; forms the signature does not promise "
                "(list / tuple kernel, np.float32 std, np.int64 order, float order, np.float32 bandwidth, a trim / mode string in another letter case) must raise a clean exception or satisfy the statement. "
                "Axis 3 call forms: every parameter positionally and by keyword, defaults omitted / spelled (trim, ep=None, windowsize=None, size_factor, norm, fs=None, mode default 'butter', order default 4, "
                "default transition bandwidth), order given with mode='sinc' and transition_bandwidth with Butterworth (flags combined). "
                "Axis 4 units: signals, supports and ep in s / ms / us; smooth's std / windowsize in s / ms / us must give the result of the same instants in seconds. "
                "Axis 5 placement: at the origin, all times negative, straddling 0 with a sample exactly at 0, 1e5 s away; interval ends exactly on samples or 0.2 step off. "
                "Axis 6 degenerate: ep= empty / holding no sample, empty series (clean exception or empty result), one sample, all timestamps equal (explicit support), 1..5 intervals with 1..14 samples. "
                "Axis 7 classes: Tsd / TsdFrame / TsdTensor; TsdFrame labels default / strings / unsorted integers / digit strings / floats, with and without column metadata. "
                "Axis 8 histories: direct, restrict of a longer series (default or wide support), getitem (slice / arange / mask), arithmetic (x*1, x+0), a NumPy function (double negation), save + load_file, "
                "columns picked out of a wider frame in non-monotone order (positions or .loc) / a frame column as Tsd / a doubly flipped tensor; non-contiguous, Fortran-ordered and list data; kernels that are "
                "strided / negatively strided / Fortran views or a view of the signal's own data; every call repeated on the same live objects; one cutoff object shared by complementary calls")
    res.exhaustive = True
    part_exhaustive(res, nap, tier, random.Random(seed * 11 + 1))
    part_random(res, nap, tier, random.Random(seed * 11 + 2))
    part_sinc_model(res, nap, tier, random.Random(seed * 11 + 3))
    part_smooth_sinc(res, nap, tier, random.Random(seed * 11 + 4))
    part_smooth_sinc(res, nap, tier, random.Random(seed * 11 + 7), variant="default_bw")
    part_smooth_sinc(res, nap, tier, random.Random(seed * 11 + 8), variant="fft")
    part_butter(res, nap, tier, random.Random(seed * 11 + 5))
    part_empty_epoch(res, nap, tier, random.Random(seed * 11 + 6))
    part_forms_convolve(res, nap, tier, seed)
    part_forms_filters(res, nap, tier, seed)
    part_forms_degenerate(res, nap, tier, seed)


def search(res, seed):
    r2 = C.Result()
    run(r2, "thorough", seed)
    for v in r2.violations:
        if C.match_known("C18", v) is None:
            return v
    return None


def replay(payload):
    nap = _nap()
    warnings.simplefilter("ignore")
    v = payload.get("violation") or (payload.get("disagreements") or [{}])[0]
    inp = v.get("input", {})
    if "kernel" in inp and "col" in inp:
        ts, col, ep, k, trim = inp["ts"], inp["col"], [tuple(e) for e in inp["ep"]], inp["kernel"], inp.get("trim", "both")
        rows = epoch_rows(ts, ep)
        keep = sorted(i for r in rows for i in r)
        exp = oracle_convolve([ts[i] for i in keep], [col[i] for i in keep], ep, k, trim)
        x = nap.Tsd(G.arr(ts), np.array(col, dtype=float), time_support=nap.IntervalSet(-1.0, 1.0))
        try:
            got = ints(x.convolve(np.array(k, dtype=float), ep=iset(nap, ep), trim=trim).values)
        except Exception as ex:
            got = "%s: %s" % (type(ex).__name__, ex)
        print("ts", ts, "col", col, "ep", ep, "kernel", k, "trim", trim)
        print("impl    ", got)
        print("expected", exp)
        return 0 if got == exp else 1
    if v.get("key", {}).get("op") == "butter" and "filter" in inp and "order" in inp and "ep" in inp and "cutoff" not in inp:
        # an interval of the support holding no / too few samples (part_empty_epoch)
        fs = 1e9 / (2 * U)
        ftype, ep = inp["filter"], [tuple(e) for e in inp["ep"]]
        cutoff = 0.2 * fs if ftype in ("lowpass", "highpass") else (0.1 * fs, 0.2 * fs)
        x = nap.Tsd(G.arr(inp["ts"]), np.array(inp["data"], dtype=float), time_support=iset(nap, ep))
        print("samples per interval", [len(r) for r in epoch_rows(inp["ts"], ep)], "filter", ftype, "order", inp["order"])
        try:
            r = getattr(nap, "apply_%s_filter" % ftype)(x, cutoff, fs=fs, mode="butter", order=inp["order"])
        except Exception as ex:
            print("impl     raised %s: %s" % (type(ex).__name__, ex))
            print("expected every interval filtered on its own; an interval's length must not decide whether the others get an output")
            return 1
        print("impl     returned %d samples on %d intervals" % (len(r), len(r.time_support)))
        return 0
    cs = inp.get("case")
    if isinstance(cs, dict) and cs.get("part") in ("forms_convolve", "forms_filters"):
        # a widened case carries its complete description: run that one case again
        r2 = C.Result()
        if cs["part"] == "forms_convolve":
            line = None
            if not cs["special"]:
                nc = len(cs["data"])
                line = "frame\t%d\t%s\t%s\t%d %d\t%s\t%s" % (MODE[cs["trim"]], C.fmt_ints(cs["ts"]), C.fmt_iset(cs["ep"]), nc, len(cs["kernel"]),
                                                             "\t".join(C.fmt_ints(d) for d in cs["data"]), "\t".join(C.fmt_ints(k) for k in cs["kernel"]))
            check_fc(r2, nap, cs, C.run_model([line], driver="driver_c18")[0] if line else None)
        else:
            check_ff(r2, nap, cs)
        print("case", {k: cs[k] for k in cs if k not in ("data", "data2", "ts", "extras")})
        print("ts", cs["ts"], "data", cs["data"])
        for w in r2.violations:
            print("VIOLATION", w["key"], w["what"], "impl", str(w.get("impl"))[:400], "expected", str(w.get("expected"))[:400])
        for w in r2.disagreements:
            print("DISAGREEMENT", w["op"], str(w.get("impl"))[:300])
        return 1 if (r2.violations or r2.disagreements) else 0
    print("replay input:", inp)
    print("what:", v.get("what"))
    return 1
