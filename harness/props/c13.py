"""C13 metadata and labels stay attached to the element they describe."""
import itertools
import os
import random
import tempfile
import warnings

import numpy as np

import common as C
import gen as G

LEVEL = "proof"
DRIVERS = ["driver_c13"]
TRUSTED = ["model: coq/Model/Meta.v (metadata frames with pandas' loc / iloc disciplines, IntervalSet constructor with its metadata-drop rule, every __getitem__ form, "
           "intersect / set_diff / split parent rows, union / time_span / merge_close, TsdFrame column selection by position / label / mask / group, TsGroup selection, member-wise "
           "operations and merge_group) over Model/Iset.v; theorems: Proofs/MetaProofs.v (+ Proofs/InterDiffProofs.v for the parents of intersect / set_diff)",
           "pandas / NumPy are trusted to turn an int / slice / list / mask key into the positions Python's list semantics gives, and .loc / .iloc / reset_index / get_indexer to be what "
           "the model's loc / sel / range_frame / first_pos say (exercised on every key of the complete spaces by the correspondence)",
           "NOT MODELLED, exercised by the harness through the public API only: save / load_file round trips (key tables are C11's), merge_group of three groups, IntervalSet[rows, column name(s)] (the model has no column axis), NumPy column permutations, in-place corruption of an operand "
           "(not expressible in the functional model; operands are re-checked after every merge)"]
ASSUMPTIONS = ["labels (TsdFrame columns, TsGroup keys) are distinct; IntervalSet operands are canonical and carry the default 0..n-1 metadata index (both are what the constructors produce)",
               "TsGroup(dict in unsorted key order, metadata=list) attaching the list to the SORTED keys is outside the statement (it is about preservation after attachment)",
               "NumPy functions that permute the columns of a TsdFrame (np.flip / np.fliplr / np.roll / np.take on axis 1) are exercised and REPORTED (key op=TsdFrame.numpy_column_permutation): the "
               "result keeps labels and metadata in the old order, i.e. attached to another column's data; C14's statement asks for exactly that (labels kept when the column count is unchanged), so "
               "it is a known finding, not a repair",
               "a boolean pd.Series whose index is the column labels / group keys in ANOTHER order: which elements it selects is not C13's business (TsdFrame[:, key] and TsGroup[key] use the values "
               "by position, TsdFrame[key] reads it as a row mask and raises on a non-square frame - counted as observed:*); what comes back is checked for attachment",
               "IntervalSet[rows, metadata column(s)] is held to the row semantics of IntervalSet[rows, 'start'] and IntervalSet[rows, :] (NumPy positions: negative positions wrap, slices exclude their stop)",
               "WIDENED FORMS: the model knows positions, labels and tags only, so it is compared on every widened case that reduces to those (keys of any dtype / container -> get_pos, constructor forms and "
               "units -> mk / mk_df on the tick values, shifted origins, split with units, set operations with shifted / shared operands, TsdFrame and TsGroup selections -> f_pos / f_labels / f_mask / g_keys / g_mask / "
               "g_map); NOT compared with the model (statement oracle only): the extra metadata column of other dtypes, operands without metadata, the empty operand, groups holding an empty member, "
               "merge_group with reset_time_support / overlapping keys / the same object twice, groupby_apply, the arithmetic / NumPy / unit variants of column-preserving operations, histories of TsdFrame and TsGroup",
               "forms the documented signatures do not promise (0-d array / range as IntervalSet key, float arrays / floats as TsGroup keys, a tuple of labels in TsdFrame[...]) are held to `raises a clean "
               "Python exception or satisfies the statement`; an empty list ep[[]] is read as a list of column names and returns a DataFrame (nothing attached: not generated)",
               "the model follows /repo as repaired (c7648fb: pandas keys of IntervalSet.__getitem__ positional; c0dc0a1: merge_group sorts the concatenated metadata and copies its "
               "first operand's metadata; and the proposed repair of the tuple form ep[pandas key, :], which is compared with the SAME model functions as ep[pandas key]); the pre-repair forms are "
               "kept as *_orig definitions with their refutation theorems"]

U = 1953125  # 2^-9 s in ticks
NSTEPS = 3   # length of the operation sequences of run_setops
US = 1000
D = "driver_c13"


def _nap():
    import pynapple as nap
    import pandas as pd
    return nap, pd


def ticks(ep):
    return [(C.to_ns(s), C.to_ns(e)) for s, e in ep.values]


def mk_ep(nap, ivs, tagcol="tag", extra=None):
    md = {tagcol: [s // U for s, _ in ivs], "lab" + tagcol[3:]: ["s%d" % (s // U) for s, _ in ivs]}
    if extra:
        md.update(extra)
    return nap.IntervalSet(G.arr([s for s, _ in ivs]), G.arr([e for _, e in ivs]), metadata=md)


def canon_res(r, tagcols=("tag",)):
    """implementation result -> the model's output format"""
    iv = C.fmt_iset(ticks(r))
    if all(c in r.metadata_columns for c in tagcols):
        md = r.metadata
        tags = []
        for i in range(len(r)):
            for c in tagcols:
                tags.append(int(md[c].values[i]))
        return "K|%s|%s|%s" % (iv, C.fmt_ints(md.index), C.fmt_ints(tags))
    return "D|" + iv


def same_value(v, w):
    """equality of a stored metadata value with the expected one (NaN equals NaN; booleans by truth value; numbers by value)"""
    if isinstance(w, float) and w != w:
        return isinstance(v, (float, np.floating)) and v != v
    if isinstance(w, bool):
        return isinstance(v, (bool, np.bool_)) and bool(v) == w
    if isinstance(w, str):
        return isinstance(v, str) and v == w
    try:
        return bool(v == w)
    except Exception:
        return False


def attach_err(r, orig, mode, tagcol="tag", extra=None):
    """statement-level oracle: every output interval that carries a tag is the input interval with that tag
    (mode 'same': same start AND same end - the operands are canonical, no selection of their intervals has touching
    neighbours, so the constructor's 1 us trim never applies) or lies inside it (mode 'inside').
    Tags are derivable from the data (tag = start tick // U of the interval it was given with). Returns None/'nometa'/message.
    extra = {column: function(tag) -> value}: further metadata columns (other dtypes, NaN, objects) whose value is a function
    of the interval's tag; a result that carries the tag must carry them too, with the value of the same interval."""
    if tagcol not in r.metadata_columns:
        return "nometa"
    md = r.metadata
    if list(md.index) != list(range(len(r))):
        return "metadata index %s is not 0..n-1" % list(md.index)
    by_tag = {s // U: (s, e) for s, e in orig}
    lab = "lab" + tagcol[3:]
    for i, (s, e) in enumerate(ticks(r)):
        t = int(md[tagcol].values[i])
        if t not in by_tag:
            return "interval %d carries unknown tag %d" % (i, t)
        s0, e0 = by_tag[t]
        ok = (s == s0 and e == e0) if mode == "same" else (s0 <= s and e <= e0)
        if not ok:
            return "interval %d = (%d,%d) carries the tag of (%d,%d)" % (i, s, e, s0, e0)
        if lab in md.columns and md[lab].values[i] != "s%d" % t:
            return "interval %d: metadata columns disagree (%s vs %s)" % (i, md[lab].values[i], t)
        if int(r.get_info(tagcol)[i]) != t:
            return "get_info disagrees with metadata"
        for col, fn in (extra or {}).items():
            if col not in md.columns:
                return "metadata column %s lost although %s was kept" % (col, tagcol)
            if not same_value(md[col].values[i], fn(t)):
                return "interval %d: column %s holds %r, the interval with tag %d was given %r" % (i, col, md[col].values[i], t, fn(t))
    return None


def obj_line(ivs):
    return "%s\t%s" % (C.fmt_iset(ivs), C.fmt_ints([s // U for s, _ in ivs]))


def strictly_inc(ps):
    return all(a < b for a, b in zip(ps, ps[1:]))


class Ctx:
    def __init__(self, res, tier, seed):
        self.res, self.tier, self.seed = res, tier, seed
        self.quick = tier == "quick"
        self.pend = []   # (model line, impl canonical string, info) for the correspondence

    def viol(self, key, what, inp, impl=None, expected=None):
        self.res.violations.append({"key": key, "what": what, "input": inp, "impl": impl, "expected": expected})

    def corr(self, line, impl, info):
        self.pend.append((line, impl, info))

    def flush(self):
        if not self.pend:
            return
        out = C.run_model([p[0] for p in self.pend], driver=D)
        for (line, impl, info), m in zip(self.pend, out):
            if m != impl:
                self.res.disagreements.append({"op": info.get("op"), "input": info, "line": line, "impl": impl, "model": m})
        self.res.traces += len(self.pend)
        self.pend = []


def call(cx, kk, inp, fn):
    """run an implementation call; an exception on a valid input is reported, not propagated"""
    try:
        return fn()
    except Exception as ex:
        cx.viol(dict(kk, part="exception"), "raised %s: %s" % (type(ex).__name__, str(ex)[:80]), inp)
        return None


# ----------------------------------------------------------------------------------------------
# IntervalSet.__getitem__ : every index form
def iset_keys(n, pd, quick, rng):
    """(form, key object, positions or None, description)"""
    out = []
    for k in range(-n - 1, n + 1):
        out.append(("int", k, [k % n] if -n <= k < n else None, k))
    rngv = [None] + list(range(-n - 1, n + 2))
    sl = [(a, b, c) for a in rngv for b in rngv for c in (None, 1, 2, 3, -1, -2)]
    if quick:
        sl = rng.sample(sl, 260)
    for a, b, c in sl:
        out.append(("slice", slice(a, b, c), list(range(n))[slice(a, b, c)], [a, b, c]))
    lists = []
    for m in range(1, n + 1):
        lists += [list(p) for p in itertools.permutations(range(n), m)]
    lists += [[a, b] for a in range(-n, n) for b in range(-n, n)]
    lists += [[0, 0, 1], [1, 1], [n, 0], [0, n + 1]]
    for l in lists:
        ps = [p % n for p in l] if all(-n <= p < n for p in l) else None
        out.append(("list", list(l), ps, l))
        out.append(("ndarray", np.array(l), ps, l))
    for l in lists[:40]:
        ps = [p % n for p in l] if all(-n <= p < n for p in l) else None
        out.append(("list,:", (list(l), slice(None)), ps, l))
    for k in range(-n - 1, n + 1):
        out.append(("int,:", (k, slice(None)), [k % n] if -n <= k < n else None, k))
    for a, b, c in rng.sample(sl, 80):
        out.append(("slice,:", (slice(a, b, c), slice(None)), list(range(n))[slice(a, b, c)], [a, b, c]))
    for mask in itertools.product([False, True], repeat=n):
        ps = [i for i, b in enumerate(mask) if b]
        out.append(("mask_list", list(mask), ps, [int(b) for b in mask]))
        out.append(("mask_ndarray", np.array(mask), ps, [int(b) for b in mask]))
        out.append(("mask,:", (np.array(mask), slice(None)), ps, [int(b) for b in mask]))
    return out


def run_iset_index(cx):
    nap, pd = _nap()
    res = cx.res
    rng = random.Random(cx.seed * 13 + 1)
    n = 4 if cx.quick else 5
    geos = {"separated": [(4 * i * U, (4 * i + 2) * U) for i in range(n)],
            "1us_gaps": [(2 * i * U, (2 * i + 2) * U - (US if i < n - 1 else 0)) for i in range(n)]}
    for gname, ivs in geos.items():
        ep = mk_ep(nap, ivs, extra={"grp": [i % 2 for i in range(n)]})
        if attach_err(ep, ivs, "same") is not None:
            cx.viol({"op": "IntervalSet.__init__"}, "metadata given with canonical intervals is not attached to them", {"ivs": ivs})
            continue
        for form, key, ps, desc in iset_keys(n, pd, cx.quick, rng):
            inp = {"intervals": ivs, "form": form, "key": desc}
            res.count("iset_index_" + form)
            nontriv = ps is not None and 0 < len(ps) < n or (ps is not None and not strictly_inc(ps))
            res.case(("iset", gname, form, str(desc)), nontrivial=bool(nontriv))
            kk = {"op": "IntervalSet.__getitem__", "form": form}
            try:
                r = ep[key]
                impl = canon_res(r)
            except Exception as ex:
                r, impl = None, "E"
                if ps is not None:
                    cx.viol(dict(kk, part="exception"), "valid key raised " + type(ex).__name__, inp)
            cx.corr("get_pos\t%s\t%s" % (obj_line(ivs), C.fmt_ints(ps if ps is not None else [n + 3])), impl, dict(inp, op="iset_get_pos"))
            if r is None:
                continue
            err = attach_err(r, ivs, "same")
            if err == "nometa":
                if ps and strictly_inc(ps):
                    cx.viol(dict(kk, part="lost"), "order-preserving selection lost its metadata", inp, impl)
            elif err:
                cx.viol(dict(kk, part="misattached"), err, inp, impl)
            if ps is not None and strictly_inc(ps) and [t[0] for t in ticks(r)] != [ivs[p][0] for p in ps]:
                cx.viol(dict(kk, part="intervals"), "selected intervals are not the requested ones", inp, impl)
            if len(res.samples) < 2 and form == "list" and len(desc) == 3:
                res.sample({"intervals": ivs, "key": desc, "result": impl})
        # pd.Index / integer pd.Series keys (positional, negative integers wrap)
        subs = []
        for m in range(1, n + 1):
            subs += [list(p) for p in itertools.permutations(range(n), m)]
        subs += [[-1, 0], [0, -1], [-n, -1], [0, n], [-n - 1], [1, 1]]
        for l in subs:
            forms = [("pd.Index", pd.Index(l)), ("pd.Series_int", pd.Series(l)), ("pd.Series_int_own_index", pd.Series(l, index=[7 - 2 * i for i in range(len(l))]))]
            forms += [(f + ",:", (k, slice(None))) for f, k in forms]
            for form, key in forms:
                inp = {"intervals": ivs, "form": form, "key": l}
                res.count("iset_index_" + form)
                res.case(("iset", gname, form, str(l)), nontrivial=True)
                kk = {"op": "IntervalSet.__getitem__", "form": form}
                valid = all(-n <= p < n for p in l)
                try:
                    r = ep[key]
                    impl = canon_res(r)
                except Exception as ex:
                    r, impl = None, "E"
                    if valid:
                        cx.viol(dict(kk, part="exception"), "valid key raised " + type(ex).__name__, inp)
                cx.corr("get_labels\t%s\t%s" % (obj_line(ivs), C.fmt_ints(l)), impl, dict(inp, op="iset_get_labels"))
                if r is None:
                    continue
                err = attach_err(r, ivs, "same")
                if err == "nometa":
                    if valid and strictly_inc([p % n for p in l]):
                        cx.viol(dict(kk, part="lost"), "order-preserving selection lost its metadata", inp, impl)
                elif err:
                    cx.viol(dict(kk, part="misattached"), err, inp, impl)
        # boolean pd.Series, its index in every order (e.g. a condition on sorted metadata)
        perms = list(itertools.permutations(range(n)))
        if cx.quick:
            perms = [tuple(range(n))] + rng.sample(perms[1:], 11)
        for perm in perms:
            for mask, tup in itertools.product(itertools.product([False, True], repeat=n), (False, True)):
                key = pd.Series(list(mask), index=list(perm))
                aligned = list(perm) == list(range(n))
                form = ("bool_series" if aligned else "bool_series_permuted_index") + (",:" if tup else "")
                inp = {"intervals": ivs, "form": form, "mask_index": list(perm), "mask": [int(b) for b in mask], "tuple": tup}
                res.count("iset_index_" + form)
                res.case(("iset", gname, form, perm, mask), nontrivial=0 < sum(mask) < n)
                kk = {"op": "IntervalSet.__getitem__", "form": form}
                try:
                    r = ep[key, :] if tup else ep[key]
                    impl = canon_res(r)
                except Exception as ex:
                    r, impl = None, "E"
                    cx.viol(dict(kk, part="exception"), "valid key raised " + type(ex).__name__, inp)
                cx.corr("get_bseries\t%s\t%s\t%s" % (obj_line(ivs), C.fmt_ints(perm), C.fmt_ints([int(b) for b in mask])), impl, dict(inp, op="iset_get_bseries"))
                if r is None:
                    continue
                err = attach_err(r, ivs, "same")
                if err == "nometa":
                    if any(mask):
                        cx.viol(dict(kk, part="lost"), "mask selection lost its metadata", inp, impl)
                elif err:
                    cx.viol(dict(kk, part="misattached"), err, inp, impl, "tags of the returned intervals")
                if [t[0] for t in ticks(r)] != [ivs[i][0] for i, b in enumerate(mask) if b]:
                    cx.viol(dict(kk, part="intervals"), "selected intervals are not those at the True positions", inp, impl)
        # groupby / get_group, drop_short / drop_long (mask built from the data), column lists, loc
        for assign in itertools.product([0, 1], repeat=n):
            e2 = mk_ep(nap, ivs, extra={"grp": list(assign)})
            res.case(("iset", gname, "groupby", assign), nontrivial=0 < sum(assign) < n)
            res.count("iset_groupby")
            groups = e2.groupby("grp")
            for v in set(assign):
                want = [i for i, a in enumerate(assign) if a == v]
                if sorted(groups[v]) != want:
                    cx.viol({"op": "IntervalSet.groupby"}, "group indices are not the intervals whose metadata value is the group's", {"intervals": ivs, "grp": assign})
                r = e2.groupby("grp", get_group=v)
                err = attach_err(r, ivs, "same")
                if err or [t[0] for t in ticks(r)] != [ivs[i][0] for i in want] or list(r.metadata["grp"]) != [v] * len(want):
                    cx.viol({"op": "IntervalSet.groupby", "part": "get_group"}, "get_group: " + str(err), {"intervals": ivs, "grp": assign, "group": v}, canon_res(r))
                cx.corr("get_labels\t%s\t%s" % (obj_line(ivs), C.fmt_ints(want)), canon_res(r), {"op": "iset_groupby", "intervals": ivs, "grp": assign})
        durs = sorted({e - s for s, e in ivs})
        # a threshold equal to a duration is decided by a float subtraction of non-dyadic ends: only on the dyadic geometry
        for thr in (durs if gname == "separated" else []) + [durs[0] - 1, durs[-1] + 1, (durs[0] + durs[-1]) // 2]:
            for nm in ("drop_short_intervals", "drop_long_intervals"):
                r = getattr(ep, nm)(thr / 1e9)
                res.case(("iset", gname, nm, thr), nontrivial=0 < len(r) < n)
                want = [i for i, (s, e) in enumerate(ivs) if ((e - s) > thr if nm[5] == "s" else (e - s) < thr)]
                err = attach_err(r, ivs, "same")
                if (err and (err != "nometa" or want)) or [t[0] for t in ticks(r)] != [ivs[i][0] for i in want]:
                    cx.viol({"op": "IntervalSet." + nm}, str(err), {"intervals": ivs, "threshold": thr}, canon_res(r))
        with tempfile.TemporaryDirectory() as d:
            ep.save(os.path.join(d, "e.npz"))
            r = nap.load_file(os.path.join(d, "e.npz"))
            res.case(("iset", gname, "save_load"), nontrivial=True)
            res.count("save_load")
            err = attach_err(r, ivs, "same")
            if err or len(r) != n:
                cx.viol({"op": "IntervalSet.save_load"}, str(err), {"intervals": ivs}, canon_res(r))
            r = r[1:]
            err = attach_err(r, ivs, "same")
            if err or len(r) != n - 1:
                cx.viol({"op": "IntervalSet.save_load", "part": "then_index"}, str(err), {"intervals": ivs}, canon_res(r))
        for cols in (["start", "end", "tag", "lab"], ["lab", "end", "start", "tag"]):
            r = call(cx, {"op": "IntervalSet.__getitem__", "form": "column_list"}, {"intervals": ivs, "columns": cols}, lambda: ep[cols])
            res.case(("iset", gname, "columns", str(cols)), nontrivial=True)
            err = attach_err(r, ivs, "same") if isinstance(r, nap.IntervalSet) else "result is not an IntervalSet"
            if err or len(r) != n:
                cx.viol({"op": "IntervalSet.__getitem__", "form": "column_list"}, str(err), {"intervals": ivs, "columns": cols})
        for l in subs[:30]:
            if not all(0 <= p < n for p in l):
                continue
            r = ep.loc[l]
            res.case(("iset", gname, "loc", str(l)), nontrivial=True)
            err = attach_err(r, ivs, "same")
            if err and not (err == "nometa" and not strictly_inc(l)):
                cx.viol({"op": "IntervalSet.loc"}, str(err), {"intervals": ivs, "key": l}, canon_res(r))
            for p in l:
                if ep.loc[p, "tag"] != ivs[p][0] // U or C.to_ns(ep.loc[p, "start"]) != ivs[p][0]:
                    cx.viol({"op": "IntervalSet.loc", "form": "scalar"}, "loc[i, column] is not interval i's value", {"intervals": ivs, "key": p})
        run_iset_column_keys(cx, nap, pd, ep, ivs, gname, rng)
    cx.flush()


def run_iset_column_keys(cx, nap, pd, ep, ivs, gname, rng):
    """ep[rows, 'tag'], ep[rows, [metadata columns]], ep[rows, ['start', 'end', metadata columns]]: the row key selects the same
    intervals as in ep[rows, 'start'] / ep[rows] (NumPy positions), and every returned metadata value is that interval's"""
    res = cx.res
    n = len(ivs)
    rows = [("int", k, [k % n], k) for k in range(-n, n)]
    rngv = [None] + list(range(-n - 1, n + 2))
    sl = [(a, b, c) for a in rngv for b in rngv for c in (None, 1, 2, -1)]
    for a, b, c in rng.sample(sl, 50 if cx.quick else 300) + [(0, 2, None), (None, -1, None), (-2, None, None), (1, 1, None)]:
        rows.append(("slice", slice(a, b, c), list(range(n))[slice(a, b, c)], [a, b, c]))
    lists = [list(p) for m in (1, 2, n) for p in itertools.permutations(range(n), m)]
    lists = (rng.sample(lists, 24) if cx.quick else lists) + [[0, 1], [1, 2], [0, n - 1], [-1], [0, -1], [-n, -1], [n - 1, 0]]
    for l in lists:
        rows.append(("list", list(l), [p % n for p in l], l))
        rows.append(("ndarray", np.array(l), [p % n for p in l], l))
    for mask in itertools.product([False, True], repeat=n):
        rows.append(("mask_ndarray", np.array(mask), [i for i, b in enumerate(mask) if b], [int(b) for b in mask]))
    tag_of = [s // U for s, _ in ivs]

    def trigger(form, desc, ps):
        # why a label-based (.loc) treatment of the row key differs from the positional one on this key
        if form == "slice":
            return "slice"
        if form in ("int", "list", "ndarray") and any(p < 0 for p in ([desc] if form == "int" else desc)):
            return "negative_position"
        if form == "int":
            return "int_row"
        return "rows_not_a_prefix" if ps != list(range(len(ps))) else "none"

    for form, key, ps, desc in rows:
        trig = trigger(form, desc, ps)
        base = {"intervals": ivs, "rows_form": form, "rows": desc}
        # reference: the interval columns are positional
        try:
            st = np.atleast_1d(ep[key, "start"])
            ref_ok = [C.to_ns(x) for x in st] == [ivs[p][0] for p in ps]
        except Exception:
            ref_ok = False
        if not ref_ok:
            cx.viol({"op": "IntervalSet.__getitem__", "form": form + ",'start'", "part": "intervals"}, "ep[rows, 'start'] is not the starts at the requested positions", base)
        # column-name lists in either order (the result's columns are start, end, then the metadata: the order asked for plays no role)
        flip = rng.random() < 0.5
        for cform, cols in (("str", "tag"), ("metadata_columns", ["lab", "tag"] if flip else ["tag", "lab"]),
                            ("start_end_and_metadata_columns", ["tag", "end", "lab", "start"] if flip else ["start", "end", "tag", "lab"])):
            full = "%s,%s" % (form, cform)
            kk = {"op": "IntervalSet.__getitem__", "form": full, "columns": cform, "trigger": trig}
            inp = dict(base, columns=cols)
            res.count("iset_index_rows,columns")
            res.case(("iset", gname, full, str(desc)), nontrivial=0 < len(ps) < n or not strictly_inc(ps))
            try:
                r = ep[key, cols]
            except Exception as ex:
                cx.viol(dict(kk, part="exception"), "valid key raised %s: %s" % (type(ex).__name__, str(ex)[:60]), inp)
                continue
            if cform == "start_end_and_metadata_columns":
                if not isinstance(r, nap.IntervalSet):
                    cx.viol(dict(kk, part="type"), "result is not an IntervalSet", inp, type(r).__name__)
                    continue
                impl = canon_res(r)
                err = attach_err(r, ivs, "same")
                if err == "nometa":
                    if ps and strictly_inc(ps):
                        cx.viol(dict(kk, part="lost"), "order-preserving selection lost its metadata", inp, impl)
                elif err:
                    cx.viol(dict(kk, part="misattached"), err, inp, impl)
                if strictly_inc(ps) and [t[0] for t in ticks(r)] != [ivs[p][0] for p in ps]:
                    cx.viol(dict(kk, part="intervals"), "selected intervals are not the requested ones (ep[rows, 'start'] and ep[rows] select %s)" % ps, inp, impl)
                continue
            # metadata values only: they must be those of the intervals ep[rows, 'start'] returns, in that order
            try:
                if cform == "str":
                    got = [int(x) for x in np.atleast_1d(np.asarray(r))]
                    want = [tag_of[p] for p in ps]
                else:
                    arr = np.asarray(r, dtype=object)
                    arr = arr.reshape(1, -1) if arr.ndim == 1 else arr
                    got = [(int(b), str(a)) for a, b in arr] if flip else [(int(a), str(b)) for a, b in arr]
                    want = [(tag_of[p], "s%d" % tag_of[p]) for p in ps]
            except Exception as ex:
                cx.viol(dict(kk, part="type"), "result cannot be read as metadata values: %s" % type(ex).__name__, inp, repr(r)[:80])
                continue
            if got != want:
                cx.viol(dict(kk, part="misattached"), "metadata returned for the row key is not that of the intervals the same row key selects", inp, got, want)


# ----------------------------------------------------------------------------------------------
# constructor: metadata kept only when output interval i IS input interval i
def run_ctor(cx):
    nap, pd = _nap()
    res = cx.res
    rng = random.Random(cx.seed * 13 + 2)
    vals = [0, U, 2 * U, 3 * U, 4 * U]
    cases = []
    for m in (1, 2, 3):
        for ss in itertools.product(vals, repeat=m):
            for es in itertools.product(vals, repeat=m):
                cases.append((list(ss), list(es)))
    if cx.quick:
        cases = cases[:650] + rng.sample(cases[650:], 2200)
    # neighbours closer than 1 us: the trim makes an interval vanish (a repair)
    cases += [([0, 500], [500, U]), ([0, US], [US, U]), ([0, 2 * US], [2 * US, U]), ([0, U, U + 300], [U, U + 300, 3 * U])]
    for ss, es in cases:
        m = len(ss)
        tags = [7 + 3 * i for i in range(m)]
        inp = {"start": ss, "end": es, "tags": tags}
        canonical = all(s < e for s, e in zip(ss, es)) and all(es[i] < ss[i + 1] for i in range(m - 1))
        res.case(("ctor", tuple(ss), tuple(es)), nontrivial=not canonical)
        res.count("ctor_canonical" if canonical else "ctor_needs_repair_or_sort")
        for form in ("arrays", "dataframe"):
            kk = {"op": "IntervalSet.__init__", "form": form}
            try:
                if form == "arrays":
                    r = nap.IntervalSet(G.arr(ss), G.arr(es), metadata={"tag": tags})
                else:
                    r = nap.IntervalSet(pd.DataFrame({"start": G.arr(ss), "end": G.arr(es), "tag": tags}))
                impl = canon_res(r)
            except Exception as ex:
                r, impl = None, "E"
                cx.viol(dict(kk, part="exception"), "constructor raised " + type(ex).__name__, inp)
            cx.corr("%s\t%s\t%s\t%s" % ("mk" if form == "arrays" else "mk_df", C.fmt_ints(ss), C.fmt_ints(es), C.fmt_ints(tags)), impl, dict(inp, op="ctor_" + form))
            if r is None:
                continue
            if "tag" in r.metadata_columns:
                got = list(zip(ticks(r), [int(t) for t in r.metadata["tag"].values]))
                given = {t: (s, e) for s, e, t in zip(ss, es, tags)}
                # output interval i IS input interval i: same start; same end, except that an end TOUCHING the next start is given back 1 us earlier
                bad = [g for g in got if not (g[0][0] == given[g[1]][0] and g[0][1] == given[g[1]][1] - (US if given[g[1]][1] in ss else 0))]
                if bad or len(got) != m:
                    cx.viol(dict(kk, part="misattached"), "constructor kept metadata although output intervals are not the input intervals: %s" % bad, inp, impl)
            elif canonical:
                cx.viol(dict(kk, part="lost"), "canonical input lost its metadata", inp, impl)
    cx.flush()


# ----------------------------------------------------------------------------------------------
# intersect / set_diff / split carry the parents' metadata; union / merge_close / time_span drop it
def run_setops(cx):
    nap, pd = _nap()
    res = cx.res
    rng = random.Random(cx.seed * 13 + 3)
    pts = G.lattice(7 if cx.quick else 8, step=U)
    sets = [s for s in G.canonical_isets(pts, 3) if s]
    pairs = [(a, b) for a in sets for b in sets]
    if cx.quick:
        pairs = rng.sample(pairs, 1100)
    eps = {}

    def ep_of(a, col):
        k = (tuple(a), col)
        if k not in eps:
            eps[k] = mk_ep(nap, a, tagcol=col)
        return eps[k]
    for a, b in pairs:
        A, B = ep_of(a, "tag"), ep_of(b, "tagb")
        inp = {"A": a, "B": b}
        res.case(("setop", tuple(a), tuple(b)), nontrivial=any(s < e2 and s2 < e for s, e in a for s2, e2 in b))
        res.count("setop_pairs")
        # intersect
        r = call(cx, {"op": "intersect"}, inp, lambda: A.intersect(B))
        impl = canon_res(r, ("tag", "tagb")) if r is not None else "E"
        cx.corr("inter\t%s\t%s" % (obj_line(a), obj_line(b)), impl, dict(inp, op="intersect"))
        if r is not None and len(r):
            for col, orig in (("tag", a), ("tagb", b)):
                err = attach_err(r, orig, "inside", col)
                if err:
                    cx.viol({"op": "intersect", "side": col, "part": "lost" if err == "nometa" else "misattached"}, err, inp, impl)
        # set_diff
        r = call(cx, {"op": "set_diff"}, inp, lambda: A.set_diff(B))
        impl = canon_res(r) if r is not None else "E"
        cx.corr("diff\t%s\t%s" % (obj_line(a), C.fmt_iset(b)), impl, dict(inp, op="set_diff"))
        if r is not None and len(r):
            err = attach_err(r, a, "inside")
            if err:
                cx.viol({"op": "set_diff", "part": "lost" if err == "nometa" else "misattached"}, err, inp, impl)
            if any(any(s < e2 and s2 < e for s2, e2 in b) for s, e in ticks(r)):
                cx.viol({"op": "set_diff", "part": "intervals"}, "difference overlaps the subtrahend", inp, impl)
        # union drops
        r = call(cx, {"op": "union"}, inp, lambda: A.union(B))
        cx.corr("union\t%s\t%s" % (obj_line(a), obj_line(b)), canon_res(r) if r is not None else "E", dict(inp, op="union"))
        if r is not None and r.metadata_columns:
            cx.viol({"op": "union"}, "union returned metadata", inp, canon_res(r))
    for a in sets:
        A = ep_of(a, "tag")
        for b in (U, 2 * U, 3 * U):
            res.case(("split", tuple(a), b), nontrivial=any(e - s > b for s, e in a))
            res.count("split")
            r = call(cx, {"op": "split"}, {"A": a, "size": b}, lambda: A.split(b / 1e9))
            if r is None:
                continue
            impl = canon_res(r)
            cx.corr("split\t%s\t%d" % (obj_line(a), b), impl, {"op": "split", "A": a, "size": b})
            if len(r):
                err = attach_err(r, a, "inside")
                if err:
                    cx.viol({"op": "split", "part": "lost" if err == "nometa" else "misattached"}, err, {"A": a, "size": b}, impl)
            exp_n = sum((e - s) // b for s, e in a if e - s > b)
            if len(r) != exp_n:
                cx.viol({"op": "split", "part": "pieces"}, "split returned %d pieces, expected %d" % (len(r), exp_n), {"A": a, "size": b}, impl)
        for thr in (0, U, 2 * U):
            r = call(cx, {"op": "merge_close_intervals"}, {"A": a, "thr": thr}, lambda: A.merge_close_intervals(thr / 1e9))
            if r is None:
                continue
            res.case(("merge_close", tuple(a), thr), nontrivial=len(r) < len(a))
            cx.corr("merge_close\t%s\t%d" % (obj_line(a), thr), canon_res(r), {"op": "merge_close_intervals", "A": a, "thr": thr})
            if r.metadata_columns:
                cx.viol({"op": "merge_close_intervals"}, "merge_close_intervals returned metadata", {"A": a, "thr": thr})
        r = A.time_span()
        res.case(("time_span", tuple(a)), nontrivial=len(a) > 1)
        cx.corr("time_span\t%s" % obj_line(a), canon_res(r), {"op": "time_span", "A": a})
        if r.metadata_columns:
            cx.viol({"op": "time_span"}, "time_span returned metadata", {"A": a})
    # the same column name on both sides: the statement does not require a drop (the library warns and drops); whatever value
    # survives under that name must be the value of a parent (of A or of B) that contains the piece, never another interval's
    for a, b in rng.sample(pairs, 60):
        r = call(cx, {"op": "intersect", "columns": "same_name"}, {"A": a, "B": b}, lambda: ep_of(a, "tag").intersect(ep_of(b, "tag")))
        res.case(("setop_samecol", tuple(a), tuple(b)), nontrivial=True)
        if r is None:
            continue
        res.count("intersect_same_column_name_" + ("kept" if "tag" in r.metadata_columns else "dropped"))
        if "tag" in r.metadata_columns:
            for (s_, e_), t in zip(ticks(r), r.metadata["tag"].values):
                if not any(s0 // U == int(t) and s0 <= s_ and e_ <= e0 for s0, e0 in list(a) + list(b)):
                    cx.viol({"op": "intersect", "columns": "same_name", "part": "misattached"}, "piece (%d,%d) carries tag %d, which is not the tag of a parent containing it" % (s_, e_, int(t)),
                            {"A": a, "B": b}, canon_res(r))
                    break
    cx.flush()
    # sequences of three operations: tags still derive from the ORIGINAL A intervals (containment)
    ops = ["mask", "slice", "inter", "diff", "split"]
    nseq = 700 if cx.quick else 6000
    seqs = []
    for _ in range(nseq):
        a = rng.choice([s for s in sets if len(s) >= 2])
        steps = []
        for _k in range(NSTEPS):
            op = rng.choice(ops)
            if op == "mask":
                steps.append((op, [rng.random() < 0.6 for _ in range(8)]))
            elif op == "slice":
                steps.append((op, (rng.choice([None, 0, 1, -2]), rng.choice([None, 1, 2, -1, 5]))))
            elif op in ("inter", "diff"):
                steps.append((op, rng.choice(sets)))
            else:
                steps.append((op, rng.choice([U, 2 * U])))
        seqs.append((a, steps))
    state = []
    for a, steps in seqs:
        state.append({"a": a, "steps": steps, "obj": ep_of(a, "tag"), "model": ("K", a, [s // U for s, _ in a]), "alive": True})
    for k in range(NSTEPS):
        lines, idx = [], []
        for n_, st in enumerate(state):
            if not st["alive"]:
                continue
            op, arg = st["steps"][k]
            cur = st["obj"]
            kind, miv, mtags = st["model"]
            n = len(cur)
            try:
                if op == "mask":
                    m = arg[:n]
                    r = cur[np.array(m, dtype=bool)]
                    line = "get_pos\t%s\t%s\t%s" % (C.fmt_iset(miv), C.fmt_ints(mtags), C.fmt_ints([i for i, b in enumerate(m) if b]))
                elif op == "slice":
                    r = cur[arg[0]:arg[1]]
                    line = "get_pos\t%s\t%s\t%s" % (C.fmt_iset(miv), C.fmt_ints(mtags), C.fmt_ints(list(range(n))[arg[0]:arg[1]]))
                elif op == "inter":
                    r = cur.intersect(ep_of(arg, "tagb"))
                    line = "inter\t%s\t%s\t%s" % (C.fmt_iset(miv), C.fmt_ints(mtags), obj_line(arg))
                elif op == "diff":
                    r = cur.set_diff(ep_of(arg, "tagb"))
                    line = "diff\t%s\t%s\t%s" % (C.fmt_iset(miv), C.fmt_ints(mtags), C.fmt_iset(arg))
                else:
                    r = cur.split(arg / 1e9)
                    line = "split\t%s\t%s\t%d" % (C.fmt_iset(miv), C.fmt_ints(mtags), arg)
            except Exception as ex:
                cx.viol({"op": "sequence", "part": "exception", "step": op}, "raised " + type(ex).__name__, {"A": st["a"], "steps": st["steps"]})
                st["alive"] = False
                continue
            st["obj"] = r
            lines.append(line)
            idx.append(n_)
            if len(r):
                err = attach_err(r, st["a"], "inside")
                if err:
                    cx.viol({"op": "sequence", "step": op, "part": "lost" if err == "nometa" else "misattached"}, err, {"A": st["a"], "steps": st["steps"][:k + 1]}, canon_res(r))
                    st["alive"] = False
        out = C.run_model(lines, driver=D) if lines else []
        res.traces += len(lines)
        for n_, m in zip(idx, out):
            st = state[n_]
            r = st["obj"]
            impl = canon_res(r)
            f = m.split("|")
            if f[0] == "K" and st["steps"][k][0] == "inter":
                # model rows are (tagA, tagB) pairs: keep the A side
                t = f[3].split()
                m_cmp = "K|%s|%s|%s" % (f[1], f[2], " ".join(t[0::2]))
            else:
                m_cmp = m
            if m_cmp != impl:
                res.disagreements.append({"op": "sequence", "input": {"A": st["a"], "steps": st["steps"][:k + 1]}, "impl": impl, "model": m_cmp})
                st["alive"] = False
                continue
            if f[0] != "K" or not len(r):
                st["alive"] = False
                continue
            iv = [int(x) for x in f[1].split()]
            st["model"] = ("K", list(zip(iv[0::2], iv[1::2])), [int(x) for x in m_cmp.split("|")[3].split()])
    for a, steps in seqs:
        res.case(("seq", tuple(a), str(steps)), nontrivial=True)
        res.count("sequences_of_three_ops")


def frame_check(cx, nap, r, want, kk, inp, lab_of, f=lambda c: c, extra=None, by_label=False, strip_nonfinite=False):
    """statement-level oracle of the TsdFrame cases. Column j of every test frame holds the constant c_j in every row, its metadata is
    tag = 10 c_j, lab = 'm<c_j>' and lab_of[c_j] is its label: the data identifies the column, label and metadata must be that column's.
    want = constants of the expected columns in order; f = what the operation does to the data.
    extra = {metadata column: function(constant) -> value} (other dtypes); by_label: when no row is left to identify the columns by
    (empty frame), the labels must be the requested ones and the metadata must follow the labels; strip_nonfinite: the input holds rows
    made of NaN / +inf / -inf only, which are skipped (as rows of NaN always were)."""
    if not isinstance(r, nap.TsdFrame):
        cx.viol(dict(kk, part="type"), "result is not a TsdFrame", inp)
        return
    vals = r.values if len(r) else None
    if vals is not None:
        fv = np.asarray(vals, dtype=np.float64)
        vals = vals[~((~np.isfinite(fv)).all(axis=1) if strip_nonfinite else np.isnan(fv).all(axis=1))]   # bins holding no sample
    if vals is None or len(vals) == 0:
        if not by_label:
            return
        if list(r.columns) != [lab_of[c] for c in want]:
            cx.viol(dict(kk, part="columns"), "selected columns are not the requested ones (frame without samples: by label)", inp, list(r.columns), [lab_of[c] for c in want])
            return
    else:
        if not (vals == vals[0]).all():
            cx.viol(dict(kk, part="data"), "column data mixed", inp)
            return
        got = [int(v) for v in vals[0]]
        if got != [f(c) for c in want]:
            cx.viol(dict(kk, part="columns"), "selected columns are not the requested ones", inp, got, [f(c) for c in want])
            return
    if list(r.columns) != [lab_of[c] for c in want]:
        cx.viol(dict(kk, part="labels_misattached"), "column labels do not follow the column data", inp, list(r.columns), [lab_of[c] for c in want])
    md = r.metadata
    if "tag" not in md.columns:
        cx.viol(dict(kk, part="lost"), "column metadata lost", inp)
        return
    if list(md.index) != list(r.columns):
        cx.viol(dict(kk, part="metadata_index"), "metadata index differs from the columns", inp, list(md.index), list(r.columns))
    if [int(t) for t in md["tag"].values] != [10 * c for c in want] or list(md["lab"].values) != ["m%d" % c for c in want]:
        cx.viol(dict(kk, part="misattached"), "column metadata does not follow the column data", inp, [int(t) for t in md["tag"].values], [10 * c for c in want])
    elif any(int(r.get_info("tag")[l]) != 10 * c for l, c in zip(r.columns, want)) and len(set(r.columns)) == len(want):
        cx.viol(dict(kk, part="misattached"), "get_info by label disagrees with the data", inp)
    for col, fn in (extra or {}).items():
        if col not in md.columns:
            cx.viol(dict(kk, part="lost"), "metadata column %s lost" % col, inp)
        elif not all(same_value(v, fn(c)) for v, c in zip(md[col].values, want)):
            cx.viol(dict(kk, part="misattached"), "metadata column %s does not follow the column data" % col, inp, repr(list(md[col].values))[:80], repr([fn(c) for c in want])[:80])


# ----------------------------------------------------------------------------------------------
# TsdFrame: column labels and column metadata follow the column's data
def run_frame(cx):
    nap, pd = _nap()
    res = cx.res
    rng = random.Random(cx.seed * 13 + 4)
    n = 4 if cx.quick else 5
    label_sets = {"default": list(range(n)), "permuted_int": [2, 0, 3, 1, 4][:n] if n == 5 else [2, 0, 3, 1],
                  "sparse_int": [10, 5, 7, 3, 8][:n], "str": ["a", "b", "c", "d", "e"][:n]}
    tt = [0, 2 * U, 4 * U, 6 * U]
    consts = [11 * (j + 1) for j in range(n)]
    sup = nap.IntervalSet(-1.0, 1.0)

    def code(l):
        return 100 + "abcde".index(l) if isinstance(l, str) else int(l)
    for lname, labs in label_sets.items():
        data = np.tile(np.array(consts, dtype=float), (len(tt), 1))
        grp = [j % 2 for j in range(n)]
        fr = nap.TsdFrame(t=G.arr(tt), d=data, columns=labs, time_support=sup,
                          metadata={"tag": [10 * c for c in consts], "lab": ["m%d" % c for c in consts], "grp": grp})
        lab_of = dict(zip(consts, labs))
        objl = "%s\t%s\t%s" % (C.fmt_ints([code(l) for l in labs]), C.fmt_ints(consts), C.fmt_ints([10 * c for c in consts]))

        def canon(r):
            if not isinstance(r, nap.TsdFrame):
                return "NOTFRAME"
            cs = [int(v) for v in r.values[0]] if len(r) else []
            md = r.metadata
            return "%s|%s|%s|%s" % (C.fmt_ints([code(l) for l in r.columns]), C.fmt_ints(cs), C.fmt_ints([code(l) for l in md.index]),
                                    C.fmt_ints(md["tag"].values) if "tag" in md.columns else "nometa")

        def check(r, want, kk, inp, f=lambda c: c):
            """want = constants of the expected columns in order; f = what the operation does to the data"""
            frame_check(cx, nap, r, want, kk, inp, lab_of, f)

        # positional column keys
        keys = []
        for m in range(1, n + 1):
            keys += [("list", list(p), list(p)) for p in itertools.permutations(range(n), m)]
        keys += [("list", [a - n, b], [a, b]) for a in range(n) for b in range(n) if a != b][:8]
        rngv = [None] + list(range(-n - 1, n + 2))
        sl = [(a, b, c) for a in rngv for b in rngv for c in (None, 1, 2, -1, -2)]
        for a, b, c in (rng.sample(sl, 120) if cx.quick else sl):
            keys.append(("slice", slice(a, b, c), list(range(n))[slice(a, b, c)]))
        for mask in itertools.product([False, True], repeat=n):
            ps = [i for i, b in enumerate(mask) if b]
            keys.append(("mask_ndarray", np.array(mask), ps))
            keys.append(("mask_list", list(mask), ps))
        for form, key, ps in keys:
            desc = [int(b) for b in key] if form.startswith("mask") else ([key.start, key.stop, key.step] if form == "slice" else key)
            inp = {"labels": labs, "form": form, "key": desc}
            res.count("frame_" + form)
            res.case(("frame", lname, form, str(desc)), nontrivial=0 < len(ps) and ps != list(range(n)))
            kk = {"op": "TsdFrame.__getitem__", "form": form}
            for rows, rname in ((slice(None), ":"), (slice(1, 3), "1:3")):
                try:
                    r = fr[rows, np.array(key) if form == "list" and rname == "1:3" else key]
                except Exception as ex:
                    cx.viol(dict(kk, part="exception"), "valid key raised " + type(ex).__name__, inp)
                    continue
                if len(ps) == 0:
                    continue
                check(r, [consts[p] for p in ps], kk, dict(inp, rows=rname))
                if rname == ":":
                    cx.corr("f_pos\t%s\t%s" % (objl, C.fmt_ints(ps)), canon(r), dict(inp, op="frame_get_pos"))
        # boolean pd.Series derived from the metadata (index = columns)
        for thr in consts + [0]:
            key = fr.tag > 10 * thr
            r = fr[key]
            ps = [j for j, c in enumerate(consts) if c > thr]
            res.case(("frame", lname, "series_mask", thr), nontrivial=0 < len(ps) < n)
            res.count("frame_series_mask")
            if ps:
                check(r, [consts[p] for p in ps], {"op": "TsdFrame.__getitem__", "form": "bool_series"}, {"labels": labs, "thr": thr})
                cx.corr("f_mask\t%s\t%s" % (objl, C.fmt_ints([int(c > thr) for c in consts])), canon(r), {"op": "frame_get_mask", "labels": labs, "thr": thr})
        # boolean pd.Series whose index is the column labels in ANOTHER order (a condition on re-ordered metadata). Which columns
        # such a key selects is not the statement's business (fr[:, key] takes the values by position, fr[key] reads it as a ROW
        # mask); the statement's demand is on what comes back: every returned column still has its own label and metadata row
        def check_attached(r, kk, inp):
            if not isinstance(r, nap.TsdFrame):
                cx.viol(dict(kk, part="type"), "result is not a TsdFrame", inp, type(r).__name__)
            elif len(r) and r.shape[1]:
                row = [int(v) for v in r.values[0]]
                if any(c not in consts for c in row):
                    cx.viol(dict(kk, part="data"), "column data is not an input column's", inp, row)
                else:
                    check(r, row, kk, inp)
        cperms = list(itertools.permutations(range(n)))
        cperms = rng.sample(cperms[1:], 6 if cx.quick else 40)
        for perm in cperms:
            for mask in itertools.product([False, True], repeat=n):
                if not any(mask):
                    continue
                key = pd.Series(list(mask), index=[labs[i] for i in perm])
                for form, fn in (("bool_series_permuted_index", lambda: fr[key]), (":,bool_series_permuted_index", lambda: fr[:, key])):
                    inp = {"labels": labs, "form": form, "mask_index": [labs[i] for i in perm], "mask": [int(b) for b in mask]}
                    res.count("frame_" + form)
                    res.case(("frame", lname, form, perm, mask), nontrivial=True)
                    kk = {"op": "TsdFrame.__getitem__", "form": form}
                    try:
                        r = fn()
                    except Exception as ex:
                        if form[0] == ":":
                            cx.viol(dict(kk, part="exception"), "valid key raised " + type(ex).__name__, inp)
                        else:   # read as a row mask of the wrong length when the frame is not square: no object is produced
                            res.count("observed:frame_bare_bool_series_permuted_index_read_as_row_mask_raises")
                        continue
                    if form[0] != ":" and isinstance(r, nap.TsdFrame) and r.shape[1] == n and len(r) != len(fr):
                        res.count("observed:frame_bare_bool_series_permuted_index_selected_rows")
                    check_attached(r, kk, inp)
        # NumPy functions that move the data columns (same shape, so the library keeps labels and metadata in the OLD order)
        rev = list(range(n))[::-1]
        for fname, fn, order in (("flip", lambda: np.flip(fr, axis=1), rev), ("fliplr", lambda: np.fliplr(fr), rev),
                                 ("roll", lambda: np.roll(fr, 1, axis=1), [n - 1] + list(range(n - 1))), ("take", lambda: np.take(fr, rev, axis=1), rev)):
            res.case(("frame", lname, "numpy_column_permutation", fname), nontrivial=True)
            res.count("frame_numpy_column_permutation")
            kk = {"op": "TsdFrame.numpy_column_permutation", "function": fname, "axis": 1}
            try:
                r = fn()
            except Exception as ex:
                cx.viol(dict(kk, part="exception"), "raised " + type(ex).__name__, {"labels": labs, "function": fname})
                continue
            if isinstance(r, nap.TsdFrame):   # a bare ndarray carries no labels: nothing can be misattached
                check(r, [consts[j] for j in order], kk, {"labels": labs, "function": "np.%s along axis 1" % fname})
        # label keys: loc (all label kinds) and [] (string labels)
        lkeys = []
        for m in range(2, n + 1):
            lkeys += [list(p) for p in itertools.permutations(range(n), m)]
        for p in lkeys:
            ks = [labs[i] for i in p]
            forms = [("loc", lambda: fr.loc[ks])]
            if lname == "str":
                forms.append(("getitem_labels", lambda: fr[ks]))
            for form, fn in forms:
                inp = {"labels": labs, "form": form, "key": ks}
                res.count("frame_" + form)
                res.case(("frame", lname, form, str(ks)), nontrivial=True)
                kk = {"op": "TsdFrame." + ("loc" if form == "loc" else "__getitem__"), "form": form}
                try:
                    r = fn()
                except Exception as ex:
                    cx.viol(dict(kk, part="exception"), "valid key raised " + type(ex).__name__, inp)
                    continue
                check(r, [consts[i] for i in p], kk, inp)
                cx.corr("f_labels\t%s\t%s" % (objl, C.fmt_ints([code(l) for l in ks])), canon(r), dict(inp, op="frame_get_labels"))
        for j, l in enumerate(labs):
            res.case(("frame", lname, "loc_scalar", str(l)), nontrivial=True)
            try:
                r = fr.loc[l]
            except Exception as ex:
                cx.viol({"op": "TsdFrame.loc", "form": "scalar", "part": "exception"}, "valid key raised " + type(ex).__name__, {"labels": labs, "key": l})
                continue
            if not (np.asarray(r.values) == consts[j]).all():
                cx.viol({"op": "TsdFrame.loc", "form": "scalar"}, "loc[label] is not that label's column", {"labels": labs, "key": l})
        # groupby
        for assign in itertools.product([0, 1], repeat=n):
            f2 = nap.TsdFrame(t=G.arr(tt), d=data, columns=labs, time_support=sup,
                              metadata={"tag": [10 * c for c in consts], "lab": ["m%d" % c for c in consts], "grp": list(assign)})
            res.case(("frame", lname, "groupby", assign), nontrivial=0 < sum(assign) < n)
            res.count("frame_groupby")
            groups = f2.groupby("grp")
            for v in set(assign):
                want = [j for j, a in enumerate(assign) if a == v]
                if sorted(int(i) for i in groups[v]) != want:
                    cx.viol({"op": "TsdFrame.groupby"}, "group positions are not the columns whose metadata value is the group's", {"labels": labs, "grp": assign})
                try:
                    r = f2.groupby("grp", get_group=v)
                except Exception as ex:
                    cx.viol({"op": "TsdFrame.groupby", "part": "exception"}, "get_group raised " + type(ex).__name__, {"labels": labs, "grp": assign, "group": v})
                    continue
                check(r, [consts[j] for j in want], {"op": "TsdFrame.groupby", "part": "get_group"}, {"labels": labs, "grp": assign, "group": v})
                cx.corr("f_labels\t%s\t%s" % (objl, C.fmt_ints([code(labs[j]) for j in want])), canon(r), {"op": "frame_groupby", "labels": labs, "grp": assign})
        # operations that keep every column: restrict, get, row slicing, arithmetic, ufuncs, bin_average, interpolate, save/load
        ep = nap.IntervalSet(G.arr([0, 4 * U]), G.arr([2 * U, 6 * U]))
        same = [("restrict", lambda: fr.restrict(ep), None), ("get", lambda: fr.get(0.0, 4 * U / 1e9), None), ("rows", lambda: fr[1:3], None),
                ("rows_mask", lambda: fr[np.array([True, False, True, True])], None),
                ("add", lambda: fr + 1, lambda c: c + 1), ("radd", lambda: 1 + fr, lambda c: c + 1), ("mul", lambda: fr * 2, lambda c: 2 * c),
                ("neg", lambda: -fr, lambda c: -c), ("ufunc", lambda: np.negative(fr), lambda c: -c), ("add_array", lambda: fr + np.ones(n), lambda c: c + 1),
                ("bin_average", lambda: fr.bin_average(4 * U / 1e9), None), ("interpolate", lambda: fr.interpolate(nap.Ts(G.arr([U, 3 * U]))), None),
                ("copy", lambda: fr.copy(), None), ("dropna", lambda: fr.dropna(), None), ("value_from", lambda: nap.Ts(G.arr([U, 5 * U])).value_from(fr), None)]
        for nm, fn, f in same:
            res.case(("frame", lname, nm), nontrivial=True)
            res.count("frame_same_columns_op")
            try:
                r = fn()
            except Exception as ex:
                cx.viol({"op": "TsdFrame." + nm, "part": "exception"}, "raised " + type(ex).__name__ + ": " + str(ex)[:80], {"labels": labs})
                continue
            check(r, consts, {"op": "TsdFrame." + nm}, {"labels": labs}, f or (lambda c: c))
            if f is None and nm in ("restrict", "get", "rows", "copy"):
                cx.corr("f_map\t%s" % objl, canon(r), {"op": "frame_map", "via": nm, "labels": labs})
        # then index the result of an operation (sequence of two operations)
        for p in rng.sample(lkeys, 12):
            r = (fr.restrict(ep) * 1)[:, list(p)]
            res.case(("frame", lname, "seq", str(p)), nontrivial=True)
            check(r, [consts[i] for i in p], {"op": "TsdFrame.sequence"}, {"labels": labs, "key": list(p)})
            r2 = r[:, ::-1]
            check(r2, [consts[i] for i in reversed(p)], {"op": "TsdFrame.sequence"}, {"labels": labs, "key": list(p), "then": "::-1"})
        with tempfile.TemporaryDirectory() as d:
            fr.save(os.path.join(d, "f.npz"))
            r = nap.load_file(os.path.join(d, "f.npz"))
            res.case(("frame", lname, "save_load"), nontrivial=True)
            res.count("save_load")
            if lname == "str":
                check(r, consts, {"op": "TsdFrame.save_load"}, {"labels": labs})
            else:
                lab_of2 = dict(lab_of)
                check(r, consts, {"op": "TsdFrame.save_load"}, {"labels": labs})
    cx.flush()


def member_resid(ts):
    """every member of a test group has its spikes at (16 m + r) U (+ a multiple of 16 U): r identifies the member"""
    return None if len(ts) == 0 else (C.to_ns(ts.t[0]) // U) % 16


def group_check(cx, nap, g, want, kk, inp, resid=member_resid, canon=None, extra=None):
    """statement-level oracle of the TsGroup cases. want: list of (key, residue) expected, sorted by key; residue None = do not care about
    key identity (reset_index). The member under a key is recognised by the residue r of its spike times; its metadata row must be
    tag = 10 r, lab = 'n<r>' (+ extra = {column: function(r) -> value}); an empty member cannot be recognised and is skipped."""
    if not isinstance(g, nap.TsGroup):
        cx.viol(dict(kk, part="type"), "result is not a TsGroup", inp)
        return
    ks = list(g.keys())
    if ks != [k for k, _ in want]:
        cx.viol(dict(kk, part="keys"), "keys of the result are not the requested ones", inp, ks, [k for k, _ in want])
        return
    md = g.metadata
    if "tag" not in md.columns:
        cx.viol(dict(kk, part="lost"), "member metadata lost", inp)
        return
    if list(md.index) != ks:
        cx.viol(dict(kk, part="metadata_index"), "metadata index differs from the keys", inp, list(md.index), ks)
    for i, (k, r) in enumerate(want):
        rr = resid(g[k])
        if rr is None:
            continue
        if r is not None and rr != r:
            cx.viol(dict(kk, part="member_misattached"), "key %d holds the spikes of another member" % k, inp)
        if int(md["tag"].values[i]) != 10 * rr or md["lab"].values[i] != "n%d" % rr:
            cx.viol(dict(kk, part="misattached"), "key %d (member residue %d) carries tag %d" % (k, rr, int(md["tag"].values[i])), inp, canon(g) if canon else None)
        elif int(g.get_info("tag")[k]) != 10 * rr:
            cx.viol(dict(kk, part="misattached"), "get_info by key disagrees with the member", inp)
        for col, fn in (extra or {}).items():
            if col not in md.columns:
                cx.viol(dict(kk, part="lost"), "metadata column %s lost" % col, inp)
            elif not same_value(md[col].values[i], fn(rr)):
                cx.viol(dict(kk, part="misattached"), "key %d (member residue %d): column %s holds %r, given %r" % (k, rr, col, md[col].values[i], fn(rr)), inp)


# ----------------------------------------------------------------------------------------------
# TsGroup: members and their metadata follow the key
def run_group(cx):
    nap, pd = _nap()
    res = cx.res
    rng = random.Random(cx.seed * 13 + 5)
    n = 4 if cx.quick else 5
    key_sets = {"range": list(range(n)), "sparse": [1, 3, 7, 12, 20][:n]}
    sup = nap.IntervalSet(-1.0, 1.0)

    def member(r):  # spikes at (16 m + r) U : every spike identifies the member
        return nap.Ts(G.arr([(16 * m + r) * U for m in range(4)]), time_support=sup)

    def resid(ts):
        return None if len(ts) == 0 else (C.to_ns(ts.t[0]) // U) % 16

    def mk(keys, resids, grp=None):
        md = {"tag": [10 * r for r in resids], "lab": ["n%d" % r for r in resids]}
        if grp is not None:
            md["grp"] = list(grp)
        return nap.TsGroup({k: member(r) for k, r in zip(keys, resids)}, time_support=sup, metadata=md)

    def canon(g):
        if not isinstance(g, nap.TsGroup):
            return "NOTGROUP"
        md = g.metadata
        return "%s|%s|%s|%s" % (C.fmt_ints(g.keys()), C.fmt_ints([resid(g[k]) if resid(g[k]) is not None else -1 for k in g.keys()]), C.fmt_ints(md.index),
                                C.fmt_ints(md["tag"].values) if "tag" in md.columns else "nometa")

    def check(g, want, kk, inp):
        """want: list of (key, residue) expected, sorted by key; residue None = do not care about key identity (reset_index)"""
        group_check(cx, nap, g, want, kk, inp, resid, canon)

    for kname, keys in key_sets.items():
        resids = [(3 * j + 2) % 16 for j in range(n)]
        g = mk(keys, resids, [j % 2 for j in range(n)])
        rk = dict(zip(keys, resids))
        objl = "%s\t%s\t%s" % (C.fmt_ints(keys), C.fmt_ints(resids), C.fmt_ints([10 * r for r in resids]))
        check(g, list(zip(keys, resids)), {"op": "TsGroup.__init__"}, {"keys": keys})
        # key lists in every order, masks, Series masks
        subs = []
        for m in range(1, n + 1):
            subs += [list(p) for p in itertools.permutations(range(n), m)]
        for p in subs:
            ks = [keys[i] for i in p]
            for form, key in (("list", ks), ("ndarray", np.array(ks))):
                inp = {"keys": keys, "form": form, "key": ks}
                res.count("group_" + form)
                res.case(("group", kname, form, str(ks)), nontrivial=len(ks) < n or ks != sorted(ks))
                kk = {"op": "TsGroup.__getitem__", "form": form}
                try:
                    r = g[key]
                except Exception as ex:
                    cx.viol(dict(kk, part="exception"), "valid key raised " + type(ex).__name__, inp)
                    continue
                check(r, [(k, rk[k]) for k in sorted(ks)], kk, inp)
                cx.corr("g_keys\t%s\t%s" % (objl, C.fmt_ints(ks)), canon(r), dict(inp, op="group_get_keys"))
        for mask in itertools.product([False, True], repeat=n):
            if not any(mask):
                continue
            want = [(k, rk[k]) for k, b in zip(keys, mask) if b]
            for form, key in (("mask_ndarray", np.array(mask)), ("mask_list", list(mask)), ("bool_series", pd.Series(list(mask), index=keys))):
                inp = {"keys": keys, "form": form, "mask": [int(b) for b in mask]}
                res.count("group_" + form)
                res.case(("group", kname, form, mask), nontrivial=sum(mask) < n)
                kk = {"op": "TsGroup.__getitem__", "form": form}
                try:
                    r = g[key]
                except Exception as ex:
                    cx.viol(dict(kk, part="exception"), "valid key raised " + type(ex).__name__, inp)
                    continue
                check(r, want, kk, inp)
                cx.corr("g_mask\t%s\t%s" % (objl, C.fmt_ints([int(b) for b in mask])), canon(r), dict(inp, op="group_get_mask"))
        # boolean pd.Series whose index is the keys in another order, pd.Index / integer Series of keys in any order: whichever members
        # come back, each key still holds its own member and its own metadata row
        gperms = rng.sample(list(itertools.permutations(range(n)))[1:], 6 if cx.quick else 40)
        for perm in gperms:
            for mask in itertools.product([False, True], repeat=n):
                if not any(mask):
                    continue
                inp = {"keys": keys, "form": "bool_series_permuted_index", "mask_index": [keys[i] for i in perm], "mask": [int(b) for b in mask]}
                res.count("group_bool_series_permuted_index")
                res.case(("group", kname, "bool_series_permuted_index", perm, mask), nontrivial=True)
                kk = {"op": "TsGroup.__getitem__", "form": "bool_series_permuted_index"}
                try:
                    r = g[pd.Series(list(mask), index=[keys[i] for i in perm])]
                except Exception as ex:
                    cx.viol(dict(kk, part="exception"), "valid key raised " + type(ex).__name__, inp)
                    continue
                if isinstance(r, nap.TsGroup) and len(r) != sum(mask):
                    cx.viol(dict(kk, part="keys"), "a mask with %d True values returned %d members" % (sum(mask), len(r)), inp)
                check(r, [(k, rk[k]) for k in (r.keys() if isinstance(r, nap.TsGroup) else [])], kk, inp)
        for p in subs:
            if len(p) < 2:
                continue
            ks = [keys[i] for i in p]
            for form, key in (("pd.Index", pd.Index(ks)), ("pd.Series_int", pd.Series(ks)), ("pd.Series_int_own_index", pd.Series(ks, index=[7 - 2 * i for i in range(len(ks))]))):
                inp = {"keys": keys, "form": form, "key": ks}
                res.count("group_" + form)
                res.case(("group", kname, form, str(ks)), nontrivial=True)
                kk = {"op": "TsGroup.__getitem__", "form": form}
                try:
                    r = g[key]
                except Exception as ex:
                    cx.viol(dict(kk, part="exception"), "valid key raised " + type(ex).__name__, inp)
                    continue
                check(r, [(k, rk[k]) for k in sorted(ks)], kk, inp)
        for k in keys:
            res.case(("group", kname, "scalar", k), nontrivial=True)
            if resid(g[k]) != rk[k]:
                cx.viol({"op": "TsGroup.__getitem__", "form": "scalar"}, "g[key] is not that key's member", {"keys": keys, "key": k})
        # getby_threshold / getby_category / getby_intervals / groupby
        for thr in sorted(10 * r for r in resids):
            for op, f in ((">", lambda a, b: a > b), ("<", lambda a, b: a < b), (">=", lambda a, b: a >= b), ("<=", lambda a, b: a <= b)):
                want = [(k, rk[k]) for k in keys if f(10 * rk[k], thr)]
                res.case(("group", kname, "getby_threshold", thr, op), nontrivial=0 < len(want) < n)
                res.count("group_getby_threshold")
                if not want:
                    continue
                r = g.getby_threshold("tag", thr, op)
                check(r, want, {"op": "TsGroup.getby_threshold"}, {"keys": keys, "thr": thr, "cmp": op})
        for assign in itertools.product([0, 1], repeat=n):
            g2 = mk(keys, resids, assign)
            res.case(("group", kname, "getby_category", assign), nontrivial=0 < sum(assign) < n)
            res.count("group_getby_category")
            cat = g2.getby_category("grp")
            grp = g2.groupby("grp")
            for v in set(assign):
                want = [(k, rk[k]) for k, a in zip(keys, assign) if a == v]
                check(cat[v], want, {"op": "TsGroup.getby_category"}, {"keys": keys, "grp": assign, "group": v})
                check(g2.groupby("grp", get_group=v), want, {"op": "TsGroup.groupby", "part": "get_group"}, {"keys": keys, "grp": assign, "group": v})
                if sorted(int(i) for i in grp[v]) != [k for k, _ in want]:
                    cx.viol({"op": "TsGroup.groupby"}, "group keys are not the members whose metadata value is the group's", {"keys": keys, "grp": assign})
        sl, _ = g.getby_intervals("tag", np.array([0, 45, 95, 200]))
        for part in sl:
            res.case(("group", kname, "getby_intervals", len(part)), nontrivial=True)
            check(part, [(k, rk[k]) for k in part.keys()], {"op": "TsGroup.getby_intervals"}, {"keys": keys})
        # operations that keep every member: restrict, get, save/load
        ep = nap.IntervalSet(G.arr([10 * U, 40 * U]), G.arr([30 * U, 70 * U]))
        src = nap.Tsd(G.arr([0, 80 * U]), np.array([1.0, 2.0]), time_support=sup)
        for nm, fn in (("restrict", lambda: g.restrict(ep)), ("get", lambda: g.get(20 * U / 1e9, 60 * U / 1e9)), ("value_from", lambda: g.value_from(src)),
                       ("restrict_then_keys", lambda: g.restrict(ep)[[keys[-1], keys[0]]])):
            res.case(("group", kname, nm), nontrivial=True)
            res.count("group_same_members_op")
            try:
                r = fn()
            except Exception as ex:
                cx.viol({"op": "TsGroup." + nm, "part": "exception"}, "raised " + type(ex).__name__, {"keys": keys})
                continue
            want = list(zip(keys, resids)) if nm != "restrict_then_keys" else [(keys[0], resids[0]), (keys[-1], resids[-1])]
            check(r, want, {"op": "TsGroup." + nm}, {"keys": keys})
            if nm in ("restrict", "get"):
                cx.corr("g_map\t%s" % objl, canon(r), {"op": "group_map", "via": nm, "keys": keys})
        with tempfile.TemporaryDirectory() as d:
            g.save(os.path.join(d, "g.npz"))
            r = nap.load_file(os.path.join(d, "g.npz"))
            res.case(("group", kname, "save_load"), nontrivial=True)
            res.count("save_load")
            check(r, list(zip(keys, resids)), {"op": "TsGroup.save_load"}, {"keys": keys})
        # merge_group: every split of the members into two groups (interleaved keys included), both index modes
        for assign in itertools.product([0, 1], repeat=n):
            if sum(assign) in (0, n):
                continue
            k1 = [k for k, a in zip(keys, assign) if a == 0]
            k2 = [k for k, a in zip(keys, assign) if a == 1]
            interleaved = max(k1) > min(k2)
            for order in ("12", "21"):
                ka, kb = (k1, k2) if order == "12" else (k2, k1)
                inter = max(ka) > min(kb)
                for reset in (False, True):
                    for ign in (False, True):
                        ga, gb = mk(ka, [rk[k] for k in ka]), mk(kb, [rk[k] for k in kb])
                        inp = {"keys_1": ka, "keys_2": kb, "reset_index": reset, "ignore_metadata": ign}
                        res.case(("group", kname, "merge", assign, order, reset, ign), nontrivial=True)
                        res.count("group_merge" + ("_keys_not_ascending" if inter else ""))
                        kk = {"op": "TsGroup.merge_group", "reset_index": reset, "ignore_metadata": ign, "keys": "concatenation_not_sorted" if inter else "ascending"}
                        try:
                            if order == "12":
                                r = nap.TsGroup.merge_group(ga, gb, reset_index=reset, ignore_metadata=ign)
                            else:
                                r = ga.merge(gb, reset_index=reset, ignore_metadata=ign)
                        except Exception as ex:
                            r = None
                            cx.viol(dict(kk, part="exception"), "merge of groups with disjoint keys raised %s: %s" % (type(ex).__name__, str(ex)[:60]), inp)
                        if not ign:
                            cx.corr("g_merge\t%d\t%s\t%s\t%s\t%s\t%s\t%s" % (int(reset), C.fmt_ints(ka), C.fmt_ints([rk[k] for k in ka]), C.fmt_ints([10 * rk[k] for k in ka]),
                                                                          C.fmt_ints(kb), C.fmt_ints([rk[k] for k in kb]), C.fmt_ints([10 * rk[k] for k in kb])),
                                    "E" if r is None else canon(r), dict(inp, op="group_merge"))
                        if r is not None and not ign:
                            want = [(i, None) for i in range(n)] if reset else sorted([(k, rk[k]) for k in ka + kb])
                            check(r, want, kk, inp)
                        if r is not None and ign and [c for c in r.metadata_columns if c != "rate"]:
                            cx.viol(dict(kk, part="ignore"), "ignore_metadata kept metadata", inp)
                        # the operands must still be intact (sequence: merge, then index an operand)
                        for gx, kx, nm in ((ga, ka, "first"), (gb, kb, "second")):
                            try:
                                sub = gx[[kx[0]]]
                                bad = int(sub.metadata["tag"].values[0]) != 10 * rk[kx[0]] or list(gx.metadata.index) != kx
                            except Exception:
                                bad = True
                            if bad:
                                cx.viol(dict(kk, part="operand_corrupted", operand=nm), "after merge_group the %s operand's metadata no longer follows its keys" % nm, inp,
                                        list(gx.metadata.index), kx)
        # merge_group of THREE groups: every split of the members into three non-empty groups, two argument orders, both index modes
        for assign in itertools.product([0, 1, 2], repeat=n):
            if len(set(assign)) < 3:
                continue
            parts = [[k for k, a in zip(keys, assign) if a == c] for c in (0, 1, 2)]
            for order in ((0, 1, 2), (2, 0, 1)):
                ksl = [parts[c] for c in order]
                cat = [k for ks in ksl for k in ks]
                inter = cat != sorted(cat)
                for reset in (False, True):
                    gs = [mk(ks, [rk[k] for k in ks]) for ks in ksl]
                    inp = {"keys_list": ksl, "reset_index": reset, "ignore_metadata": False}
                    res.case(("group", kname, "merge3", assign, order, reset), nontrivial=True)
                    res.count("group_merge_three" + ("_keys_not_ascending" if inter else ""))
                    kk = {"op": "TsGroup.merge_group", "operands": 3, "reset_index": reset, "ignore_metadata": False, "keys": "concatenation_not_sorted" if inter else "ascending"}
                    try:
                        r = nap.TsGroup.merge_group(*gs, reset_index=reset) if order[0] == 0 else gs[0].merge(gs[1], gs[2], reset_index=reset)
                    except Exception as ex:
                        cx.viol(dict(kk, part="exception"), "merge of groups with disjoint keys raised %s: %s" % (type(ex).__name__, str(ex)[:60]), inp)
                        continue
                    check(r, [(i, None) for i in range(n)] if reset else sorted((k, rk[k]) for k in cat), kk, inp)
                    if reset and isinstance(r, nap.TsGroup) and sorted(x for x in (resid(r[k]) for k in r.keys()) if x is not None) != sorted(rk[k] for k in cat):
                        cx.viol(dict(kk, part="members"), "the merged group does not hold each operand member exactly once", inp, canon(r))
                    for gx, kx, nm in zip(gs, ksl, ("first", "second", "third")):
                        if list(gx.metadata.index) != kx or [int(t) for t in gx.metadata["tag"].values] != [10 * rk[k] for k in kx]:
                            cx.viol(dict(kk, part="operand_corrupted", operand=nm), "after merge_group the %s operand's metadata no longer follows its keys" % nm, inp, list(gx.metadata.index), kx)
    cx.flush()


# ==============================================================================================
# WIDENED ARGUMENT FORMS (third-round lesson: a defect hides in the form of the input the harness never builds).
# Axes: dtype of the metadata values / of the frame data, container and scalar forms of time arguments and keys, positional vs
# keyword, time units, time placement (negative, straddling 0, 1e5 s), degenerate objects, every accepted class, histories.
OFFS = {"origin": 0, "straddle0": -5 * U, "negative": -64 * U, "plus1e5s": 10 ** 14}      # all multiples of U: tag = start // U still identifies
XKINDS = {"float_nan": lambda t: float("nan") if t % 3 == 0 else (t % 1000) + 0.5,
          "bool": lambda t: t % 2 == 0,
          "object_mixed": lambda t: (t % 1000) if t % 2 == 0 else "o%d" % t,
          "float32": lambda t: (t % 1000) / 4.0,
          "int8": lambda t: t % 100}
TFORMS = ["ndarray", "list", "tuple", "pd.Series", "pd.Index", "TsIndex_and_t", "ms", "us", "pairs_ndarray", "pairs_list", "shared_views", "dataframe", "positional"]
AFORMS = ["ctor_dict_list", "ctor_dict_ndarray", "ctor_dict_tuple", "ctor_dict_series", "ctor_dataframe", "set_info_dict", "set_info_kwargs",
          "set_info_dataframe", "set_info_series", "setattr", "setitem"]
TAGDT = ["pyint", "int64", "int32", "int16", "uint8", "uint64", "float64", "float32"]


def wide_geo(kind, n, off):
    if kind == "separated":
        iv = [(4 * i * U, (4 * i + 2) * U) for i in range(n)]
    elif kind == "1us_gaps":
        iv = [(2 * i * U, (2 * i + 2) * U - (US if i < n - 1 else 0)) for i in range(n)]
    else:   # "varied": durations U, 2U, 3U, U, ... separated by U
        iv, x = [], 0
        for i in range(n):
            iv.append((x, x + (1 + i % 3) * U))
            x += (2 + i % 3) * U
    return [(s + off, e + off) for s, e in iv]


def _container(v, how, pd):
    if how == "list":
        return list(v)
    if how == "tuple":
        return tuple(v)
    if how == "ndarray":
        return v if isinstance(v, np.ndarray) else (np.array(v, dtype=object) if any(isinstance(x, str) for x in v) and not all(isinstance(x, str) for x in v) else np.array(v))
    if how == "series":
        return pd.Series(v if isinstance(v, np.ndarray) else list(v))
    raise ValueError(how)


def mk_ep_form(nap, pd, ivs, tform, aform, tagdt, xkind):
    """the IntervalSet `ivs` with the metadata columns tag (= start // U, dtype tagdt), lab, grp, xtr (kind xkind), built through one
    of the constructor's time-argument forms and one of the ways of attaching metadata. Returns (object, forms actually used)"""
    n = len(ivs)
    st, en = [s for s, _ in ivs], [e for _, e in ivs]
    tags = [s // U for s in st]
    tagv = list(tags)
    if tagdt != "pyint":
        with np.errstate(all="ignore"):
            a = np.array(tags, dtype=np.int64).astype(tagdt)
        if [int(x) for x in a] == tags:
            tagv = a
        else:
            tagdt = "pyint"
    fn = XKINDS[xkind]
    xv = [fn(t) for t in tags]
    if xkind in ("float32", "int8", "bool"):
        xv = np.array(xv, dtype={"float32": np.float32, "int8": np.int8, "bool": bool}[xkind])
    cols = {"tag": tagv, "lab": ["s%d" % t for t in tags], "grp": [i % 2 for i in range(n)], "xtr": xv}
    S, E, units = G.arr(st), G.arr(en), "s"
    if tform == "ms":
        S, E, units = np.array(st, dtype=np.float64) / 1e6, np.array(en, dtype=np.float64) / 1e6, "ms"
    elif tform == "us":
        S, E, units = np.array(st, dtype=np.float64) / 1e3, np.array(en, dtype=np.float64) / 1e3, "us"
    if tform == "dataframe":
        df = pd.DataFrame({"start": S, "end": E})
        for k, v in cols.items():
            df[k] = v if isinstance(v, np.ndarray) else list(v)
        return nap.IntervalSet(df), ("dataframe", "dataframe_columns", tagdt)
    how = {"ctor_dict_list": "list", "ctor_dict_ndarray": "ndarray", "ctor_dict_tuple": "tuple", "ctor_dict_series": "series", "set_info_dict": "list",
           "set_info_kwargs": "ndarray", "set_info_series": "series", "setattr": "list", "setitem": "tuple"}.get(aform)
    if aform in ("ctor_dataframe", "set_info_dataframe"):
        md = pd.DataFrame({k: (v if isinstance(v, np.ndarray) else list(v)) for k, v in cols.items()})
    else:
        md = {k: _container(v, how, pd) for k, v in cols.items()}
    cmd = md if aform.startswith("ctor") else None
    keep = None
    if tform in ("pairs_ndarray", "pairs_list"):
        pairs = np.column_stack([S, E]) if tform == "pairs_ndarray" else [(float(a), float(b)) for a, b in zip(S, E)]
        ep = nap.IntervalSet(pairs, metadata=cmd)
    elif tform == "positional":
        ep = nap.IntervalSet(S, E, "s", cmd)
    else:
        if tform == "list":
            a0, a1 = [float(x) for x in S], [float(x) for x in E]
        elif tform == "tuple":
            a0, a1 = tuple(float(x) for x in S), tuple(float(x) for x in E)
        elif tform == "pd.Series":
            a0, a1 = pd.Series(S), pd.Series(E, index=list(range(7, 7 + n)))      # the Series' own index plays no role
        elif tform == "pd.Index":
            a0, a1 = pd.Index(S), pd.Index(E)
        elif tform == "TsIndex_and_t":
            a0, a1 = nap.Ts(S).index, nap.Ts(E).t
        elif tform == "shared_views":
            keep = nap.IntervalSet(S, E)          # a live object whose array the new one is built from (strided views)
            a0, a1 = keep.start, keep.end
        else:
            a0, a1 = S, E
        ep = nap.IntervalSet(start=a0, end=a1, time_units=units, metadata=cmd)
    if cmd is None:
        if aform == "set_info_dict":
            ep.set_info(md)
        elif aform == "set_info_dataframe":
            ep.set_info(md)
        elif aform in ("set_info_kwargs", "set_info_series"):
            ep.set_info(**md)
        elif aform == "setattr":
            for k, v in md.items():
                setattr(ep, k, v)
        else:
            for k, v in md.items():
                ep[k] = v
    return ep, (tform, aform, tagdt)


def judge_sel(cx, r, ivs, ps, kk, inp, extra, nap):
    """the clauses of run_iset_index for one selection result: kept metadata is attached to the same interval; an order-preserving
    selection keeps it; the intervals are the requested ones"""
    if not isinstance(r, nap.IntervalSet):
        cx.viol(dict(kk, part="type"), "result is not an IntervalSet", inp, type(r).__name__)
        return
    impl = canon_res(r)
    err = attach_err(r, ivs, "same", extra=extra)
    if err == "nometa":
        if ps and strictly_inc(ps):
            cx.viol(dict(kk, part="lost"), "order-preserving selection lost its metadata", inp, impl)
    elif err:
        cx.viol(dict(kk, part="misattached"), err, inp, impl)
    if ps is not None and strictly_inc(ps) and [t[0] for t in ticks(r)] != [ivs[p][0] for p in ps]:
        cx.viol(dict(kk, part="intervals"), "selected intervals are not the requested ones", inp, impl)


def wide_pos_keys(n, pd, rng, count):
    """(form, key, positions, description, documented) for NumPy integer dtypes / NumPy scalars / lists of NumPy scalars / pandas objects
    of small dtypes / non-contiguous arrays; documented=False: a form the signature does not promise (clean exception or the statement)"""
    out = []
    for _ in range(count):
        m = rng.randint(1, min(n, 4))
        kind = rng.choice(["increasing", "any", "negative"])
        l = sorted(rng.sample(range(n), m)) if kind != "any" else rng.sample(range(n), m)
        if kind == "negative":
            l = [p - n for p in l]
        ps = [p % n for p in l]
        dts = ["int64", "int32", "int16", "int8"] + (["uint8", "uint16", "uint32", "uint64"] if min(l) >= 0 else [])
        dt = rng.choice(dts)
        f = rng.choice(["ndarray", "list_np", "pd.Index", "pd.Series", "noncontiguous", "scalar"])
        if f == "ndarray":
            out.append(("ndarray_" + dt, np.array(l, dtype=dt), ps, l, True))
        elif f == "list_np":
            out.append(("list_of_np." + dt, [np.dtype(dt).type(x) for x in l], ps, l, True))
        elif f == "pd.Index":
            out.append(("pd.Index_" + dt, pd.Index(np.array(l, dtype=dt)), ps, l, True))
        elif f == "pd.Series":
            out.append(("pd.Series_" + dt, pd.Series(np.array(l, dtype=dt), index=[3 * i + 1 for i in range(m)]), ps, l, True))
        elif f == "noncontiguous":
            big = np.zeros(2 * m, dtype=dt)
            big[::2] = l
            out.append(("ndarray_strided_" + dt, big[::2], ps, l, True))
        else:
            out.append(("scalar_np." + dt, np.dtype(dt).type(l[0]), [ps[0]], l[0], True))
    k = rng.randrange(n)
    out.append(("0d_array", np.array(k), [k], k, False))
    a, b = sorted((rng.randrange(n + 1), rng.randrange(n + 1)))
    out.append(("range", range(a, b), list(range(a, b)), [a, b], False))
    out.append(("ndarray_empty_int", np.array([], dtype=np.int64), [], [], True))
    return out


def probe_get_info(cx, obj, cls, idx, tags, vdesc, rng, pd):
    """the reading side: get_info with every documented key form (index value, list / ndarray / Series of index values, slice, (index, column),
    column name(s)) returns the value given for THAT element. idx = the metadata index (positions / labels / keys), tags = the tag given to each"""
    res = cx.res
    n = len(idx)
    j, k = rng.randrange(n), rng.randrange(n)
    a, b = sorted((rng.randrange(n + 1), rng.randrange(n + 1)))
    forms = [("index_value", lambda: obj.get_info(idx[j])["tag"], tags[j]), ("list_of_index_values", lambda: list(obj.get_info([idx[j], idx[k]])["tag"]), [tags[j], tags[k]]),
             ("ndarray_of_index_values", lambda: list(obj.get_info(np.array([idx[k], idx[j]]))["tag"]), [tags[k], tags[j]]),
             ("tuple_index_column", lambda: obj.get_info((idx[j], "tag")), tags[j]), ("tuple_list_columns", lambda: list(obj.get_info(([idx[j], idx[k]], ["tag"]))["tag"]), [tags[j], tags[k]]),
             ("slice", lambda: list(obj.get_info(slice(a, b))["tag"]), tags[a:b]), ("column", lambda: list(obj.get_info("tag")), list(tags)),
             ("column_list", lambda: list(obj.get_info(["lab", "tag"])["tag"]), list(tags)), ("item", lambda: list(obj["tag"]), list(tags)), ("attribute", lambda: list(obj.tag), list(tags)),
             ("pd.Index_of_index_values", lambda: list(obj.get_info(pd.Index([idx[j], idx[k]]))["tag"]), [tags[j], tags[k]])]
    if isinstance(idx[0], str):
        forms = [f for f in forms if f[0] not in ("ndarray_of_index_values",)] + [("list_of_labels", lambda: list(obj.get_info([idx[j], idx[k]])["tag"]), [tags[j], tags[k]])]
    if isinstance(idx[0], float):
        forms = [f for f in forms if f[0] != "slice"] + [("slice", lambda: list(obj.get_info(slice(a, b))["tag"]), tags[a:b])]
    for fname, fn, want in forms:
        res.count("wide_get_info_%s_%s" % (cls, fname))
        res.case(("wide_get_info", cls, fname, str(vdesc.get("labels", vdesc.get("keys", vdesc.get("intervals", ""))))[:60], j, k, a, b), nontrivial=True)
        kk = {"op": cls + ".get_info", "form": fname, "widened": True}
        try:
            got = fn()
            got = [int(x) for x in got] if isinstance(want, list) else int(got)
        except Exception as ex:
            cx.viol(dict(kk, part="exception"), "raised %s: %s" % (type(ex).__name__, str(ex)[:80]), dict(vdesc, index=[idx[j], idx[k]], slice=[a, b]))
            continue
        if got != want:
            cx.viol(dict(kk, part="misattached"), "get_info returned another element's value", dict(vdesc, index=[idx[j], idx[k]], slice=[a, b]), got, want)


def run_iset_forms(cx):
    nap, pd = _nap()
    res = cx.res
    rng = random.Random(cx.seed * 13 + 6)
    nvar = 10 if cx.quick else 60
    variants = [("origin", 1, "separated"), ("negative", 1, "separated"), ("straddle0", 2, "varied"), ("plus1e5s", 12, "varied")]
    while len(variants) < nvar:
        variants.append((rng.choice(list(OFFS)), rng.choice([2, 3, 4, 4, 5, 6]), rng.choice(["separated", "1us_gaps", "varied"])))
    tforms, aforms, tagdts, xkinds = list(TFORMS), list(AFORMS), list(TAGDT), list(XKINDS)
    for f in (tforms, aforms, tagdts, xkinds):
        rng.shuffle(f)
    for vi, (oname, n, gname) in enumerate(variants):
        off = OFFS[oname]
        ivs = wide_geo(gname, n, off)
        tform, aform, tagdt, xkind = tforms[vi % len(tforms)], aforms[(vi + vi // len(aforms)) % len(aforms)], tagdts[vi % len(tagdts)], xkinds[vi % len(xkinds)]
        extra = {"xtr": XKINDS[xkind]}
        vdesc = {"offset": oname, "n": n, "geometry": gname, "time_form": tform, "attach_form": aform, "tag_dtype": tagdt, "xtr": xkind}
        kk0 = {"op": "IntervalSet.__init__", "time_form": tform, "attach_form": aform, "widened": True}
        try:
            ep, used = mk_ep_form(nap, pd, ivs, tform, aform, tagdt, xkind)
        except Exception as ex:
            cx.viol(dict(kk0, part="exception"), "building canonical intervals with metadata raised %s: %s" % (type(ex).__name__, str(ex)[:80]), dict(vdesc, intervals=ivs))
            continue
        res.count("wide_iset_time_form_" + used[0]); res.count("wide_iset_attach_form_" + used[1]); res.count("wide_iset_tag_dtype_" + used[2])
        res.count("wide_iset_xtr_" + xkind); res.count("wide_iset_offset_" + oname); res.count("wide_iset_n_%d" % n)
        res.case(("wide_iset", vi, oname, n, gname, tform, aform, tagdt, xkind), nontrivial=True)
        base = dict(vdesc, intervals=ivs)
        err = attach_err(ep, ivs, "same", extra=extra)
        if err or len(ep) != n:
            cx.viol(dict(kk0, part="lost" if err == "nometa" else "misattached"), "metadata given with canonical intervals is not attached to them: %s" % err, base, canon_res(ep))
            continue
        cx.corr("get_pos\t%s\t%s" % (obj_line(ivs), C.fmt_ints(range(n))), canon_res(ep), dict(base, op="wide_iset_build"))
        tag_of = [s // U for s, _ in ivs]
        # ---- keys of NumPy dtypes, NumPy scalars, pandas objects of small dtypes, strided arrays; bare and in the tuple form [key, :]
        for form, key, ps, desc, documented in wide_pos_keys(n, pd, rng, 12 if cx.quick else 40):
            for tup in (False, True):
                full = form + (",:" if tup else "")
                inp = dict(base, form=full, key=desc)
                res.count("wide_iset_key_" + ("undocumented_" if not documented else "") + form.split("_")[0] + (",:" if tup else ""))
                res.case(("wide_iset", vi, full, str(desc)), nontrivial=bool(ps) and (len(ps) < n or not strictly_inc(ps)))
                kk = {"op": "IntervalSet.__getitem__", "form": full, "widened": True}
                try:
                    r = ep[key, :] if tup else ep[key]
                except Exception as ex:
                    if documented:
                        cx.viol(dict(kk, part="exception"), "valid key raised %s: %s" % (type(ex).__name__, str(ex)[:60]), inp)
                    else:
                        res.count("observed:iset_%s_raises_%s" % (form, type(ex).__name__))
                    continue
                judge_sel(cx, r, ivs, ps, kk, inp, extra, nap)
                if documented and isinstance(r, nap.IntervalSet):
                    cx.corr("get_pos\t%s\t%s" % (obj_line(ivs), C.fmt_ints(ps)), canon_res(r), dict(inp, op="wide_iset_get_pos"))
            if form.startswith("ndarray_empty") or (cx.quick and rng.random() < 0.5):
                continue
            # the same row key with metadata column(s)
            for cform, colsk in (("str", "tag"), ("metadata_columns", ["xtr", "tag"]), ("all_columns", ["start", "end", "tag", "lab", "grp", "xtr"])):
                full = "%s,%s" % (form, cform)
                inp = dict(base, form=full, key=desc, columns=colsk)
                kk = {"op": "IntervalSet.__getitem__", "form": full, "columns": cform, "widened": True}
                res.count("wide_iset_key_rows,columns")
                res.case(("wide_iset", vi, full, str(desc)), nontrivial=True)
                try:
                    r = ep[key, colsk]
                except Exception as ex:
                    if documented:
                        cx.viol(dict(kk, part="exception"), "valid key raised %s: %s" % (type(ex).__name__, str(ex)[:60]), inp)
                    continue
                if cform == "all_columns":
                    judge_sel(cx, r, ivs, ps, kk, inp, extra, nap)
                    continue
                try:
                    if cform == "str":
                        got = [int(x) for x in np.atleast_1d(np.asarray(r))]
                        want = [tag_of[p] for p in ps]
                    else:
                        arr = np.asarray(r, dtype=object)
                        arr = arr.reshape(1, -1) if arr.ndim == 1 else arr
                        got = [int(b) for a, b in arr]
                        want = [tag_of[p] for p in ps]
                        if not all(same_value(a, XKINDS[xkind](int(b))) for a, b in arr):
                            cx.viol(dict(kk, part="misattached"), "the two metadata columns returned for a row belong to different intervals", inp, repr(arr.tolist())[:120])
                except Exception as ex:
                    cx.viol(dict(kk, part="type"), "result cannot be read as metadata values: %s" % type(ex).__name__, inp, repr(r)[:80])
                    continue
                if got != want:
                    cx.viol(dict(kk, part="misattached"), "metadata returned for the row key is not that of the intervals the same row key selects", inp, got, want)
        # ---- boolean keys computed from the metadata itself (the natural use), as Series, ndarray, list of np.bool_
        conds = []
        for thr in rng.sample(tag_of, min(3, n)):
            sel = [t > thr for t in tag_of]
            conds += [("attr_gt", lambda thr=thr: ep.tag > thr, sel), ("getitem_gt_values", lambda thr=thr: (ep["tag"] > thr).values, sel),
                      ("get_info_list_np_bool", lambda thr=thr: list(ep.get_info("tag").values > thr), sel)]
        conds += [("grp_eq", lambda: ep.grp == 1, [i % 2 == 1 for i in range(n)]), ("metadata_frame_cond", lambda: ep.metadata["grp"] == 0, [i % 2 == 0 for i in range(n)]),
                  ("lab_isin", lambda: ep.lab.isin(["s%d" % t for t in tag_of[::2]]), [i % 2 == 0 for i in range(n)])]
        for cname, mk, sel in conds:
            ps = [i for i, b in enumerate(sel) if b]
            for tup in (False, True):
                full = "mask_from_metadata_" + cname + (",:" if tup else "")
                inp = dict(base, form=full, mask=[int(b) for b in sel])
                kk = {"op": "IntervalSet.__getitem__", "form": full, "widened": True}
                res.count("wide_iset_key_mask_from_metadata")
                res.case(("wide_iset", vi, full, tuple(sel)), nontrivial=0 < len(ps) < n)
                try:
                    key = mk()
                    r = ep[key, :] if tup else ep[key]
                except Exception as ex:
                    cx.viol(dict(kk, part="exception"), "valid key raised %s: %s" % (type(ex).__name__, str(ex)[:60]), inp)
                    continue
                judge_sel(cx, r, ivs, ps, kk, inp, extra, nap)
                if any(sel) and "nometa" == attach_err(r, ivs, "same"):
                    cx.viol(dict(kk, part="lost"), "mask selection lost its metadata", inp, canon_res(r))
                cx.corr("get_pos\t%s\t%s" % (obj_line(ivs), C.fmt_ints(ps)), canon_res(r), dict(inp, op="wide_iset_mask"))
        probe_get_info(cx, ep, "IntervalSet", list(range(n)), tag_of, base, rng, pd)
        wide_iset_ops(cx, nap, pd, ep, ivs, extra, base, vi, rng)
    cx.flush()


def wide_iset_ops(cx, nap, pd, ep, ivs, extra, base, vi, rng):
    """the IntervalSet operations of the statement on one widened object: parameters positional and by keyword, the three time units,
    scalar forms, the other classes an operand may have (no metadata, empty, the object itself, an object sharing its memory), histories"""
    import pathlib
    res = cx.res
    n = len(ivs)
    tag_of = [s // U for s, _ in ivs]
    lo, hi = ivs[0][0], ivs[-1][1]

    def sel(r, ps, op, form, inp=None, **kw):
        kk = dict({"op": op, "form": form, "widened": True}, **kw)
        res.count("wide_%s_%s" % (op.replace("IntervalSet.", "iset_"), form))
        res.case(("wide_iset", vi, op, form, str(ps)), nontrivial=True)
        judge_sel(cx, r, ivs, ps, kk, dict(base, form=form, **(inp or {})), extra, nap)

    def attempt(op, form, fn, inp=None):
        try:
            return fn()
        except Exception as ex:
            cx.viol({"op": op, "form": form, "part": "exception", "widened": True}, "raised %s: %s" % (type(ex).__name__, str(ex)[:80]), dict(base, **dict(inp or {}, form=form)))
            return None

    # ---- groupby: `by` as str / list / two columns, get_group positional / keyword, groupby_apply with and without input_key
    gforms = [("by_str_positional", lambda v: ep.groupby("grp", v)), ("by_list_keyword", lambda v: ep.groupby(by=["grp"], get_group=v)),
              ("by_str_keyword", lambda v: ep.groupby(by="grp", get_group=v)), ("groupby_apply", lambda v: ep.groupby_apply("grp", lambda x: x)[v]),
              ("groupby_apply_input_key", lambda v: ep.groupby_apply("grp", (lambda x, y=None: x), input_key="x", y=1)[v]),
              ("groups_then_index", lambda v: ep[ep.groupby("grp")[v]]), ("groups_as_list_then_tuple_index", lambda v: ep[list(ep.groupby(["grp"])[v]), :])]
    for v in sorted({i % 2 for i in range(n)}):
        want = [i for i in range(n) if i % 2 == v]
        for gname, fn in (rng.sample(gforms, 3) if cx.quick else gforms):
            r = attempt("IntervalSet.groupby", gname, lambda: fn(v), {"group": v})
            if r is not None:
                sel(r, want, "IntervalSet.groupby", gname, {"group": v})
                if not isinstance(r, nap.IntervalSet) or "grp" not in r.metadata_columns or [int(x) for x in r.metadata["grp"]] != [v] * len(want):
                    cx.viol({"op": "IntervalSet.groupby", "form": gname, "part": "get_group", "widened": True}, "the group's members do not all carry the group's value", dict(base, group=v))
    i = rng.randrange(n)
    r = attempt("IntervalSet.groupby", "by_two_columns", lambda: ep.groupby(["grp", "lab"], (i % 2, "s%d" % tag_of[i])), {"group": i})
    if r is not None:
        sel(r, [i], "IntervalSet.groupby", "by_two_columns", {"group": i})
    # ---- drop_short / drop_long: the threshold in s / ms / us, positional and keyword, Python int / float / NumPy scalars
    for thr_us in rng.sample([1000, 2500, 3905, 3906, 4500, 6000], 2 if cx.quick else 4):
        thr = thr_us * 1000
        calls = [("s_positional_float", lambda f: f(thr_us / 1e6)), ("ms_positional", lambda f: f(thr_us / 1e3, "ms")), ("us_positional_int", lambda f: f(thr_us, "us")),
                 ("us_keyword_np.int64", lambda f: f(threshold=np.int64(thr_us), time_units="us")), ("ms_keyword_np.float32", lambda f: f(np.float32(thr_us / 1e3), time_units="ms")),
                 ("s_keyword_np.float64", lambda f: f(threshold=np.float64(thr_us / 1e6), time_units="s"))]
        for cname, callf in rng.sample(calls, 2 if cx.quick else 6):
            for nm in ("drop_short_intervals", "drop_long_intervals"):
                want = [j for j, (s, e) in enumerate(ivs) if ((e - s) > thr if nm[5] == "s" else (e - s) < thr)]
                r = attempt("IntervalSet." + nm, cname, lambda: callf(getattr(ep, nm)), {"threshold_us": thr_us})
                if r is not None:
                    sel(r, want, "IntervalSet." + nm, cname, {"threshold_us": thr_us})
                    if want and isinstance(r, nap.IntervalSet) and attach_err(r, ivs, "same") == "nometa":
                        cx.viol({"op": "IntervalSet." + nm, "form": cname, "part": "lost", "widened": True}, "metadata lost", dict(base, threshold_us=thr_us))
    # ---- split: the size in s / ms / us, positional and keyword; merge_close_intervals / time_span / union drop
    for b in (U, 2 * U):
        calls = [("s_positional", lambda: ep.split(b / 1e9)), ("ms_positional", lambda: ep.split(b / 1e6, "ms")), ("us_keyword", lambda: ep.split(interval_size=b / 1e3, time_units="us")),
                 ("s_keyword_np.float64", lambda: ep.split(interval_size=np.float64(b / 1e9), time_units="s"))]
        for cname, fn in rng.sample(calls, 2):
            r = attempt("split", cname, fn, {"size": b})
            res.count("wide_iset_split_" + cname)
            res.case(("wide_iset", vi, "split", cname, b), nontrivial=any(e - s > b for s, e in ivs))
            if r is None:
                continue
            impl = canon_res(r)
            cx.corr("split\t%s\t%d" % (obj_line(ivs), b), impl, dict(base, op="wide_split", form=cname, size=b))
            if len(r):
                err = attach_err(r, ivs, "inside", extra=extra)
                if err:
                    cx.viol({"op": "split", "form": cname, "part": "lost" if err == "nometa" else "misattached", "widened": True}, err, dict(base, size=b), impl)
            exp_n = sum((e - s) // b for s, e in ivs if e - s > b)
            if len(r) != exp_n:
                cx.viol({"op": "split", "form": cname, "part": "pieces", "widened": True}, "split returned %d pieces, expected %d" % (len(r), exp_n), dict(base, size=b), impl)
    empty = nap.IntervalSet([], [])
    for cname, fn, line in (("merge_close_s", lambda: ep.merge_close_intervals(U / 1e9), "merge_close\t%s\t%d" % (obj_line(ivs), U)),
                            ("merge_close_ms_positional", lambda: ep.merge_close_intervals(U / 1e6, "ms"), "merge_close\t%s\t%d" % (obj_line(ivs), U)),
                            ("merge_close_us_keyword", lambda: ep.merge_close_intervals(threshold=0, time_units="us"), "merge_close\t%s\t0" % obj_line(ivs)),
                            ("time_span", lambda: ep.time_span(), "time_span\t%s" % obj_line(ivs)),
                            ("union_with_itself", lambda: ep.union(ep), "union\t%s\t%s" % (obj_line(ivs), obj_line(ivs))),
                            ("union_with_empty", lambda: ep.union(empty), None), ("empty_union", lambda: empty.union(ep), None)):
        r = attempt("drops", cname, fn)
        res.count("wide_iset_dropping_op_" + cname)
        res.case(("wide_iset", vi, "drops", cname), nontrivial=True)
        if r is None:
            continue
        if line is not None:
            cx.corr(line, canon_res(r), dict(base, op="wide_" + cname))
        if r.metadata_columns:   # the statement: these operations drop metadata entirely (also when the other operand is empty or the object itself)
            cx.viol({"op": "union" if "union" in cname else "merge_close_intervals" if "merge_close" in cname else cname, "form": cname, "widened": True}, "returned metadata", base, canon_res(r))
    # ---- save / load (str with and without extension, pathlib.Path), then index the loaded object
    with tempfile.TemporaryDirectory() as d:
        for pname, path in (("str_npz", os.path.join(d, "a.npz")), ("str_no_extension", os.path.join(d, "b")), ("pathlib", pathlib.Path(d) / "c.npz")):
            if rng.random() < 0.5 and pname != "str_npz":
                continue
            r = attempt("IntervalSet.save_load", pname, lambda: (ep.save(path), nap.load_file(str(path) if str(path).endswith(".npz") else str(path) + ".npz"))[1])
            if r is not None:
                sel(r, list(range(n)), "IntervalSet.save_load", pname)
                if isinstance(r, nap.IntervalSet) and (len(r) != n or attach_err(r, ivs, "same") == "nometa"):
                    cx.viol({"op": "IntervalSet.save_load", "form": pname, "part": "lost", "widened": True}, "save / load lost intervals or metadata", base, canon_res(r))
                elif isinstance(r, nap.IntervalSet) and n > 1:
                    sel(r[np.array([n - 1], dtype=np.int32)], [n - 1], "IntervalSet.save_load", pname + "_then_index")
    # ---- loc, lists of column names, DataFrame round trip, IntervalSet(IntervalSet)
    l = sorted(rng.sample(range(n), rng.randint(1, n)))
    r = attempt("IntervalSet.loc", "list", lambda: ep.loc[l], {"key": l})
    if r is not None:
        sel(r, l, "IntervalSet.loc", "list", {"key": l})
    p = rng.randrange(n)
    v = attempt("IntervalSet.loc", "scalar", lambda: (ep.loc[p, "tag"], ep.loc[p, "start"], ep.loc[p, "xtr"], list(ep.loc["tag"]), ep.loc[p]), {"key": p})
    res.case(("wide_iset", vi, "loc_scalar", p), nontrivial=True)
    if v is not None and not (int(v[0]) == tag_of[p] and C.to_ns(v[1]) == ivs[p][0] and same_value(v[2], extra["xtr"](tag_of[p])) and [int(x) for x in v[3]] == tag_of
                              and [C.to_ns(x) for x in v[4]] == list(ivs[p])):
        cx.viol({"op": "IntervalSet.loc", "form": "scalar", "widened": True}, "loc[i, column] / loc[column] / loc[i] is not interval i's value", dict(base, key=p), repr(v)[:120])
    cols = ["start", "end", "tag", "lab", "grp", "xtr"]
    rng.shuffle(cols)
    for cname, fn in (("column_list_shuffled", lambda: ep[cols]), ("dataframe_round_trip", lambda: nap.IntervalSet(ep.as_dataframe())),
                      ("dataframe_round_trip_reversed_rows", lambda: nap.IntervalSet(ep.as_dataframe().iloc[::-1])),
                      ("from_IntervalSet", lambda: nap.IntervalSet(ep)), ("metadata_property_reattached", lambda: nap.IntervalSet(ep.start, ep.end, metadata=ep.metadata))):
        if cx.quick and rng.random() < 0.4:
            continue
        r = attempt("IntervalSet.rebuild", cname, fn, {"columns": cols})
        if r is not None:
            # IntervalSet(IntervalSet) is a construction the statement does not list among the preserving operations: it may drop, never misattach
            sel(r, None if cname == "from_IntervalSet" else list(range(n)), "IntervalSet.rebuild", cname, {"columns": cols})
            if isinstance(r, nap.IntervalSet) and ticks(r) != list(ivs):
                cx.viol({"op": "IntervalSet.rebuild", "form": cname, "part": "intervals", "widened": True}, "the rebuilt object does not hold the same intervals", base, canon_res(r))
            if cname != "from_IntervalSet" and isinstance(r, nap.IntervalSet) and attach_err(r, ivs, "same") == "nometa":
                cx.viol({"op": "IntervalSet.rebuild", "form": cname, "part": "lost", "widened": True}, "metadata lost", base)
    # ---- set operations with the object itself, a part of it sharing memory, an operand without metadata, an empty operand
    cover = nap.IntervalSet(G.arr([lo - U]), G.arr([hi + U]))
    far = nap.IntervalSet(G.arr([hi + 3 * U]), G.arr([hi + 5 * U]), metadata={"tagb": [5]})
    odd = [j for j in range(n) if j % 2 == 1]
    even = [j for j in range(n) if j % 2 == 0]
    sub = ep[1::2] if odd else None
    subb = nap.IntervalSet(sub.start, sub.end, metadata={"tagb": np.array([tag_of[j] for j in odd]), "labb": ["s%d" % tag_of[j] for j in odd]}) if odd else None
    allp = list(range(n))
    kpart = n // 2
    partial = nap.IntervalSet(G.arr([ivs[kpart][0]]), G.arr([hi + U]))      # without metadata, covering the intervals kpart.. exactly
    sops = [("intersect_partial_cover_without_metadata", lambda: ep.intersect(partial), allp[kpart:], True), ("partial_cover_without_metadata_intersect", lambda: partial.intersect(ep), allp[kpart:], True),
            ("set_diff_partial_cover", lambda: ep.set_diff(partial), allp[:kpart], True),
            ("intersect_cover_without_metadata", lambda: ep.intersect(cover), allp, True), ("cover_without_metadata_intersect", lambda: cover.intersect(ep), allp, True),
            ("intersect_keyword", lambda: ep.intersect(a=cover), allp, True), ("set_diff_far", lambda: ep.set_diff(far), allp, True), ("set_diff_keyword_empty", lambda: ep.set_diff(a=empty), allp, True),
            ("intersect_empty", lambda: ep.intersect(empty), [], True), ("empty_intersect", lambda: empty.intersect(ep), [], True), ("empty_set_diff", lambda: empty.set_diff(ep), [], True),
            ("set_diff_itself", lambda: ep.set_diff(ep), [], True), ("set_diff_cover", lambda: ep.set_diff(cover), [], True),
            ("intersect_itself", lambda: ep.intersect(ep), allp, False)]       # same column names on both sides: a drop is allowed, a wrong value is not
    if odd:
        sops += [("intersect_part_sharing_memory", lambda: ep.intersect(subb), odd, True), ("part_sharing_memory_intersect", lambda: subb.intersect(ep), odd, True),
                 ("set_diff_part_sharing_memory", lambda: ep.set_diff(subb), even, True), ("set_diff_own_slice", lambda: ep.set_diff(sub), even, True)]
    for cname, fn, ps, must_keep in (rng.sample(sops, 8) if cx.quick else sops):
        r = attempt("setop", cname, fn)
        res.count("wide_iset_setop_" + cname)
        res.case(("wide_iset", vi, "setop", cname), nontrivial=bool(ps))
        if r is None:
            continue
        if not isinstance(r, nap.IntervalSet):
            cx.viol({"op": "setop", "form": cname, "part": "type", "widened": True}, "result is not an IntervalSet", base)
            continue
        impl = canon_res(r)
        if [t for t in ticks(r)] != [ivs[j] for j in ps]:
            cx.viol({"op": "setop", "form": cname, "part": "intervals", "widened": True}, "the pieces are not the expected intervals", base, impl)
            continue
        if not ps:
            continue
        err = attach_err(r, ivs, "same", extra=extra if must_keep else None)
        if err and (must_keep or err != "nometa"):
            cx.viol({"op": "setop", "form": cname, "part": "lost" if err == "nometa" else "misattached", "widened": True}, err, base, impl)
        if "part_sharing_memory" in cname and "intersect" in cname:
            err = attach_err(r, [ivs[j] for j in odd], "same", "tagb")
            if err:
                cx.viol({"op": "setop", "form": cname, "side": "tagb", "part": "lost" if err == "nometa" else "misattached", "widened": True}, err, base, impl)
            cx.corr("inter\t%s\t%s" % ((obj_line(ivs), obj_line([ivs[j] for j in odd])) if cname.startswith("intersect") else (obj_line([ivs[j] for j in odd]), obj_line(ivs))),
                    canon_res(r, ("tag", "tagb") if cname.startswith("intersect") else ("tagb", "tag")), dict(base, op="wide_" + cname))
        elif cname in ("set_diff_far", "set_diff_part_sharing_memory", "set_diff_own_slice"):
            cx.corr("diff\t%s\t%s" % (obj_line(ivs), C.fmt_iset(ticks(far) if cname == "set_diff_far" else [ivs[j] for j in odd])), impl, dict(base, op="wide_" + cname))
    # the operands are still intact (the same live object was used many times)
    err = attach_err(ep, ivs, "same", extra=extra)
    if err or len(ep) != n:
        cx.viol({"op": "IntervalSet.operand_corrupted", "widened": True}, "after the operations above the object's own metadata is no longer attached: %s" % err, base, canon_res(ep))
    # ---- histories: three steps that each keep the surviving intervals unchanged, then the property's clauses on the end result
    steps = ["mask_from_metadata", "slice", "save_load", "columns", "dataframe_round_trip", "intersect_cover", "set_diff_far", "get_group", "drop_short_0us", "ndarray_uint8", "pd.Index_int32",
             "loc_list", "set_info_again"]
    for _h in range(4 if cx.quick else 20):
        cur, ps, hist = ep, list(range(n)), []
        for _k in range(3):
            st = rng.choice(steps)
            m = len(ps)
            try:
                if st == "mask_from_metadata":
                    thr = rng.choice([tag_of[j] for j in ps])
                    cur, ps = cur[cur.tag >= thr], [j for j in ps if tag_of[j] >= thr]
                elif st == "slice":
                    a, b = rng.choice([None, 0, 1, -2]), rng.choice([None, 1, 2, -1, 5])
                    cur, ps = cur[a:b], ps[a:b]
                elif st == "save_load":
                    with tempfile.TemporaryDirectory() as d:
                        cur.save(os.path.join(d, "h.npz"))
                        cur = nap.load_file(os.path.join(d, "h.npz"))
                elif st == "columns":
                    cur = cur[["xtr", "end", "lab", "start", "grp", "tag"]]
                elif st == "dataframe_round_trip":
                    cur = nap.IntervalSet(cur.as_dataframe())
                elif st == "intersect_cover":
                    cur = cur.intersect(cover)
                elif st == "set_diff_far":
                    cur = cur.set_diff(far)
                elif st == "get_group":
                    v = rng.choice([j % 2 for j in ps])
                    cur, ps = cur.groupby("grp", get_group=v), [j for j in ps if j % 2 == v]
                elif st == "drop_short_0us":
                    cur = cur.drop_short_intervals(0, time_units="us")
                elif st == "ndarray_uint8":
                    q = sorted(rng.sample(range(m), rng.randint(1, m)))
                    cur, ps = cur[np.array(q, dtype=np.uint8)], [ps[j] for j in q]
                elif st == "pd.Index_int32":
                    q = sorted(rng.sample(range(m), rng.randint(1, m)))
                    cur, ps = cur[pd.Index(np.array(q, dtype=np.int32)), :], [ps[j] for j in q]
                elif st == "loc_list":
                    q = sorted(rng.sample(range(m), rng.randint(1, m)))
                    cur, ps = cur.loc[q], [ps[j] for j in q]
                else:
                    cur.set_info(lab=["s%d" % tag_of[j] for j in ps])     # overwrite a column with the same values: nothing may move
            except Exception as ex:
                cx.viol({"op": "IntervalSet.history", "step": st, "part": "exception", "widened": True}, "raised %s: %s" % (type(ex).__name__, str(ex)[:80]), dict(base, steps=hist + [st]))
                cur = None
                break
            hist.append(st)
            if not ps:
                break
        res.count("wide_iset_histories")
        res.case(("wide_iset", vi, "history", tuple(hist)), nontrivial=True)
        if cur is None or not ps:
            continue
        kk = {"op": "IntervalSet.history", "step": hist[-1], "widened": True}
        judge_sel(cx, cur, ivs, ps, kk, dict(base, steps=hist), extra, nap)
        if isinstance(cur, nap.IntervalSet) and attach_err(cur, ivs, "same") == "nometa":
            cx.viol(dict(kk, part="lost"), "a history of metadata-preserving steps lost the metadata", dict(base, steps=hist), canon_res(cur))
        elif isinstance(cur, nap.IntervalSet):
            cx.corr("get_pos\t%s\t%s" % (obj_line(ivs), C.fmt_ints(ps)), canon_res(cur), dict(base, op="wide_history", steps=hist))


# ----------------------------------------------------------------------------------------------
# constructor, widened: every container / dtype / scalar form of start and end, the three units, positional and keyword
CTOR_FORMS = ["ndarray_float64", "ndarray_float32", "ndarray_int64", "ndarray_int32", "ndarray_int16", "ndarray_uint8", "ndarray_uint16", "ndarray_uint32", "ndarray_uint64",
              "list_int", "list_float", "tuple_float", "list_np_scalars", "pd.Series_int64", "pd.Series_float", "pd.Index_float", "pd.Index_int", "TsIndex_and_t", "pairs_ndarray_float",
              "pairs_ndarray_int", "pairs_list_of_tuples", "pairs_list_of_lists", "dataframe_float", "dataframe_int", "strided_view", "scalar"]


def run_ctor_forms(cx):
    """start / end on a 1 ms lattice (1 s for integers given in seconds) around an origin (0, straddling 0, negative, 1e5 s), the same instants
    written in s / ms / us: metadata is kept only when output interval i IS input interval i (the clauses of run_ctor), and the model agrees"""
    nap, pd = _nap()
    res = cx.res
    rng = random.Random(cx.seed * 13 + 7)
    base_cases = []
    for m in (1, 2, 3):
        for ss in itertools.product(range(5), repeat=m):
            for es in itertools.product(range(5), repeat=m):
                base_cases.append((list(ss), list(es)))
    canon = [c for c in base_cases if all(s < e for s, e in zip(*c)) and all(c[1][i] < c[0][i + 1] for i in range(len(c[0]) - 1))]
    ncase = 420 if cx.quick else 6000
    cases = [rng.choice(canon) if rng.random() < 0.45 else rng.choice(base_cases) for _ in range(ncase)]
    for ci, (ss0, es0) in enumerate(cases):
        m = len(ss0)
        form = CTOR_FORMS[ci % len(CTOR_FORMS)] if rng.random() < 0.7 else rng.choice(CTOR_FORMS)
        unit = rng.choice(["s", "ms", "us"])
        isint = any(x in form for x in ("int", "uint")) and "float" not in form and form != "list_np_scalars" or (form == "scalar" and rng.random() < 0.5)
        step = 10 ** 9 if (unit == "s" and isint) else 10 ** 6
        oname = rng.choice(["origin", "origin", "straddle0", "negative", "plus1e5s"])
        shift = {"origin": 0, "straddle0": -2, "negative": -7, "plus1e5s": 10 ** 14 // step}[oname]
        if "uint" in form and shift < 0:
            shift, oname = 0, "origin"
        ss, es = [(x + shift) * step for x in ss0], [(x + shift) * step for x in es0]      # ticks
        div = {"s": 10 ** 9, "ms": 10 ** 6, "us": 10 ** 3}[unit]

        def val(tk):   # the number the caller writes for the instant tk in the chosen unit
            return tk // div if isint else (float(G.arr([tk])[0]) if unit == "s" else tk / div)
        S, E = [val(x) for x in ss], [val(x) for x in es]
        tags = [7 + 3 * i for i in range(m)]
        mdform = rng.choice(["dict_list", "dict_ndarray", "dataframe", "dict_tuple"])
        md = {"dict_list": {"tag": list(tags)}, "dict_ndarray": {"tag": np.array(tags, dtype=np.int16)}, "dataframe": pd.DataFrame({"tag": tags}), "dict_tuple": {"tag": tuple(tags)}}[mdform]
        style = rng.choice(["keyword", "positional"])
        inp = {"start": ss, "end": es, "tags": tags, "form": form, "time_units": unit, "given_start": S, "given_end": E, "origin": oname, "metadata_form": mdform, "call": style}
        canonical = all(s < e for s, e in zip(ss, es)) and all(es[i] < ss[i + 1] for i in range(m - 1))
        sorted_in = all(a <= b for a, b in zip(ss, ss[1:])) and all(a <= b for a, b in zip(es, es[1:]))
        dfform = form.startswith("dataframe")
        a0 = a1 = None
        try:
            dt = form.split("_")[-1]
            if form.startswith("ndarray_"):
                if isint and not all(np.iinfo(dt).min <= v <= np.iinfo(dt).max for v in S + E):
                    dt = "uint64" if "uint" in dt else "int64"                                   # does not fit the small dtype
                    form = "ndarray_" + dt
                a0, a1 = np.array(S, dtype=dt), np.array(E, dtype=dt)
                if dt == "float32" and (unit == "s" or oname == "plus1e5s" or [float(v) for v in a0] != S or [float(v) for v in a1] != E):
                    a0, a1, form = np.array(S, dtype=np.float64), np.array(E, dtype=np.float64), "ndarray_float64"
            elif form in ("list_int", "list_float"):
                a0, a1 = list(S), list(E)
            elif form == "tuple_float":
                a0, a1 = tuple(S), tuple(E)
            elif form == "list_np_scalars":
                a0, a1 = [np.float64(v) for v in S], [np.float64(v) for v in E]
            elif form.startswith("pd.Series"):
                a0, a1 = pd.Series(S), pd.Series(E, index=[5 - i for i in range(m)])
            elif form.startswith("pd.Index"):
                a0, a1 = pd.Index(S), pd.Index(E)
            elif form == "TsIndex_and_t":
                if not sorted_in or unit != "s":
                    a0, a1, form = np.array(S, dtype=np.float64), np.array(E, dtype=np.float64), "ndarray_float64"
                else:
                    a0, a1 = nap.Ts(np.array(S)).index, nap.Ts(np.array(E)).t
            elif form.startswith("pairs_ndarray"):
                a0 = np.column_stack([np.array(S), np.array(E)])
            elif form == "pairs_list_of_tuples":
                a0 = list(zip(S, E))
            elif form == "pairs_list_of_lists":
                a0 = [[a, b] for a, b in zip(S, E)]
            elif dfform:
                a0 = pd.DataFrame({"start": S, "end": E, "tag": tags})
            elif form == "strided_view":
                big = np.zeros((m, 4))
                big[:, 1], big[:, 3] = S, E
                a0, a1 = big[:, 1], big[:, 3]
            else:   # scalar: one interval given by two numbers
                if m != 1:
                    a0, a1, form = np.array(S, dtype=np.float64), np.array(E, dtype=np.float64), "ndarray_float64"
                else:
                    sk = rng.choice(["python", "numpy", "0d_array", "numpy_small"])
                    form = "scalar_" + sk + ("_int" if isint else "_float")
                    cast = {"python": (int if isint else float), "numpy": (np.int64 if isint else np.float64), "0d_array": np.array,
                            "numpy_small": (np.int32 if isint else np.float64)}[sk]
                    a0, a1 = cast(S[0]), cast(E[0])
            pairs = form.startswith("pairs")
            if dfform:
                r = nap.IntervalSet(a0, time_units=unit) if style == "keyword" else nap.IntervalSet(a0, None, unit)
            elif pairs:
                r = nap.IntervalSet(a0, time_units=unit, metadata=md) if style == "keyword" else nap.IntervalSet(a0, None, unit, md)
            else:
                r = nap.IntervalSet(start=a0, end=a1, time_units=unit, metadata=md) if style == "keyword" else nap.IntervalSet(a0, a1, unit, md)
            impl = canon_res(r)
        except Exception as ex:
            r, impl = None, "E"
            cx.viol({"op": "IntervalSet.__init__", "form": form, "time_units": unit, "part": "exception", "widened": True}, "constructor raised %s: %s" % (type(ex).__name__, str(ex)[:80]), inp)
        inp["form"] = form
        kk = {"op": "IntervalSet.__init__", "form": "dataframe" if dfform else "arrays", "argument_form": form, "time_units": unit, "widened": True}
        res.case(("wide_ctor", tuple(ss), tuple(es), form, unit, style, mdform), nontrivial=not canonical)
        res.count("wide_ctor_form_" + form); res.count("wide_ctor_units_" + unit); res.count("wide_ctor_origin_" + oname); res.count("wide_ctor_call_" + style)
        res.count("wide_ctor_canonical" if canonical else "wide_ctor_needs_repair_or_sort")
        cx.corr("%s\t%s\t%s\t%s" % ("mk_df" if dfform else "mk", C.fmt_ints(ss), C.fmt_ints(es), C.fmt_ints(tags)), impl, dict(inp, op="wide_ctor"))
        if r is None:
            continue
        if "tag" in r.metadata_columns:
            got = list(zip(ticks(r), [int(t) for t in r.metadata["tag"].values]))
            given = {t: (s, e) for s, e, t in zip(ss, es, tags)}
            bad = [g for g in got if not (g[0][0] == given[g[1]][0] and g[0][1] == given[g[1]][1] - (US if given[g[1]][1] in ss else 0))]
            if bad or len(got) != m:
                cx.viol(dict(kk, part="misattached"), "constructor kept metadata although output intervals are not the input intervals: %s" % bad, inp, impl)
        elif canonical:
            cx.viol(dict(kk, part="lost"), "canonical input lost its metadata", inp, impl)
    cx.flush()


# ----------------------------------------------------------------------------------------------
# TsdFrame, widened: dtype of the data, container / unit / placement of the times, the ways of giving labels and metadata, degenerate frames,
# key dtypes, scalar operand forms, parameters positional and by keyword, histories
FRAME_DTYPES = ["float64", "float32", "int64", "int32", "int16", "int8", "uint8", "uint16", "uint64", "bool_pattern"]
FRAME_LABELS = {"default": lambda n: list(range(n)), "float": lambda n: [1.5, 2.5, 0.5, 3.5, 4.5][:n], "negative_int": lambda n: [-1, -3, 2, 0, -7][:n],
                "str_digits": lambda n: ["10", "9", "100", "1", "55"][:n], "str": lambda n: ["a", "b", "c", "d", "e"][:n], "sparse_int_unsorted": lambda n: [10, 5, 7, 3, 8][:n]}
FRAME_ROWS = ["4rows", "4rows", "4rows", "1row", "0rows", "equal_times", "nan_inf_rows"]
FRAME_TFORMS = ["ndarray", "list", "tuple", "pd.Series", "TsIndex", "other.t", "int64_ms", "uint16_us", "float32_ms", "ms_float", "dataframe_input", "positional"]
FRAME_AFORMS = ["ctor_dict_list", "ctor_dict_ndarray", "ctor_dict_tuple", "ctor_dataframe", "set_info_kwargs_series", "set_info_dataframe", "set_info_dict", "setattr", "setitem"]


def mk_frame_form(nap, pd, n, dtype, labs, rows, tform, aform, cform, off_ms, xkind):
    """a TsdFrame whose column j holds the constant 11 (j + 1) (bool_pattern: the bits of j + 1 down the rows), labels `labs`, metadata tag / lab / grp / xtr"""
    consts = [11 * (j + 1) for j in range(n)]
    nrow = {"4rows": 4, "1row": 1, "0rows": 0, "equal_times": 4, "nan_inf_rows": 4}[rows]
    tms = [off_ms + (0 if rows == "equal_times" else 4 * i) for i in range(nrow)]          # ms
    if dtype == "bool_pattern":
        D = np.array([[bool((j + 1) >> i & 1) for j in range(n)] for i in range(nrow)], dtype=bool).reshape(nrow, n)
    else:
        D = np.tile(np.array(consts, dtype=dtype), (nrow, 1))
        if rows == "nan_inf_rows":
            D[0, :] = np.nan
            D[2, :] = [np.inf if j % 2 else -np.inf for j in range(n)]
    sup = nap.IntervalSet((off_ms - 1000) / 1e3, (off_ms + 1000) / 1e3)
    tsec = G.arr([x * 10 ** 6 for x in tms])
    units = "s"
    if tform in ("int64_ms", "float32_ms", "ms_float"):
        t, units = np.array(tms, dtype={"int64_ms": np.int64, "float32_ms": np.float32, "ms_float": np.float64}[tform]), "ms"
        if tform == "float32_ms" and [float(x) for x in t] != [float(x) for x in tms]:
            t, tform = np.array(tms, dtype=np.float64), "ms_float"
    elif tform == "uint16_us":
        if tms and (min(tms) < 0 or max(tms) * 1000 > 65535):
            t, units, tform = np.array([x * 1000 for x in tms], dtype=np.int64), "us", "int64_us"
        else:
            t, units = np.array([x * 1000 for x in tms], dtype=np.uint16), "us"
    elif tform == "list":
        t = [float(x) for x in tsec]
    elif tform == "tuple":
        t = tuple(float(x) for x in tsec)
    elif tform == "pd.Series":
        t = pd.Series(tsec)
    elif tform == "TsIndex":
        t = nap.Tsd(tsec, np.zeros(nrow), time_support=sup).index          # another object's index (shared, not copied)
    elif tform == "other.t":
        t = nap.Ts(tsec, time_support=sup).t
    else:
        t = tsec
    fn = XKINDS[xkind]
    xv = [fn(c) for c in consts]
    if xkind in ("float32", "int8", "bool"):
        xv = np.array(xv, dtype={"float32": np.float32, "int8": np.int8, "bool": bool}[xkind])
    cols = {"tag": [10 * c for c in consts], "lab": ["m%d" % c for c in consts], "grp": [j % 2 for j in range(n)], "xtr": xv}
    how = {"ctor_dict_list": "list", "ctor_dict_ndarray": "ndarray", "ctor_dict_tuple": "tuple", "set_info_dict": "tuple", "setattr": "ndarray", "setitem": "list"}.get(aform)
    if aform in ("ctor_dataframe", "set_info_dataframe"):
        md = pd.DataFrame({k: (v if isinstance(v, np.ndarray) else list(v)) for k, v in cols.items()}, index=list(labs))
    elif aform == "set_info_kwargs_series":
        md = {k: pd.Series(v if isinstance(v, np.ndarray) else list(v), index=list(labs)) for k, v in cols.items()}
    else:
        md = {k: _container(v, how, pd) for k, v in cols.items()}
    cmd = md if aform.startswith("ctor") else None
    cobj = {"list": list(labs), "ndarray": np.array(labs), "pd.Index": pd.Index(labs), "tuple": tuple(labs)}[cform]
    if tform == "dataframe_input":
        df = pd.DataFrame(D, index=tsec, columns=list(labs))
        fr = nap.TsdFrame(df, time_support=sup, metadata=cmd)
    elif tform == "positional":
        fr = nap.TsdFrame(t, D, "s", sup, cobj, True, cmd)
    else:
        fr = nap.TsdFrame(t=t, d=D.tolist() if (tform == "list" and dtype == "float64") else D, time_units=units, time_support=sup, columns=cobj, metadata=cmd)
    if cmd is None:
        if aform in ("set_info_dataframe", "set_info_dict"):
            fr.set_info(md)
        elif aform == "set_info_kwargs_series":
            fr.set_info(**md)
        elif aform == "setattr":
            for k, v in md.items():
                setattr(fr, k, v)
        else:
            for k, v in md.items():
                fr[k] = v
    return fr, consts, sup, tform


def run_frame_forms(cx):
    nap, pd = _nap()
    res = cx.res
    rng = random.Random(cx.seed * 13 + 8)
    nvar = 14 if cx.quick else 80
    dts, lks, rws, tfs, afs, xks = list(FRAME_DTYPES), list(FRAME_LABELS), list(FRAME_ROWS), list(FRAME_TFORMS), list(FRAME_AFORMS), list(XKINDS)
    for f in (dts, lks, rws, tfs, afs, xks):
        rng.shuffle(f)
    for vi in range(nvar):
        dtype, lname, rows, tform, aform, xkind = dts[vi % len(dts)], lks[(vi + vi // len(lks)) % len(lks)], rws[vi % len(rws)], tfs[vi % len(tfs)], afs[(vi + vi // len(afs)) % len(afs)], xks[vi % len(xks)]
        n = rng.choice([1, 2, 4, 4, 5])
        if dtype == "bool_pattern":
            rows = "4rows"
        if tform == "dataframe_input" and lname in ("default", "str"):
            lname = "sparse_int_unsorted"      # labels read from the DataFrame: in an order that sorting would change
        if rows == "nan_inf_rows" and not dtype.startswith("float"):
            rows = "4rows"
        cform = rng.choice(["list", "ndarray", "pd.Index", "tuple"])
        off_ms = rng.choice([0, 0, -6, -500, 10 ** 8])
        labs = FRAME_LABELS[lname](n)
        vdesc = {"dtype": dtype, "labels": labs, "rows": rows, "time_form": tform, "attach_form": aform, "columns_form": cform, "n": n, "t0_ms": off_ms, "xtr": xkind}
        kk0 = {"op": "TsdFrame.__init__", "time_form": tform, "attach_form": aform, "widened": True}
        try:
            fr, consts, sup, tform = mk_frame_form(nap, pd, n, dtype, labs, rows, tform, aform, cform, off_ms, xkind)
        except Exception as ex:
            cx.viol(dict(kk0, part="exception"), "building a frame with labels and metadata raised %s: %s" % (type(ex).__name__, str(ex)[:80]), vdesc)
            continue
        for nm, v in (("dtype", dtype), ("labels", lname), ("rows", rows), ("time_form", tform), ("attach_form", aform), ("columns_form", cform), ("ncol", n), ("xtr", xkind),
                      ("t0", {0: "origin", -6: "straddle0", -500: "negative", 10 ** 8: "plus1e5s"}[off_ms])):
            res.count("wide_frame_%s_%s" % (nm, v))
        res.case(("wide_frame", vi, dtype, lname, rows, tform, aform, cform, n, off_ms), nontrivial=True)
        lab_of = dict(zip(consts, labs))
        extra = {"xtr": XKINDS[xkind]}
        pattern = dtype == "bool_pattern"
        src = np.array(fr.values)
        objl = "%s\t%s\t%s" % (C.fmt_ints([500 + j for j in range(n)]), C.fmt_ints(consts), C.fmt_ints([10 * c for c in consts]))

        def canon(r):
            if not isinstance(r, nap.TsdFrame):
                return "NOTFRAME"
            md = r.metadata
            cs = [int(v) for v in (r.values[~np.isnan(np.asarray(r.values, dtype=float)).all(axis=1)] if len(r) else r.values)[:1].ravel()] if not pattern else []
            if not cs:   # no sample to read the constants from: by label
                cs = [consts[labs.index(l)] for l in r.columns]
            return "%s|%s|%s|%s" % (C.fmt_ints([500 + labs.index(l) for l in r.columns]), C.fmt_ints(cs), C.fmt_ints([500 + labs.index(l) for l in md.index]),
                                    C.fmt_ints(md["tag"].values) if "tag" in md.columns else "nometa")

        def check(r, ps, kk, inp, f=lambda c: c, whole_rows=True):
            """ps = positions of the expected columns in order"""
            kk = dict(kk, widened=True)
            inp = dict(vdesc, **inp)
            want = [consts[p] for p in ps]
            if pattern:
                # boolean data cannot hold the constants: the bit pattern down the rows identifies the column (operations keeping all rows only)
                if not isinstance(r, nap.TsdFrame):
                    cx.viol(dict(kk, part="type"), "result is not a TsdFrame", inp)
                    return
                if whole_rows and (r.values.shape != (len(src), len(ps)) or not (np.asarray(r.values) == src[:, ps]).all()):
                    cx.viol(dict(kk, part="columns"), "selected columns are not the requested ones", inp, np.asarray(r.values).astype(int).tolist(), src[:, ps].astype(int).tolist())
                    return
                frame_check(cx, nap, r[0:0], want, kk, inp, lab_of, extra=extra, by_label=True)
                return
            frame_check(cx, nap, r, want, kk, inp, lab_of, f, extra=extra, by_label=True, strip_nonfinite=(rows == "nan_inf_rows"))

        def attempt(op, form, fn, inp=None):
            try:
                return fn()
            except Exception as ex:
                cx.viol({"op": op, "form": form, "part": "exception", "widened": True}, "raised %s: %s" % (type(ex).__name__, str(ex)[:80]), dict(vdesc, **dict(inp or {}, form=form)))
                return None
        allp = list(range(n))
        check(fr, allp, {"op": "TsdFrame.__init__", "time_form": tform, "attach_form": aform}, {})
        cx.corr("f_map\t%s" % objl, canon(fr), dict(vdesc, op="wide_frame_build"))
        nrow = len(fr)
        probe_get_info(cx, fr, "TsdFrame", list(labs), [10 * c for c in consts], vdesc, rng, pd)
        # ---- positional column keys: NumPy integer dtypes, lists of NumPy scalars, strided arrays, NumPy scalars, masks of np.bool_, masks computed from metadata
        for _q in range(14 if cx.quick else 40):
            m = rng.randint(1, min(n, 4))
            kind = rng.choice(["increasing", "any", "negative"])
            l = sorted(rng.sample(range(n), m)) if kind != "any" else rng.sample(range(n), m)
            if kind == "negative":
                l = [p - n for p in l]
            ps = [p % n for p in l]
            dt = rng.choice(["int64", "int32", "int16", "int8"] + (["uint8", "uint16", "uint32", "uint64"] if min(l) >= 0 else []))
            kf = rng.choice(["ndarray", "list_np", "strided", "scalar", "mask_list_np_bool", "mask_ndarray", "tuple_of_positions_as_list"])
            mask = [j in ps for j in range(n)]
            if kf == "ndarray":
                key = np.array(l, dtype=dt)
            elif kf == "list_np":
                key = [np.dtype(dt).type(x) for x in l]
            elif kf == "strided":
                big = np.zeros(2 * m, dtype=dt)
                big[::2] = l
                key = big[::2]
            elif kf == "scalar":
                key, ps = np.dtype(dt).type(l[0]), [ps[0]]
            elif kf == "mask_list_np_bool":
                key, ps = [np.bool_(b) for b in mask], sorted(ps)
            elif kf == "mask_ndarray":
                key, ps = np.array(mask, dtype=np.bool_), sorted(ps)
            else:
                key = list(l)
            rform = rng.choice([":", ":", "1:3", "::2", "::-1"]) if nrow == 4 and not pattern else ":"      # (a row mask / list with a column list is NumPy's pairwise indexing)
            rkey = {":": slice(None), "1:3": slice(1, 3), "::2": slice(None, None, 2), "::-1": slice(None, None, -1)}[rform]
            form = "%s_%s" % (kf, dt) if not kf.startswith("mask") and kf != "tuple_of_positions_as_list" else kf
            inp = {"form": form, "key": l, "rows": rform}
            res.count("wide_frame_key_" + kf)
            res.case(("wide_frame", vi, form, str(l), rform), nontrivial=ps != allp)
            kk = {"op": "TsdFrame.__getitem__", "form": form}
            r = attempt("TsdFrame.__getitem__", form, lambda: fr[rkey, key], inp)
            if r is None:
                continue
            if kf == "scalar":      # one column by an integer scalar: a Tsd (no label left); it must hold that column's data
                ok = isinstance(r, nap.Tsd) and (pattern and rform == ":" and (np.asarray(r.values) == src[:, ps[0]]).all() or
                                                 not pattern and all(int(v) == consts[ps[0]] for v in np.asarray(r.values) if np.isfinite(float(v))))
                if not ok:
                    cx.viol(dict(kk, part="columns", widened=True), "fr[:, scalar] is not that column's data", dict(vdesc, **inp), repr(r)[:80])
                continue
            if rform == "::-1" and isinstance(r, nap.TsdFrame) and nrow:
                # rows in reverse order: not a valid time series, only the attachment of what came back is looked at
                pass
            check(r, ps, kk, inp, whole_rows=(rform == ":"))
            if rform == ":" and isinstance(r, nap.TsdFrame):
                cx.corr("f_pos\t%s\t%s" % (objl, C.fmt_ints(ps)), canon(r), dict(vdesc, op="wide_frame_get_pos", **inp))
        tags = [10 * c for c in consts]
        conds = []
        for thr in rng.sample(tags, min(2, n)):
            sel = [t >= thr for t in tags]
            conds += [("bare_series_from_attr", lambda thr=thr: fr[fr.tag >= thr], sel), ("tuple_series_from_getitem", lambda thr=thr: fr[:, fr["tag"] >= thr], sel),
                      ("tuple_values_of_series", lambda thr=thr: fr[:, (fr.get_info("tag") >= thr).values], sel), ("tuple_list_of_series", lambda thr=thr: fr[:, list(fr.metadata["tag"] >= thr)], sel)]
        conds += [("bare_series_grp", lambda: fr[fr.grp == 1], [j % 2 == 1 for j in range(n)]), ("tuple_series_isin", lambda: fr[:, fr.lab.isin(["m%d" % c for c in consts[::2]])], [j % 2 == 0 for j in range(n)])]
        for cname, fn, sel in conds:
            ps = [j for j, b in enumerate(sel) if b]
            if not ps:
                continue
            if cname.startswith("bare") and n == nrow and rows != "0rows":
                continue      # a bare boolean Series on a square frame is also a valid ROW mask: the reading is not C13's business
            res.count("wide_frame_key_mask_from_metadata")
            res.case(("wide_frame", vi, cname, tuple(sel)), nontrivial=len(ps) < n)
            r = attempt("TsdFrame.__getitem__", "mask_from_metadata_" + cname, fn, {"mask": [int(b) for b in sel]})
            if r is not None:
                check(r, ps, {"op": "TsdFrame.__getitem__", "form": "mask_from_metadata_" + cname}, {"mask": [int(b) for b in sel]})
                cx.corr("f_mask\t%s\t%s" % (objl, C.fmt_ints([int(b) for b in sel])), canon(r), dict(vdesc, op="wide_frame_mask", form=cname))
        # ---- label keys in every container: loc (all label kinds) and [] (string labels)
        for _q in range(8 if cx.quick else 24):
            m = rng.randint(1, n)
            p = rng.sample(range(n), m)
            ks = [labs[j] for j in p]
            cont = rng.choice(["list", "ndarray", "pd.Index", "tuple", "pd.Series_values", "single"])
            if cont == "single":
                p, ks = p[:1], ks[:1]
            key = {"list": list(ks), "ndarray": np.array(ks), "pd.Index": pd.Index(ks), "tuple": tuple(ks), "pd.Series_values": pd.Series(ks).values, "single": ks[0]}[cont]
            forms = [("loc", lambda: fr.loc[key])]
            if isinstance(labs[0], str):
                forms.append(("getitem_labels", lambda: fr[key]))
            for fname, fn in forms:
                form = "%s_%s" % (fname, cont)
                inp = {"form": form, "key": ks}
                res.count("wide_frame_" + form)
                res.case(("wide_frame", vi, form, str(ks)), nontrivial=True)
                kk = {"op": "TsdFrame." + ("loc" if fname == "loc" else "__getitem__"), "form": form}
                if cont == "tuple" and fname == "getitem_labels":
                    # fr[('a', 'b')] is Python's fr['a', 'b'] = (row key, column key): not a list of labels; clean exception or the statement
                    try:
                        r = fn()
                    except Exception as ex:
                        res.count("observed:frame_getitem_tuple_of_labels_raises_" + type(ex).__name__)
                        continue
                else:
                    r = attempt(kk["op"], form, fn, inp)
                if r is None:
                    continue
                if len(p) == 1 and not isinstance(r, nap.TsdFrame):      # one label: a Tsd holding that column
                    ok = isinstance(r, nap.Tsd) and (pattern and (np.asarray(r.values) == src[:, p[0]]).all() or
                                                     not pattern and all(int(v) == consts[p[0]] for v in np.asarray(r.values) if np.isfinite(float(v))))
                    if not ok:
                        cx.viol(dict(kk, part="columns", widened=True), "one label does not return that label's column", dict(vdesc, **inp), repr(r)[:80])
                    continue
                check(r, p, kk, inp)
                if len(p) > 1:
                    cx.corr("f_labels\t%s\t%s" % (objl, C.fmt_ints([500 + j for j in p])), canon(r), dict(vdesc, op="wide_frame_labels", **inp))
        # ---- groupby: by str / list / keyword, get_group positional / keyword, groupby_apply
        gforms = [("by_str_positional", lambda v: fr.groupby("grp", v)), ("by_list_keyword", lambda v: fr.groupby(by=["grp"], get_group=v)),
                  ("groupby_apply", lambda v: fr.groupby_apply("grp", lambda x: x)[v]), ("groups_then_tuple_index", lambda v: fr[:, fr.groupby("grp")[v]]),
                  ("groupby_apply_input_key", lambda v: fr.groupby_apply("grp", (lambda x, y=None: x), input_key="x", y=2)[v])]
        for v in sorted({j % 2 for j in range(n)}):
            want = [j for j in range(n) if j % 2 == v]
            for gname, fn in rng.sample(gforms, 3):
                res.count("wide_frame_groupby_" + gname)
                res.case(("wide_frame", vi, "groupby", gname, v), nontrivial=len(want) < n)
                r = attempt("TsdFrame.groupby", gname, lambda: fn(v), {"group": v})
                if r is not None:
                    check(r, want, {"op": "TsdFrame.groupby", "form": gname}, {"group": v})
        # ---- operations keeping every column: scalar operand forms, restrict / get / bin_average positional and keyword with units, NumPy functions, save / load
        lo_s, hi_s = (off_ms - 1) / 1e3, (off_ms + 9) / 1e3
        ep = nap.IntervalSet(lo_s, hi_s)
        unsigned = dtype.startswith("uint")
        ops = [("restrict_positional", lambda: fr.restrict(ep), None, False), ("restrict_keyword", lambda: fr.restrict(iset=ep), None, False),
               ("get_s", lambda: fr.get(lo_s, hi_s), None, False), ("get_ms_positional", lambda: fr.get(off_ms - 1, off_ms + 9, "ms"), None, False),
               ("get_us_keyword", lambda: fr.get(start=(off_ms - 1) * 1000, end=(off_ms + 9) * 1000, time_units="us"), None, False),
               ("get_np_scalars", lambda: fr.get(np.float64(lo_s), np.float32(off_ms / 1e3 + 2.0)), None, False),
               ("add_python_int", lambda: fr + 1, lambda c: c + 1, True), ("radd_python_float", lambda: 1.0 + fr, lambda c: c + 1, True), ("add_np.int64", lambda: fr + np.int64(1), lambda c: c + 1, True),
               ("add_np.float32", lambda: fr + np.float32(1), lambda c: c + 1, True), ("add_0d_array", lambda: fr + np.array(1), lambda c: c + 1, True), ("add_bool", lambda: fr + True, lambda c: c + 1, True),
               ("mul_python_int", lambda: fr * 2, lambda c: 2 * c, True), ("mul_np.uint8", lambda: np.uint8(2) * fr, lambda c: 2 * c, True), ("sub_python_int", lambda: fr - 1, lambda c: c - 1, True),
               ("add_row_vector", lambda: fr + np.ones(n, dtype=fr.dtype), lambda c: c + 1, True), ("add_column_of_ones", lambda: fr + np.ones((nrow, 1)), lambda c: c + 1, True),
               ("floordiv_1", lambda: fr // 1, None, True), ("np.add_keyword_free", lambda: np.add(fr, 1), lambda c: c + 1, True), ("np.multiply_left", lambda: np.multiply(2, fr), lambda c: 2 * c, True),
               ("np.abs", lambda: np.abs(fr), None, True), ("np.positive", lambda: np.positive(fr), None, True), ("np.copy", lambda: np.copy(fr), None, True),
               ("np.clip", lambda: np.clip(fr, 0, 100), None, True), ("method_clip", lambda: fr.clip(0, 100), None, True), ("astype_like_copy", lambda: fr.copy(), None, True),
               ("bin_average_ms_positional", lambda: fr.bin_average(8, ep, "ms"), None, False), ("bin_average_us_keyword", lambda: fr.bin_average(bin_size=8000, ep=ep, time_units="us"), None, False),
               ("bin_average_s", lambda: fr.bin_average(0.008), None, False), ("interpolate_keyword", lambda: fr.interpolate(ts=nap.Ts(np.array([off_ms + 2, off_ms + 6]) / 1e3), ep=ep), None, False),
               ("value_from", lambda: nap.Ts(np.array([off_ms + 1, off_ms + 7]) / 1e3).value_from(fr, ep=ep), None, False), ("dropna", lambda: fr.dropna(), None, False),
               ("dropna_no_update", lambda: fr.dropna(update_time_support=False), None, False)]
        if not unsigned:
            ops += [("neg", lambda: -fr, lambda c: -c, True), ("np.negative", lambda: np.negative(fr), lambda c: -c, True)]
        if pattern:
            ops = [o for o in ops if o[0] in ("restrict_positional", "restrict_keyword", "get_s", "get_ms_positional", "get_us_keyword", "np.copy", "astype_like_copy", "dropna", "np.positive")]
        if rows == "equal_times":
            ops = [o for o in ops if not o[0].startswith(("bin_average", "interpolate", "value_from"))]
        if rows in ("0rows", "1row"):
            ops = [o for o in ops if not o[0].startswith(("get", "interpolate", "value_from", "bin_average", "add_column"))]
        if rows == "nan_inf_rows":
            ops = [o for o in ops if not o[0].startswith(("bin_average", "interpolate", "np.clip", "method_clip", "np.abs"))]
        if dtype != "float64":
            # the jitted kernels behind these are compiled once per data dtype (tens of seconds on a cold cache) and belong to other properties
            ops = [o for o in ops if not o[0].startswith(("bin_average", "value_from"))]
        for nm, fn, f, whole in rng.sample(ops, min(len(ops), 12 if cx.quick else 30)):
            res.count("wide_frame_op_" + nm)
            res.case(("wide_frame", vi, "op", nm), nontrivial=True)
            if pattern and nm == "np.positive":
                try:
                    r = fn()
                except Exception:
                    continue      # NumPy has no positive() for booleans
            else:
                r = attempt("TsdFrame." + nm, nm, fn)
            if r is not None:
                check(r, allp, {"op": "TsdFrame." + nm}, {"operation": nm}, f or (lambda c: c), whole_rows=whole and len(r) == nrow if isinstance(r, nap.TsdFrame) else False)
                if f is None and nm.startswith(("restrict", "get_s", "astype")) and isinstance(r, nap.TsdFrame):
                    cx.corr("f_map\t%s" % objl, canon(r), dict(vdesc, op="wide_frame_map", via=nm))
        with tempfile.TemporaryDirectory() as d:
            path = os.path.join(d, rng.choice(["f.npz", "f"]))
            r = attempt("TsdFrame.save_load", "save_load", lambda: (fr.save(path), nap.load_file(path if path.endswith(".npz") else path + ".npz"))[1])
            res.count("wide_frame_save_load")
            res.case(("wide_frame", vi, "save_load"), nontrivial=True)
            if r is not None:
                check(r, allp, {"op": "TsdFrame.save_load"}, {})
                if isinstance(r, nap.TsdFrame) and n > 1:
                    check(r[:, np.array([n - 1, 0], dtype=np.int16)], [n - 1, 0], {"op": "TsdFrame.save_load", "part": "then_index"}, {})
        # ---- histories: steps keeping or selecting columns, then the clauses on the end result
        steps = ["restrict", "get", "add_1_sub_1", "np.copy", "save_load", "columns_int32", "columns_mask_from_metadata", "loc_labels", "rows_1:", "get_group", "dropna", "set_info_again", "transposed_twice"]
        if pattern or rows in ("0rows", "1row", "equal_times"):
            steps = [s_ for s_ in steps if s_ not in ("get", "add_1_sub_1", "rows_1:", "transposed_twice")]
        for _h in range(5 if cx.quick else 16):
            cur, ps, hist = fr, list(allp), []
            for _k in range(3):
                st = rng.choice(steps)
                m = len(ps)
                try:
                    if st == "restrict":
                        cur = cur.restrict(sup)
                    elif st == "get":
                        cur = cur.get(lo_s - 1, hi_s + 1)
                    elif st == "add_1_sub_1":
                        cur = (cur + 1) - 1
                    elif st == "np.copy":
                        cur = np.copy(cur)
                    elif st == "save_load":
                        with tempfile.TemporaryDirectory() as d:
                            cur.save(os.path.join(d, "h.npz"))
                            cur = nap.load_file(os.path.join(d, "h.npz"))
                    elif st == "columns_int32":
                        q = rng.sample(range(m), rng.randint(1, m))
                        cur, ps = cur[:, np.array(q, dtype=np.int32)], [ps[j] for j in q]
                    elif st == "columns_mask_from_metadata":
                        thr = rng.choice([tags[j] for j in ps])
                        cur, ps = cur[:, cur.tag <= thr], [j for j in ps if tags[j] <= thr]
                    elif st == "loc_labels":
                        q = rng.sample(range(m), rng.randint(2, m)) if m >= 2 else [0]
                        if len(q) == 1:
                            continue
                        cur, ps = cur.loc[[labs[ps[j]] for j in q]], [ps[j] for j in q]
                    elif st == "rows_1:":
                        cur = cur[1:]
                    elif st == "get_group":
                        v = rng.choice([j % 2 for j in ps])
                        cur, ps = cur.groupby("grp", get_group=v), [j for j in ps if j % 2 == v]
                    elif st == "dropna":
                        cur = cur.dropna()
                    elif st == "set_info_again":
                        cur.set_info(lab=["m%d" % consts[j] for j in ps])
                    else:
                        cur = cur * 1
                except Exception as ex:
                    cx.viol({"op": "TsdFrame.history", "step": st, "part": "exception", "widened": True}, "raised %s: %s" % (type(ex).__name__, str(ex)[:80]), dict(vdesc, steps=hist + [st]))
                    cur = None
                    break
                hist.append(st)
                if not isinstance(cur, nap.TsdFrame):
                    break
            res.count("wide_frame_histories")
            res.case(("wide_frame", vi, "history", tuple(hist)), nontrivial=True)
            if cur is None:
                continue
            if len(set(ps)) != len(ps):
                continue
            check(cur, ps, {"op": "TsdFrame.history", "step": hist[-1] if hist else "none"}, {"steps": hist}, whole_rows=False)
        # the object itself is intact after all of that
        check(fr, allp, {"op": "TsdFrame.operand_corrupted"}, {})
    cx.flush()


# ----------------------------------------------------------------------------------------------
# TsGroup, widened: the forms of the dictionary (key types, order, list input), of the members (Ts / Tsd / raw arrays with units / empty), of the
# metadata, of the keys used to select, of the scalar parameters; flags combined; degenerate groups; histories
GROUP_KEYS = ["range", "sparse", "unsorted_dict_order", "str_multi_digit", "float_keys", "list_input", "np.int64_keys", "negative_keys"]
GROUP_MEMBERS = ["Ts", "Tsd", "mixed", "one_empty_member", "ndarray_s", "ndarray_ms", "list_us"]
GROUP_AFORMS = ["ctor_dict_list", "ctor_dict_ndarray", "ctor_dict_tuple", "ctor_dataframe", "ctor_kwargs", "ctor_kwargs_series", "set_info_kwargs_series", "set_info_dict", "set_info_dataframe",
                "setattr", "setitem"]
GROUP_OFFS = {"origin": 0, "straddle0": -32 * U, "negative": -96 * U, "plus1e5s": 10 ** 14}      # multiples of 16 U: the residues are unchanged


def mk_group_form(nap, pd, n, kform, mform, aform, oname, xkind, style, bypass, resids=None, keys=None, sup=None):
    off = GROUP_OFFS[oname]
    if sup is None:
        sup = nap.IntervalSet((off - 10 ** 9) / 1e9, (off + 10 ** 9) / 1e9)
    resids = resids or [(3 * j + 2) % 16 for j in range(n)]
    ikeys = keys or {"range": list(range(n)), "sparse": [1, 3, 7, 12, 20][:n], "unsorted_dict_order": [1, 3, 7, 12, 20][:n], "str_multi_digit": [3, 7, 12, 101, 1000][:n],
                     "float_keys": [2, 3, 5, 8, 13][:n], "list_input": list(range(n)), "np.int64_keys": [4, 5, 9, 11, 30][:n], "negative_keys": [-5, -2, 0, 4, 9][:n]}[kform]

    def member(j, r):
        tk = [(16 * m + r) * U + off for m in range(4)]
        kind = mform
        if mform == "mixed":
            kind = "Ts" if j % 2 else "Tsd"
        if mform == "one_empty_member":
            if j == 1:
                return nap.Ts(np.array([]), time_support=sup)
            kind = "Ts"
        if kind == "Ts":
            return nap.Ts(G.arr(tk), time_support=sup)
        if kind == "Tsd":
            return nap.Tsd(G.arr(tk), np.arange(4.0) + 100 * r, time_support=sup)
        if kind == "ndarray_s":
            return G.arr(tk)
        if kind == "ndarray_ms":
            return np.array(tk, dtype=np.float64) / 1e6
        return [x / 1e3 for x in tk]
    units = {"ndarray_ms": "ms", "list_us": "us"}.get(mform, "s")
    pairs = [(k, member(j, r)) for j, (k, r) in enumerate(zip(ikeys, resids))]
    if kform == "unsorted_dict_order":
        pairs = pairs[::-1] if n < 3 else [pairs[i] for i in ([2, 0] + list(range(3, n)) + [1])]
    wrap = {"str_multi_digit": str, "float_keys": float, "np.int64_keys": np.int64}.get(kform, int)
    data = [m for _, m in pairs] if kform == "list_input" else {wrap(k): m for k, m in pairs}
    fn = XKINDS[xkind]
    xv = [fn(r) for r in resids]
    if xkind in ("float32", "int8", "bool"):
        xv = np.array(xv, dtype={"float32": np.float32, "int8": np.int8, "bool": bool}[xkind])
    cols = {"tag": [10 * r for r in resids], "lab": ["n%d" % r for r in resids], "grp": [j % 2 for j in range(n)], "xtr": xv}      # in ascending key order
    how = {"ctor_dict_list": "list", "ctor_dict_ndarray": "ndarray", "ctor_dict_tuple": "tuple", "ctor_kwargs": "ndarray", "set_info_dict": "list", "setattr": "tuple", "setitem": "ndarray"}.get(aform)
    if kform == "unsorted_dict_order" and how is not None:
        aform, how = "ctor_dataframe", None      # a bare list given with keys in another order is outside the statement (ASSUMPTIONS): give the metadata BY KEY
    if aform in ("ctor_dataframe", "set_info_dataframe"):
        md = pd.DataFrame({k: (v if isinstance(v, np.ndarray) else list(v)) for k, v in cols.items()}, index=list(ikeys))
    elif aform in ("ctor_kwargs_series", "set_info_kwargs_series"):
        md = {k: pd.Series(v if isinstance(v, np.ndarray) else list(v), index=list(ikeys)) for k, v in cols.items()}
    else:
        md = {k: _container(v, how, pd) for k, v in cols.items()}
    if aform in ("ctor_kwargs", "ctor_kwargs_series"):
        g = nap.TsGroup(data, time_support=sup, time_units=units, bypass_check=bypass, **md)
    elif aform.startswith("ctor"):
        g = nap.TsGroup(data, sup, units, bypass, md) if style == "positional" else nap.TsGroup(data, time_support=sup, time_units=units, bypass_check=bypass, metadata=md)
    else:
        g = nap.TsGroup(data, sup, units, bypass) if style == "positional" else nap.TsGroup(data, time_support=sup, time_units=units, bypass_check=bypass)
        if aform in ("set_info_dict", "set_info_dataframe"):
            g.set_info(md)
        elif aform == "set_info_kwargs_series":
            g.set_info(**md)
        elif aform == "setattr":
            for k, v in md.items():
                setattr(g, k, v)
        else:
            for k, v in md.items():
                g[k] = v
    return g, ikeys, resids, sup, aform


def run_group_forms(cx):
    nap, pd = _nap()
    res = cx.res
    rng = random.Random(cx.seed * 13 + 9)
    nvar = 10 if cx.quick else 64
    kfs, mfs, afs, xks, ofs = list(GROUP_KEYS), list(GROUP_MEMBERS), list(GROUP_AFORMS), list(XKINDS), list(GROUP_OFFS)
    for f in (kfs, mfs, afs, xks, ofs):
        rng.shuffle(f)

    def canon(g):
        if not isinstance(g, nap.TsGroup):
            return "NOTGROUP"
        md = g.metadata
        return "%s|%s|%s|%s" % (C.fmt_ints(g.keys()), C.fmt_ints([member_resid(g[k]) if member_resid(g[k]) is not None else -1 for k in g.keys()]), C.fmt_ints(md.index),
                                C.fmt_ints(md["tag"].values) if "tag" in md.columns else "nometa")
    # ---- the empty group (with and without metadata columns): nothing to misattach, every operation must go through
    for ename, mk in (("empty_with_metadata_column", lambda: nap.TsGroup({}, time_support=nap.IntervalSet(-1.0, 1.0), metadata={"tag": [], "lab": []})),
                      ("empty_ms_units", lambda: nap.TsGroup({}, time_support=nap.IntervalSet(-1.0, 1.0), time_units="ms"))):
        res.count("wide_group_" + ename)
        res.case(("wide_group", ename), nontrivial=True)
        try:
            ge = mk()
            outs = [ge[[]] if False else ge, ge.restrict(nap.IntervalSet(0.0, 0.5)), ge.get(0, 500, "ms"), ge[np.array([], dtype=bool)]]
            if any(not isinstance(o, nap.TsGroup) or len(o) for o in outs):
                cx.viol({"op": "TsGroup.empty", "form": ename, "widened": True}, "an operation on the empty group did not return an empty group", {"form": ename})
        except Exception as ex:
            cx.viol({"op": "TsGroup.empty", "form": ename, "part": "exception", "widened": True}, "raised %s: %s" % (type(ex).__name__, str(ex)[:80]), {"form": ename})
    for vi in range(nvar):
        kform, mform, aform, xkind, oname = kfs[vi % len(kfs)], mfs[(vi + vi // len(mfs)) % len(mfs)], afs[(vi + 2 * (vi // len(afs))) % len(afs)], xks[vi % len(xks)], ofs[vi % len(ofs)]
        n = rng.choice([1, 2, 4, 4, 5])
        if mform == "one_empty_member" and n < 2:
            n = 2
        style, bypass = rng.choice(["keyword", "positional"]), rng.random() < 0.35
        if mform in ("ndarray_s", "ndarray_ms", "list_us"):
            bypass = False      # raw arrays are wrapped without a restrict only when the check runs
        vdesc = {"keys_form": kform, "members": mform, "attach_form": aform, "xtr": xkind, "origin": oname, "n": n, "call": style, "bypass_check": bypass}
        try:
            g, keys, resids, sup, aform = mk_group_form(nap, pd, n, kform, mform, aform, oname, xkind, style, bypass)
        except Exception as ex:
            cx.viol({"op": "TsGroup.__init__", "keys_form": kform, "members": mform, "attach_form": aform, "part": "exception", "widened": True},
                    "building a group with metadata raised %s: %s" % (type(ex).__name__, str(ex)[:80]), vdesc)
            continue
        vdesc["attach_form"] = aform
        vdesc["keys"] = keys
        for nm, v in (("keys_form", kform), ("members", mform), ("attach_form", aform), ("xtr", xkind), ("origin", oname), ("n", n), ("call", style), ("bypass_check", bypass)):
            res.count("wide_group_%s_%s" % (nm, v))
        res.case(("wide_group", vi, kform, mform, aform, xkind, oname, n, style, bypass), nontrivial=True)
        rk = dict(zip(keys, resids))
        extra = {"xtr": XKINDS[xkind]}
        objl = "%s\t%s\t%s" % (C.fmt_ints(keys), C.fmt_ints(resids), C.fmt_ints([10 * r for r in resids]))
        off = GROUP_OFFS[oname]

        def check(r, want, kk, inp):
            group_check(cx, nap, r, want, dict(kk, widened=True), dict(vdesc, **inp), member_resid, canon, extra)

        def attempt(op, form, fn, inp=None):
            try:
                return fn()
            except Exception as ex:
                cx.viol({"op": op, "form": form, "part": "exception", "widened": True}, "raised %s: %s" % (type(ex).__name__, str(ex)[:80]), dict(vdesc, **dict(inp or {}, form=form)))
                return None
        allw = list(zip(keys, resids))
        check(g, allw, {"op": "TsGroup.__init__", "keys_form": kform, "attach_form": aform}, {})
        if mform != "one_empty_member":
            cx.corr("g_map\t%s" % objl, canon(g), dict(vdesc, op="wide_group_build"))
        tags = [10 * r for r in resids]
        probe_get_info(cx, g, "TsGroup", list(keys), tags, vdesc, rng, pd)
        # ---- selection keys: NumPy dtypes, lists of NumPy scalars, pandas objects, masks of np.bool_, masks computed from the metadata, scalars
        for _q in range(14 if cx.quick else 40):
            m = rng.randint(1, n)
            p = rng.sample(range(n), m)
            ks = [keys[j] for j in p]
            kf = rng.choice(["ndarray", "list_np", "pd.Index", "pd.Series", "strided", "mask_list_np_bool", "mask_ndarray", "ndarray_float", "list_float", "scalar_np", "scalar_float"])
            fits = [dt for dt in ("int64", "int32", "int16", "int8", "uint8", "uint16", "uint64") if all(np.iinfo(dt).min <= k <= np.iinfo(dt).max for k in ks)]
            dt = rng.choice(fits)
            documented = kf not in ("ndarray_float", "list_float", "scalar_float")
            mask = [j in p for j in range(n)]
            if kf == "ndarray":
                key = np.array(ks, dtype=dt)
            elif kf == "list_np":
                key = [np.dtype(dt).type(k) for k in ks]
            elif kf == "pd.Index":
                key = pd.Index(np.array(ks, dtype=dt))
            elif kf == "pd.Series":
                key = pd.Series(np.array(ks, dtype=dt), index=[2 * i + 5 for i in range(m)])
            elif kf == "strided":
                big = np.zeros(2 * m, dtype=dt)
                big[::2] = ks
                key = big[::2]
            elif kf == "mask_list_np_bool":
                key = [np.bool_(b) for b in mask]
            elif kf == "mask_ndarray":
                key = np.array(mask, dtype=np.bool_)
            elif kf == "ndarray_float":
                key = np.array(ks, dtype=np.float64)
            elif kf == "list_float":
                key = [float(k) for k in ks]
            elif kf == "scalar_np":
                key, ks = np.dtype(dt).type(ks[0]), ks[:1]
            else:
                key, ks = float(ks[0]), ks[:1]
            form = kf + ("_" + dt if kf in ("ndarray", "list_np", "pd.Index", "pd.Series", "strided", "scalar_np") else "")
            inp = {"form": form, "key": ks}
            res.count("wide_group_key_" + ("undocumented_" if not documented else "") + kf)
            res.case(("wide_group", vi, form, str(ks)), nontrivial=len(ks) < n or ks != sorted(ks))
            kk = {"op": "TsGroup.__getitem__", "form": form}
            try:
                r = g[key]
            except Exception as ex:
                if documented:
                    cx.viol(dict(kk, part="exception", widened=True), "valid key raised %s: %s" % (type(ex).__name__, str(ex)[:60]), dict(vdesc, **inp))
                else:
                    res.count("observed:group_%s_raises_%s" % (kf, type(ex).__name__))
                continue
            if kf.startswith("scalar"):
                if not (isinstance(r, (nap.Ts, nap.Tsd)) and member_resid(r) in (None, rk[ks[0]])):
                    cx.viol(dict(kk, part="member_misattached", widened=True), "g[key] is not that key's member", dict(vdesc, **inp))
                continue
            check(r, [(k, rk[k]) for k in sorted(ks)], kk, inp)
            if documented and mform != "one_empty_member":
                cx.corr("g_keys\t%s\t%s" % (objl, C.fmt_ints(ks)), canon(r), dict(vdesc, op="wide_group_keys", **inp))
        conds = []
        for thr in rng.sample(tags, min(2, n)):
            sel = [t >= thr for t in tags]
            conds += [("attr_ge", lambda thr=thr: g[g.tag >= thr], sel), ("getitem_ge_values", lambda thr=thr: g[(g["tag"] >= thr).values], sel),
                      ("get_info_list", lambda thr=thr: g[list(g.get_info("tag") >= thr)], sel), ("metadata_frame", lambda thr=thr: g[g.metadata["tag"] >= thr], sel)]
        conds += [("grp_eq", lambda: g[g.grp == 1], [j % 2 == 1 for j in range(n)]), ("lab_isin", lambda: g[g.lab.isin(["n%d" % r for r in resids[::2]])], [j % 2 == 0 for j in range(n)]),
                  ("rate_positive_or_nan", lambda: g[(g.rate >= 0) | g.rate.isna()], [True] * n)]
        for cname, fn, sel in conds:
            if not any(sel):
                continue
            want = [(k, rk[k]) for k, b in zip(keys, sel) if b]
            res.count("wide_group_key_mask_from_metadata")
            res.case(("wide_group", vi, cname, tuple(sel)), nontrivial=sum(sel) < n)
            r = attempt("TsGroup.__getitem__", "mask_from_metadata_" + cname, fn, {"mask": [int(b) for b in sel]})
            if r is not None:
                check(r, want, {"op": "TsGroup.__getitem__", "form": "mask_from_metadata_" + cname}, {"mask": [int(b) for b in sel]})
                if mform != "one_empty_member":
                    cx.corr("g_mask\t%s\t%s" % (objl, C.fmt_ints([int(b) for b in sel])), canon(r), dict(vdesc, op="wide_group_mask", form=cname))
        # ---- getby_threshold / getby_category / getby_intervals / groupby: positional and keyword, scalar forms, bins as list / ndarray
        thr = rng.choice(tags)
        for cname, fn, f in (("positional_int", lambda: g.getby_threshold("tag", thr), lambda a: a > thr), ("keyword_float", lambda: g.getby_threshold(key="tag", thr=float(thr), op="<="), lambda a: a <= thr),
                             ("np.float32_ge", lambda: g.getby_threshold("tag", np.float32(thr), ">="), lambda a: a >= thr), ("np.int64_lt_keyword_op", lambda: g.getby_threshold("tag", np.int64(thr), op="<"), lambda a: a < thr),
                             ("xtr_column", None, None)):
            if fn is None:
                continue
            want = [(k, rk[k]) for k in keys if f(10 * rk[k])]
            res.count("wide_group_getby_threshold_" + cname)
            res.case(("wide_group", vi, "getby_threshold", cname, thr), nontrivial=0 < len(want) < n)
            if not want:
                continue
            r = attempt("TsGroup.getby_threshold", cname, fn, {"thr": thr})
            if r is not None:
                check(r, want, {"op": "TsGroup.getby_threshold", "form": cname}, {"thr": thr})
        for gname, fn in (("getby_category_positional", lambda v: g.getby_category("grp")[v]), ("getby_category_keyword", lambda v: g.getby_category(key="grp")[v]),
                          ("groupby_positional", lambda v: g.groupby("grp", v)), ("groupby_list_keyword", lambda v: g.groupby(by=["grp"], get_group=v)),
                          ("groupby_apply", lambda v: g.groupby_apply("grp", lambda x: x)[v]), ("groups_then_index", lambda v: g[g.groupby("grp")[v]]),
                          ("groups_as_ndarray_then_index", lambda v: g[np.asarray(g.groupby("grp")[v])])):
            for v in sorted({j % 2 for j in range(n)}):
                want = [(k, rk[k]) for j, k in enumerate(keys) if j % 2 == v]
                res.count("wide_group_" + gname)
                res.case(("wide_group", vi, gname, v), nontrivial=len(want) < n)
                r = attempt("TsGroup.groupby", gname, lambda: fn(v), {"group": v})
                if r is not None:
                    check(r, want, {"op": "TsGroup.groupby", "form": gname}, {"group": v})
        bins = [0, 45, 95, 200]
        for bname, fn in (("bins_list_positional", lambda: g.getby_intervals("tag", list(bins))), ("bins_ndarray_keyword", lambda: g.getby_intervals(key="tag", bins=np.array(bins))),
                          ("bins_float32_array", lambda: g.getby_intervals("tag", np.array(bins, dtype=np.float32)))):
            res.count("wide_group_getby_intervals_" + bname)
            res.case(("wide_group", vi, "getby_intervals", bname), nontrivial=True)
            out = attempt("TsGroup.getby_intervals", bname, fn)
            if out is None:
                continue
            seen = []
            for part in out[0]:
                if isinstance(part, nap.TsGroup):
                    seen += list(part.keys())
                    lo_hi = [(a, b) for a, b in zip(bins, bins[1:]) if all(a <= 10 * rk[k] < b for k in part.keys())]
                    if not lo_hi:
                        cx.viol({"op": "TsGroup.getby_intervals", "form": bname, "part": "members", "widened": True}, "a part mixes members of several bins", dict(vdesc, part=list(part.keys())))
                check(part, [(k, rk[k]) for k in (part.keys() if isinstance(part, nap.TsGroup) else [])], {"op": "TsGroup.getby_intervals", "form": bname}, {})
            if sorted(seen) != [k for k in keys if bins[0] <= 10 * rk[k] < bins[-1]]:
                cx.viol({"op": "TsGroup.getby_intervals", "form": bname, "part": "members", "widened": True}, "the parts do not hold every member with a value inside the bins exactly once", vdesc, sorted(seen))
        # ---- restrict / get / value_from: positional and keyword, the three units, scalar forms; save / load
        ep = nap.IntervalSet(G.arr([10 * U + off, 40 * U + off]), G.arr([30 * U + off, 70 * U + off]))
        a_t, b_t = 20 * U + off, 60 * U + off
        srct = nap.Tsd(G.arr([off, 80 * U + off]), np.array([1.0, 2.0]), time_support=sup)
        ends_k = [keys[-1], keys[0]] if n > 1 else [keys[0]]
        ops = [("restrict_positional", lambda: g.restrict(ep)), ("restrict_keyword", lambda: g.restrict(ep=ep)), ("get_s", lambda: g.get(a_t / 1e9, b_t / 1e9)),
               ("get_ms_positional", lambda: g.get(a_t / 1e6, b_t / 1e6, "ms")), ("get_us_keyword", lambda: g.get(start=a_t / 1e3, end=b_t / 1e3, time_units="us")),
               ("get_np.float64", lambda: g.get(np.float64(a_t / 1e9), np.float64(b_t / 1e9))), ("get_closest_single", lambda: g.get(a_t / 1e9)),
               ("value_from_positional", lambda: g.value_from(srct, sup, "before")), ("value_from_keyword", lambda: g.value_from(tsd=srct, ep=sup, mode="after")), ("value_from_default", lambda: g.value_from(srct)),
               ("restrict_then_keys_int16", lambda: g.restrict(ep)[np.array(ends_k, dtype=np.int16)] if all(abs(k) < 2 ** 15 for k in keys) else g.restrict(ep)[list(ends_k)]),
               ("restrict_own_time_support", lambda: g.restrict(g.time_support))]
        single = [o for o in ops if o[0] == "get_closest_single"]
        ops = [o for o in ops if o[0] != "get_closest_single"]
        for nm, fn in single + rng.sample(ops, 6 if cx.quick else len(ops)):
            res.count("wide_group_op_" + nm)
            res.case(("wide_group", vi, "op", nm), nontrivial=True)
            if nm == "get_closest_single":
                # get(start) with `end` left at its documented default None ("only the timepoint closest to start is returned"): one boolean per trigger
                try:
                    r = fn()
                except Exception as ex:
                    cx.viol({"op": "TsGroup.get", "part": "exception", "end_is_none": True, "tsd_member": mform in ("Tsd", "mixed"), "empty_member": mform == "one_empty_member",
                             "widened": True}, "the documented call g.get(start) raised %s: %s" % (type(ex).__name__, str(ex)[:80]), dict(vdesc, form=nm))
                    continue
            else:
                r = attempt("TsGroup." + nm, nm, fn)
            if r is not None:
                want = allw if not nm.startswith("restrict_then_keys") else sorted({(keys[0], resids[0]), (keys[-1], resids[-1])})
                check(r, want, {"op": "TsGroup." + nm}, {"operation": nm})
                if nm in ("restrict_positional", "get_s") and mform != "one_empty_member":
                    cx.corr("g_map\t%s" % objl, canon(r), dict(vdesc, op="wide_group_map", via=nm))
        with tempfile.TemporaryDirectory() as d:
            path = os.path.join(d, rng.choice(["g.npz", "g"]))
            r = attempt("TsGroup.save_load", "save_load", lambda: (g.save(path), nap.load_file(path if path.endswith(".npz") else path + ".npz"))[1])
            res.count("wide_group_save_load")
            res.case(("wide_group", vi, "save_load"), nontrivial=True)
            if r is not None:
                check(r, allw, {"op": "TsGroup.save_load"}, {})
                if isinstance(r, nap.TsGroup) and n > 1:
                    check(r[[keys[-1], keys[0]]], sorted([(keys[0], resids[0]), (keys[-1], resids[-1])]), {"op": "TsGroup.save_load", "part": "then_index"}, {})
        # ---- merge_group / merge: the three flags combined, different time supports, overlapping keys with reset_index, the same live object twice,
        #      an empty operand, members of another class, three operands of which two are the same object
        others = {"disjoint_keys_same_support": dict(keys=[max(keys) + 2, max(keys) + 5], sup=sup), "disjoint_keys_other_support": dict(keys=[max(keys) + 2, max(keys) + 5], sup=None),
                  "keys_below_other_support": dict(keys=[min(keys) - 7, min(keys) - 3], sup=None), "overlapping_keys_same_support": dict(keys=[keys[0], max(keys) + 1], sup=sup)}
        for oname2, spec in others.items():
            osup = spec["sup"] or nap.IntervalSet((off - 2 * 10 ** 9) / 1e9, (off + 3 * 10 ** 9) / 1e9)
            for reset_index, reset_ts, ign in rng.sample(list(itertools.product([False, True], repeat=3)), 2 if cx.quick else 8):
                om = rng.choice(["Ts", "Tsd"])
                try:
                    g2, k2, r2, _, _ = mk_group_form(nap, pd, 2, "sparse", om, rng.choice(["ctor_dict_list", "ctor_dataframe", "setitem"]), oname, xkind, "keyword", False, resids=[1, 14], keys=spec["keys"], sup=osup)
                except Exception as ex:
                    cx.viol({"op": "TsGroup.__init__", "part": "exception", "widened": True}, "raised %s" % type(ex).__name__, dict(vdesc, other=oname2))
                    continue
                order = rng.choice(["static_12", "method_12", "method_21"])
                inp = {"other": oname2, "keys_2": k2, "reset_index": reset_index, "reset_time_support": reset_ts, "ignore_metadata": ign, "call": order, "other_members": om}
                kk = {"op": "TsGroup.merge_group", "other": oname2, "reset_index": reset_index, "reset_time_support": reset_ts, "ignore_metadata": ign, "widened": True}
                res.count("wide_group_merge_" + oname2)
                res.count("wide_group_merge_flags_%d%d%d" % (reset_index, reset_ts, ign))
                res.case(("wide_group", vi, "merge", oname2, reset_index, reset_ts, ign, order), nontrivial=True)
                must_fail = (not reset_index and "overlapping" in oname2) or (not reset_ts and "other_support" in oname2)
                first, second = (g, g2) if order != "method_21" else (g2, g)
                try:
                    flags = dict(reset_index=reset_index, reset_time_support=reset_ts, ignore_metadata=ign)
                    r = nap.TsGroup.merge_group(first, second, **flags) if order == "static_12" else first.merge(second, **flags)
                except Exception as ex:
                    if not must_fail:
                        cx.viol(dict(kk, part="exception"), "a merge the documentation allows raised %s: %s" % (type(ex).__name__, str(ex)[:60]), dict(vdesc, **inp))
                    r = None
                if r is not None:
                    if must_fail:
                        res.count("observed:merge_that_documentation_forbids_went_through")
                    pool = ([(k, rk[k]) for k in keys] + list(zip(k2, r2))) if order != "method_21" else (list(zip(k2, r2)) + [(k, rk[k]) for k in keys])
                    want = [(i, rr) for i, (_, rr) in enumerate(pool)] if reset_index else sorted(pool)
                    if ign:
                        if isinstance(r, nap.TsGroup) and [c for c in r.metadata_columns if c != "rate"]:
                            cx.viol(dict(kk, part="ignore"), "ignore_metadata kept metadata", dict(vdesc, **inp))
                        if not isinstance(r, nap.TsGroup) or list(r.keys()) != [k for k, _ in want] or any(member_resid(r[k]) not in (None, rr) for k, rr in want):
                            cx.viol(dict(kk, part="member_misattached"), "the merged group does not hold each member under its key", dict(vdesc, **inp), canon(r))
                    else:
                        check(r, want, kk, inp)
                for gx, wx, nm in ((g, allw, "first"), (g2, list(zip(k2, r2)), "second")):
                    group_check(cx, nap, gx, wx, dict(kk, part_of="operand_corrupted", operand=nm), dict(vdesc, **inp), member_resid, canon, extra)
        for sname, fn, want in (("same_object_twice_reset_index", lambda: nap.TsGroup.merge_group(g, g, reset_index=True), [(i, r) for i, r in enumerate(resids + resids)]),
                                ("same_object_twice_method", lambda: g.merge(g, reset_index=True, reset_time_support=True), [(i, r) for i, r in enumerate(resids + resids)]),
                                ("three_operands_two_the_same", lambda: g.merge(g[list(keys[:1])], g, reset_index=True), [(i, r) for i, r in enumerate(resids + resids[:1] + resids)]),
                                ("with_its_own_selection_reset", lambda: g[list(keys[::-1])].merge(g, reset_index=True), [(i, r) for i, r in enumerate(resids + resids)]),
                                ("single_operand", lambda: nap.TsGroup.merge_group(g), allw)):
            res.count("wide_group_merge_" + sname)
            res.case(("wide_group", vi, "merge", sname), nontrivial=True)
            import contextlib, io
            with contextlib.redirect_stdout(io.StringIO()):
                r = attempt("TsGroup.merge_group", sname, fn)
            if r is not None:
                check(r, want, {"op": "TsGroup.merge_group", "form": sname}, {"form": sname})
        if not any(c in kform for c in ("zzz",)):
            ge = nap.TsGroup({}, time_support=sup, metadata={c: [] for c in ("tag", "lab", "grp", "xtr")})
            for sname, fn in (("with_empty_group", lambda: g.merge(ge)), ("empty_group_first", lambda: ge.merge(g))):
                res.count("wide_group_merge_" + sname)
                res.case(("wide_group", vi, "merge", sname), nontrivial=True)
                try:
                    r = fn()
                except Exception as ex:
                    res.count("observed:merge_%s_raises_%s" % (sname, type(ex).__name__))
                    continue
                # an empty operand's columns have no dtype: values may come back as floats / objects; they must still be the member's
                group_check(cx, nap, r, allw, {"op": "TsGroup.merge_group", "form": sname, "widened": True}, dict(vdesc, form=sname), member_resid, canon,
                            None if xkind in ("bool", "int8", "float32") else extra)
        # ---- histories
        steps = ["restrict", "get", "keys_int32", "mask_from_metadata", "save_load", "get_group", "getby_threshold", "merge_with_disjoint_then_drop", "set_info_again", "value_from", "pd.Index"]
        for _h in range(5 if cx.quick else 16):
            cur, ks, hist = g, list(keys), []
            for _k in range(3):
                st = rng.choice(steps)
                m = len(ks)
                try:
                    if st == "restrict":
                        cur = cur.restrict(sup)
                    elif st == "get":
                        cur = cur.get((off - 5 * 10 ** 8) / 1e9, (off + 5 * 10 ** 8) / 1e9)
                    elif st == "keys_int32":
                        q = rng.sample(ks, rng.randint(1, m))
                        cur, ks = cur[np.array(q, dtype=np.int32)], sorted(q)
                    elif st == "pd.Index":
                        q = rng.sample(ks, rng.randint(1, m))
                        cur, ks = cur[pd.Index(q)], sorted(q)
                    elif st == "mask_from_metadata":
                        thr = rng.choice([10 * rk[k] for k in ks])
                        cur, ks = cur[cur.tag <= thr], [k for k in ks if 10 * rk[k] <= thr]
                    elif st == "save_load":
                        with tempfile.TemporaryDirectory() as d:
                            cur.save(os.path.join(d, "h.npz"))
                            cur = nap.load_file(os.path.join(d, "h.npz"))
                    elif st == "get_group":
                        v = rng.choice([keys.index(k) % 2 for k in ks])
                        cur, ks = cur.groupby("grp", get_group=v), [k for k in ks if keys.index(k) % 2 == v]
                    elif st == "getby_threshold":
                        thr = rng.choice([10 * rk[k] for k in ks])
                        cur, ks = cur.getby_threshold("tag", thr, ">="), [k for k in ks if 10 * rk[k] >= thr]
                    elif st == "merge_with_disjoint_then_drop":
                        gx, kx, _, _, _ = mk_group_form(nap, pd, 1, "sparse", "Ts", "ctor_dict_list", oname, xkind, "keyword", False, resids=[15], keys=[max(keys) + 50], sup=cur.time_support)
                        cur = cur.merge(gx)[list(ks)]
                    elif st == "value_from":
                        cur = cur.value_from(srct, sup)
                    else:
                        cur.set_info(lab=["n%d" % rk[k] for k in ks])
                except Exception as ex:
                    cx.viol({"op": "TsGroup.history", "step": st, "part": "exception", "widened": True}, "raised %s: %s" % (type(ex).__name__, str(ex)[:80]), dict(vdesc, steps=hist + [st]))
                    cur = None
                    break
                hist.append(st)
            res.count("wide_group_histories")
            res.case(("wide_group", vi, "history", tuple(hist)), nontrivial=True)
            if cur is not None:
                check(cur, [(k, rk[k]) for k in ks], {"op": "TsGroup.history", "step": hist[-1]}, {"steps": hist})
        check(g, allw, {"op": "TsGroup.operand_corrupted"}, {})
    cx.flush()



# ----------------------------------------------------------------------------------------------
# The table returned by `.metadata` is a COPY (editing it must not move any tag to another element), and set_info given a LABELLED table
# (Series / DataFrame carrying the elements' own labels in another order) either refuses or attaches BY LABEL (fourth-round seeds C13-7, C13-8)
def run_table_copy_and_labelled_set_info(cx):
    import itertools
    import pandas as pd
    nap = _nap()
    nap = nap[0] if isinstance(nap, tuple) else nap
    rng = random.Random(cx.seed * 13 + 11)
    ivs = [(2 * k * U, (2 * k + 1) * U) for k in (1, 3, 4, 6)]

    def objects():
        yield "IntervalSet", mk_ep(nap, ivs), list(range(len(ivs))), "tag", [s_ // U for s_, _ in ivs]
        for labs in (["c", "a", "b"], [5, 2, 9], ["10", "9", "100"]):
            t = G.arr([k * U for k in range(4)])
            tags = [10 * (j + 1) for j in range(len(labs))]
            fr = nap.TsdFrame(t, np.stack([np.full(4, float(v)) for v in tags], 1), columns=labs, metadata={"tag": tags})
            yield "TsdFrame", fr, labs, "tag", tags
        for keys in ([3, 7, 12], [12, 3, 7]):
            g = nap.TsGroup({k: nap.Ts(G.arr([(16 * m + k % 16) * U for m in range(3)])) for k in keys}, time_support=nap.IntervalSet(-1.0, 10.0),
                            metadata=pd.DataFrame({"tag": [10 * k for k in sorted(keys)]}, index=sorted(keys)))
            yield "TsGroup", g, sorted(keys), "tag", [10 * k for k in sorted(keys)]

    def tags_by_label(obj, cls, labels, col):
        md = obj.metadata
        return [md.loc[l, col] for l in labels]

    for cls, obj, labels, col, want in objects():
        inp = {"class": cls, "labels": [str(l) for l in labels]}
        cx.res.case(("table_copy", cls, str(labels)), nontrivial=True)
        # 1. edit the returned table in place in several ways; the object must not notice
        edits = {"sort_descending": lambda m: m.sort_values(col, ascending=False, inplace=True), "overwrite_cell": lambda m: m.__setitem__(col, list(reversed(list(m[col])))),
                 "drop_column": lambda m: m.drop(columns=[col], inplace=True), "reindex_rows": lambda m: m.sort_index(ascending=False, inplace=True)}
        for ename, ed in edits.items():
            cx.res.count("table_copy:" + ename)
            m = obj.metadata
            try:
                ed(m)
            except Exception:
                cx.res.count("table_copy:edit_refused")       # (a read-only table is fine too)
                continue
            try:
                got = [same_value(a, b) for a, b in zip(tags_by_label(obj, cls, labels, col), want)]
                ok = all(got)
                if ok and cls == "IntervalSet":
                    ok = attach_err(obj, ivs, "same") is None and attach_err(obj[[0, 1]], ivs, "same") is None and attach_err(obj[np.array([False, True, True, False])], ivs, "same") is None
                elif ok and cls == "TsGroup":
                    sub = obj[[labels[-1], labels[0]]]
                    ok = [sub.metadata.loc[l, col] for l in (labels[0], labels[-1])] == [want[0], want[-1]]
                elif ok:
                    sub = obj.loc[[labels[-1], labels[0]]]
                    ok = [sub.metadata.loc[l, col] for l in (labels[-1], labels[0])] == [want[-1], want[0]]
            except Exception as ex:
                ok = False
                got = "reading the object after the edit raised %s: %s" % (type(ex).__name__, str(ex)[:80])
            if not ok:
                cx.viol({"op": "metadata_property", "part": "editing_the_returned_table_changes_the_object", "class": cls, "edit": ename},
                        "editing the table returned by .metadata (%s) moved / removed the metadata of the object itself" % ename, inp, impl=str(got), expected=want)
                break
        # 2. a labelled table in another order: refused, or attached by label
        fresh = {"IntervalSet": lambda: mk_ep(nap, ivs)}.get(cls)
        perms = [p_ for p_ in itertools.permutations(range(len(labels))) if list(p_) != list(range(len(labels)))]
        for form in ("series_kw", "dataframe"):
            for p_ in rng.sample(perms, min(3, len(perms))):
                cx.res.count("labelled_set_info:" + form)
                o2 = fresh() if fresh else obj
                name = "x%s%d" % (form[0], perms.index(p_))
                vals = {labels[i]: 1000 + i for i in range(len(labels))}
                order = [labels[i] for i in p_]
                try:
                    if form == "series_kw":
                        o2.set_info(**{name: pd.Series([vals[l] for l in order], index=order)})
                    else:
                        o2.set_info(pd.DataFrame({name: [vals[l] for l in order]}, index=order))
                except Exception:
                    cx.res.count("labelled_set_info:refused")
                    continue
                cx.res.count("labelled_set_info:accepted")
                try:
                    got = [int(v) for v in tags_by_label(o2, cls, labels, name)]
                except Exception as ex:
                    got = "raised %s" % type(ex).__name__
                if got != [vals[l] for l in labels]:
                    cx.viol({"op": "set_info", "part": "labelled_table_attached_by_position", "class": cls, "form": form},
                            "set_info accepted a %s whose index names the elements in another order and attached the values by POSITION, not to the elements they were labelled with" % form,
                            dict(inp, order=[str(l) for l in order]), impl=got, expected=[vals[l] for l in labels])
                    break


def run(res, tier, seed):
    warnings.simplefilter("ignore")
    cx = Ctx(res, tier, seed)
    res.rule = ("TAGGED data (interval tag = its start, column tag = 10 x its constant value, member tag = 10 x the residue of its spike times): every tag is recomputed from the element's own "
                "data; an output interval must equal its input interval EXACTLY (a 1 us shorter end is accepted only from the constructor, for an end that touches the next start). "
                "IntervalSet (4/5 intervals, 2 geometries): ALL ints, slices (incl. negative steps), position lists in every order (+ repeats, out of range), all masks (list/ndarray), "
                "pd.Index / int Series (default and own index) in every order, boolean Series with its index in every order, EACH ALSO in the tuple form ep[key, :]; ep[rows, 'tag'], "
                "ep[rows, [metadata columns]], ep[rows, ['start','end',metadata columns]] for int / slice / list / ndarray / mask rows (negative positions included); groupby, drop_short/long, "
                "loc [complete]; constructor over ALL raw start/end sequences of <=3 intervals on a 5-point lattice (arrays and DataFrame form); intersect/set_diff/union on pairs of canonical "
                "sets (<=3 intervals, 7/8 points), intersect with the same column name on both sides, split, merge_close, time_span; sequences of three operations; TsdFrame (4 label kinds): all "
                "position lists, slices, masks, label lists in every order, boolean Series with the labels in another order (bare and [:, key]), loc, groupby (groups of one column included), "
                "16 column-preserving operations, 4 NumPy column permutations, save/load; TsGroup (2 key sets): key lists in every order, masks, boolean Series with the keys in another order, "
                "pd.Index / int Series of keys, getby_*, groupby, restrict/get, save/load, merge_group over every split into two x order x flags and every split into three x 2 orders x "
                "reset_index, operands re-checked after each merge. non-trivial = the selection is proper or reorders / the input needs repair / the operands overlap. "
                "WIDENED FORMS (seeded samples of the product of the axes, counted as wide_*): "
                "[dtype] metadata values as Python ints / int64 / int32 / int16 / uint8 / uint64 / float64 / float32 plus a fourth column of floats with NaN, booleans, mixed objects, float32 or int8; "
                "TsdFrame data float64 / float32 / int64..int8 / uint8..uint64 / boolean bit patterns, rows of NaN and of +inf / -inf. "
                "[form of time arguments and keys] IntervalSet start / end as ndarray, list, tuple, pd.Series (own index), pd.Index, another object's TsIndex and .t, strided views of a live IntervalSet, "
                "arrays / lists of pairs, DataFrame, NumPy and Python scalars, 0-d arrays, integer arrays of every width (signed and unsigned); TsdFrame t as list / tuple / Series / TsIndex / .t / integer and "
                "float32 arrays / a pandas DataFrame input; keys as NumPy arrays of every integer dtype, lists of NumPy scalars, NumPy scalars, pd.Index / pd.Series of small dtypes, strided arrays, masks as "
                "lists of np.bool_, masks computed from the object's own metadata (attribute, item, get_info, .values, list); 0-d arrays, ranges and float keys only as `clean exception or the statement`. "
                "[positional and keyword, flags combined] constructors, groupby (by as str / list / two columns, get_group, groupby_apply with input_key), drop_short / drop_long / split / merge_close, "
                "restrict / get / value_from / bin_average / interpolate / getby_threshold / getby_category / getby_intervals, merge_group with every combination of reset_index x reset_time_support x "
                "ignore_metadata against operands with the same / another time support and disjoint / lower / overlapping keys. "
                "[units] every time argument written in s, ms and us for the same instants. [placement] origins 0, straddling 0, all negative, 1e5 s. "
                "[degenerate] one interval / column / member, 12 intervals, an empty IntervalSet operand, frames with one row, no row, all timestamps equal (explicit support), an empty TsGroup, a group with "
                "an empty member, keys given as multi-digit strings / floats / np.int64 / negative / a dictionary in another order (metadata then given BY KEY) / a list of members. "
                "[classes] members Ts / Tsd / mixed / raw arrays with units, operands without metadata, metadata attached through the constructor (dict of lists / arrays / tuples / Series, DataFrame, keyword "
                "arguments), set_info (dict, DataFrame, keyword Series), attribute and item assignment. "
                "[histories] three steps drawn from selection / restrict / get / arithmetic / NumPy function / save+load / DataFrame round trip / set operation with a covering or far operand / merge-then-drop, "
                "then the statement's clauses on the end result; the same live object on both sides of intersect / set_diff / union / merge_group, operands sharing memory, bypass_check=True; every widened "
                "object is re-checked after all operations on it. "
                "[table copy / labelled tables] the table returned by .metadata of an IntervalSet / TsdFrame (3 label kinds) / TsGroup (2 key orders) is edited in place in four ways and the object "
                "re-read; set_info is given a Series / DataFrame whose index names the elements in another order: refused, or attached by label")
    res.exhaustive = True
    for part in (run_iset_index, run_ctor, run_setops, run_frame, run_group, run_iset_forms, run_ctor_forms, run_frame_forms, run_group_forms, run_table_copy_and_labelled_set_info):
        try:
            part(cx)
        except Exception as ex:  # an exception nobody anticipated: report it against the part, keep the other parts running
            import traceback
            cx.pend = []
            cx.viol({"op": part.__name__, "part": "unexpected_exception"}, "raised %s: %s" % (type(ex).__name__, str(ex)[:120]), {"traceback": traceback.format_exc()[-600:]})
    cx.flush()


def search(res, seed):
    r2 = C.Result()
    run(r2, "thorough", seed)
    for v in r2.violations:
        if C.match_known("C13", v) is None:
            return v
    return r2.violations[0] if r2.violations else None


def replay(payload):
    nap, pd = _nap()
    warnings.simplefilter("ignore")
    v = payload.get("violation") or (payload.get("disagreements") or [{}])[0]
    inp = v.get("input", {})
    key = v.get("key", {})
    print("replay", key, inp)
    if "intervals" in inp and "mask_index" in inp:
        ivs = [tuple(x) for x in inp["intervals"]]
        ep = mk_ep(nap, ivs)
        key = pd.Series([bool(b) for b in inp["mask"]], index=inp["mask_index"])
        r = ep[key, :] if inp.get("tuple") else ep[key]
        err = attach_err(r, ivs, "same")
        print(r, "\noracle:", err)
        return 1 if err else 0
    if "intervals" in inp and "rows_form" in inp:
        ivs = [tuple(x) for x in inp["intervals"]]
        ep = mk_ep(nap, ivs)
        f, d = inp["rows_form"], inp["rows"]
        rows = d if f in ("int", "list") else slice(*d) if f == "slice" else np.array(d, dtype=bool if f.startswith("mask") else int)
        n = len(ivs)
        ps = [d % n] if f == "int" else list(range(n))[rows] if f == "slice" else [i for i, b in enumerate(d) if b] if f.startswith("mask") else [p % n for p in d]
        print("ep[rows, 'start'] ->", ep[rows, "start"], " positions", ps, " their tags", [ivs[p][0] // U for p in ps])
        try:
            r = ep[rows, inp["columns"]]
        except Exception as ex:
            print("ep[rows, %r] raised" % (inp["columns"],), type(ex).__name__, ex)
            return 1
        print("ep[rows, %r] ->" % (inp["columns"],))
        print(r)
        if isinstance(r, nap.IntervalSet):
            err = attach_err(r, ivs, "same")
            bad = (err and not (err == "nometa" and not strictly_inc(ps))) or (strictly_inc(ps) and [t[0] for t in ticks(r)] != [ivs[p][0] for p in ps])
            print("oracle:", err)
            return 1 if bad else 0
        got = [int(x) for x in np.atleast_1d(np.asarray(r if isinstance(inp["columns"], str) else r["tag"]))]
        return 0 if got == [ivs[p][0] // U for p in ps] else 1
    if inp.get("function", "").startswith("np."):
        fr = nap.TsdFrame(t=np.arange(3.0), d=np.tile([11.0, 22, 33, 44], (3, 1)), columns=list("abcd"), metadata={"tag": [110, 220, 330, 440]})
        for nm, r in (("flip", np.flip(fr, axis=1)), ("roll", np.roll(fr, 1, axis=1))):
            print("np.%s along axis 1: columns" % nm, list(r.columns), "row", r.values[0].tolist(), "tags", list(r.metadata["tag"]))
        return 1 if list(np.flip(fr, axis=1).columns) == list("abcd") else 0
    if "keys_1" in inp:
        def member(r):
            return nap.Ts(G.arr([(16 * m + r) * U for m in range(4)]))
        sup = nap.IntervalSet(-1.0, 1.0)
        gs = [nap.TsGroup({k: member(k % 16) for k in ks}, time_support=sup, metadata={"tag": [10 * (k % 16) for k in ks]}) for ks in (inp["keys_1"], inp["keys_2"])]
        try:
            r = nap.TsGroup.merge_group(*gs, reset_index=inp["reset_index"], ignore_metadata=inp["ignore_metadata"])
            print(r)
        except Exception as ex:
            print("raised", type(ex).__name__, ex)
            return 1
        bad = [list(g.metadata.index) != ks for g, ks in zip(gs, (inp["keys_1"], inp["keys_2"]))]
        print("operand metadata index intact:", [not b for b in bad])
        return 1 if any(bad) else 0
    if key.get("op") == "TsGroup.get" and key.get("end_is_none"):
        members = {0: nap.Tsd(t=np.array([0.0, 1.0, 2.0]), d=np.array([1.0, 2.0, 3.0])) if key.get("tsd_member") else nap.Ts(t=np.array([0.0, 1.0, 2.0])),
                   3: nap.Ts(t=np.array([]), time_support=nap.IntervalSet(0.0, 2.0)) if key.get("empty_member") else nap.Ts(t=np.array([0.5, 1.5]))}
        g = nap.TsGroup(members, time_support=nap.IntervalSet(0.0, 2.0), metadata={"tag": [10, 20]})
        try:
            r = g.get(1.2)
        except Exception as ex:
            print("g.get(1.2) raised", type(ex).__name__, ex)
            return 1
        print(r)
        ok = isinstance(r, nap.TsGroup) and list(r.keys()) == [0, 3] and list(r.metadata["tag"]) == [10, 20]
        return 0 if ok else 1
    print("no dedicated replay for this case; run the quick tier")
    return 1
