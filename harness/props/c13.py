"""C13 metadata and labels stay attached to the element they describe."""
import itertools
import os
import random
import tempfile
import warnings

import numpy as np

import common as C
import gen as G

LEVEL = "proof"
DRIVERS = ["driver_c13"]
TRUSTED = ["model: coq/Model/Meta.v (metadata frames with pandas' loc / iloc disciplines, IntervalSet constructor with its metadata-drop rule, every __getitem__ form, "
           "intersect / set_diff / split parent rows, union / time_span / merge_close, TsdFrame column selection by position / label / mask / group, TsGroup selection, member-wise "
           "operations and merge_group) over Model/Iset.v; theorems: Proofs/MetaProofs.v (+ Proofs/InterDiffProofs.v for the parents of intersect / set_diff)",
           "pandas / NumPy are trusted to turn an int / slice / list / mask key into the positions Python's list semantics gives, and .loc / .iloc / reset_index / get_indexer to be what "
           "the model's loc / sel / range_frame / first_pos say (exercised on every key of the complete spaces by the correspondence)",
           "NOT MODELLED, exercised by the harness through the public API only: save / load_file round trips (key tables are C11's), merge_group of three groups, IntervalSet[rows, column name(s)] (the model has no column axis), NumPy column permutations, in-place corruption of an operand "
           "(not expressible in the functional model; operands are re-checked after every merge)"]
ASSUMPTIONS = ["labels (TsdFrame columns, TsGroup keys) are distinct; IntervalSet operands are canonical and carry the default 0..n-1 metadata index (both are what the constructors produce)",
               "TsGroup(dict in unsorted key order, metadata=list) attaching the list to the SORTED keys is outside the statement (it is about preservation after attachment)",
               "NumPy functions that permute the columns of a TsdFrame (np.flip / np.fliplr / np.roll / np.take on axis 1) are exercised and REPORTED (key op=TsdFrame.numpy_column_permutation): the "
               "result keeps labels and metadata in the old order, i.e. attached to another column's data; C14's statement asks for exactly that (labels kept when the column count is unchanged), so "
               "it is a known finding, not a repair",
               "a boolean pd.Series whose index is the column labels / group keys in ANOTHER order: which elements it selects is not C13's business (TsdFrame[:, key] and TsGroup[key] use the values "
               "by position, TsdFrame[key] reads it as a row mask and raises on a non-square frame - counted as observed:*); what comes back is checked for attachment",
               "IntervalSet[rows, metadata column(s)] is held to the row semantics of IntervalSet[rows, 'start'] and IntervalSet[rows, :] (NumPy positions: negative positions wrap, slices exclude their stop)",
               "the model follows /repo as repaired (c7648fb: pandas keys of IntervalSet.__getitem__ positional; c0dc0a1: merge_group sorts the concatenated metadata and copies its "
               "first operand's metadata; and the proposed repair of the tuple form ep[pandas key, :], which is compared with the SAME model functions as ep[pandas key]); the pre-repair forms are "
               "kept as *_orig definitions with their refutation theorems"]

U = 1953125  # 2^-9 s in ticks
NSTEPS = 3   # length of the operation sequences of run_setops
US = 1000
D = "driver_c13"


def _nap():
    import pynapple as nap
    import pandas as pd
    return nap, pd


def ticks(ep):
    return [(C.to_ns(s), C.to_ns(e)) for s, e in ep.values]


def mk_ep(nap, ivs, tagcol="tag", extra=None):
    md = {tagcol: [s // U for s, _ in ivs], "lab" + tagcol[3:]: ["s%d" % (s // U) for s, _ in ivs]}
    if extra:
        md.update(extra)
    return nap.IntervalSet(G.arr([s for s, _ in ivs]), G.arr([e for _, e in ivs]), metadata=md)


def canon_res(r, tagcols=("tag",)):
    """implementation result -> the model's output format"""
    iv = C.fmt_iset(ticks(r))
    if all(c in r.metadata_columns for c in tagcols):
        md = r.metadata
        tags = []
        for i in range(len(r)):
            for c in tagcols:
                tags.append(int(md[c].values[i]))
        return "K|%s|%s|%s" % (iv, C.fmt_ints(md.index), C.fmt_ints(tags))
    return "D|" + iv


def attach_err(r, orig, mode, tagcol="tag"):
    """statement-level oracle: every output interval that carries a tag is the input interval with that tag
    (mode 'same': same start AND same end - the operands are canonical, no selection of their intervals has touching
    neighbours, so the constructor's 1 us trim never applies) or lies inside it (mode 'inside').
    Tags are derivable from the data (tag = start tick // U of the interval it was given with). Returns None/'nometa'/message."""
    if tagcol not in r.metadata_columns:
        return "nometa"
    md = r.metadata
    if list(md.index) != list(range(len(r))):
        return "metadata index %s is not 0..n-1" % list(md.index)
    by_tag = {s // U: (s, e) for s, e in orig}
    lab = "lab" + tagcol[3:]
    for i, (s, e) in enumerate(ticks(r)):
        t = int(md[tagcol].values[i])
        if t not in by_tag:
            return "interval %d carries unknown tag %d" % (i, t)
        s0, e0 = by_tag[t]
        ok = (s == s0 and e == e0) if mode == "same" else (s0 <= s and e <= e0)
        if not ok:
            return "interval %d = (%d,%d) carries the tag of (%d,%d)" % (i, s, e, s0, e0)
        if lab in md.columns and md[lab].values[i] != "s%d" % t:
            return "interval %d: metadata columns disagree (%s vs %s)" % (i, md[lab].values[i], t)
        if int(r.get_info(tagcol)[i]) != t:
            return "get_info disagrees with metadata"
    return None


def obj_line(ivs):
    return "%s\t%s" % (C.fmt_iset(ivs), C.fmt_ints([s // U for s, _ in ivs]))


def strictly_inc(ps):
    return all(a < b for a, b in zip(ps, ps[1:]))


class Ctx:
    def __init__(self, res, tier, seed):
        self.res, self.tier, self.seed = res, tier, seed
        self.quick = tier == "quick"
        self.pend = []   # (model line, impl canonical string, info) for the correspondence

    def viol(self, key, what, inp, impl=None, expected=None):
        self.res.violations.append({"key": key, "what": what, "input": inp, "impl": impl, "expected": expected})

    def corr(self, line, impl, info):
        self.pend.append((line, impl, info))

    def flush(self):
        if not self.pend:
            return
        out = C.run_model([p[0] for p in self.pend], driver=D)
        for (line, impl, info), m in zip(self.pend, out):
            if m != impl:
                self.res.disagreements.append({"op": info.get("op"), "input": info, "line": line, "impl": impl, "model": m})
        self.res.traces += len(self.pend)
        self.pend = []


def call(cx, kk, inp, fn):
    """run an implementation call; an exception on a valid input is reported, not propagated"""
    try:
        return fn()
    except Exception as ex:
        cx.viol(dict(kk, part="exception"), "raised %s: %s" % (type(ex).__name__, str(ex)[:80]), inp)
        return None


# ----------------------------------------------------------------------------------------------
# IntervalSet.__getitem__ : every index form
def iset_keys(n, pd, quick, rng):
    """(form, key object, positions or None, description)"""
    out = []
    for k in range(-n - 1, n + 1):
        out.append(("int", k, [k % n] if -n <= k < n else None, k))
    rngv = [None] + list(range(-n - 1, n + 2))
    sl = [(a, b, c) for a in rngv for b in rngv for c in (None, 1, 2, 3, -1, -2)]
    if quick:
        sl = rng.sample(sl, 260)
    for a, b, c in sl:
        out.append(("slice", slice(a, b, c), list(range(n))[slice(a, b, c)], [a, b, c]))
    lists = []
    for m in range(1, n + 1):
        lists += [list(p) for p in itertools.permutations(range(n), m)]
    lists += [[a, b] for a in range(-n, n) for b in range(-n, n)]
    lists += [[0, 0, 1], [1, 1], [n, 0], [0, n + 1]]
    for l in lists:
        ps = [p % n for p in l] if all(-n <= p < n for p in l) else None
        out.append(("list", list(l), ps, l))
        out.append(("ndarray", np.array(l), ps, l))
    for l in lists[:40]:
        ps = [p % n for p in l] if all(-n <= p < n for p in l) else None
        out.append(("list,:", (list(l), slice(None)), ps, l))
    for k in range(-n - 1, n + 1):
        out.append(("int,:", (k, slice(None)), [k % n] if -n <= k < n else None, k))
    for a, b, c in rng.sample(sl, 80):
        out.append(("slice,:", (slice(a, b, c), slice(None)), list(range(n))[slice(a, b, c)], [a, b, c]))
    for mask in itertools.product([False, True], repeat=n):
        ps = [i for i, b in enumerate(mask) if b]
        out.append(("mask_list", list(mask), ps, [int(b) for b in mask]))
        out.append(("mask_ndarray", np.array(mask), ps, [int(b) for b in mask]))
        out.append(("mask,:", (np.array(mask), slice(None)), ps, [int(b) for b in mask]))
    return out


def run_iset_index(cx):
    nap, pd = _nap()
    res = cx.res
    rng = random.Random(cx.seed * 13 + 1)
    n = 4 if cx.quick else 5
    geos = {"separated": [(4 * i * U, (4 * i + 2) * U) for i in range(n)],
            "1us_gaps": [(2 * i * U, (2 * i + 2) * U - (US if i < n - 1 else 0)) for i in range(n)]}
    for gname, ivs in geos.items():
        ep = mk_ep(nap, ivs, extra={"grp": [i % 2 for i in range(n)]})
        if attach_err(ep, ivs, "same") is not None:
            cx.viol({"op": "IntervalSet.__init__"}, "metadata given with canonical intervals is not attached to them", {"ivs": ivs})
            continue
        for form, key, ps, desc in iset_keys(n, pd, cx.quick, rng):
            inp = {"intervals": ivs, "form": form, "key": desc}
            res.count("iset_index_" + form)
            nontriv = ps is not None and 0 < len(ps) < n or (ps is not None and not strictly_inc(ps))
            res.case(("iset", gname, form, str(desc)), nontrivial=bool(nontriv))
            kk = {"op": "IntervalSet.__getitem__", "form": form}
            try:
                r = ep[key]
                impl = canon_res(r)
            except Exception as ex:
                r, impl = None, "E"
                if ps is not None:
                    cx.viol(dict(kk, part="exception"), "valid key raised " + type(ex).__name__, inp)
            cx.corr("get_pos\t%s\t%s" % (obj_line(ivs), C.fmt_ints(ps if ps is not None else [n + 3])), impl, dict(inp, op="iset_get_pos"))
            if r is None:
                continue
            err = attach_err(r, ivs, "same")
            if err == "nometa":
                if ps and strictly_inc(ps):
                    cx.viol(dict(kk, part="lost"), "order-preserving selection lost its metadata", inp, impl)
            elif err:
                cx.viol(dict(kk, part="misattached"), err, inp, impl)
            if ps is not None and strictly_inc(ps) and [t[0] for t in ticks(r)] != [ivs[p][0] for p in ps]:
                cx.viol(dict(kk, part="intervals"), "selected intervals are not the requested ones", inp, impl)
            if len(res.samples) < 2 and form == "list" and len(desc) == 3:
                res.sample({"intervals": ivs, "key": desc, "result": impl})
        # pd.Index / integer pd.Series keys (positional, negative integers wrap)
        subs = []
        for m in range(1, n + 1):
            subs += [list(p) for p in itertools.permutations(range(n), m)]
        subs += [[-1, 0], [0, -1], [-n, -1], [0, n], [-n - 1], [1, 1]]
        for l in subs:
            forms = [("pd.Index", pd.Index(l)), ("pd.Series_int", pd.Series(l)), ("pd.Series_int_own_index", pd.Series(l, index=[7 - 2 * i for i in range(len(l))]))]
            forms += [(f + ",:", (k, slice(None))) for f, k in forms]
            for form, key in forms:
                inp = {"intervals": ivs, "form": form, "key": l}
                res.count("iset_index_" + form)
                res.case(("iset", gname, form, str(l)), nontrivial=True)
                kk = {"op": "IntervalSet.__getitem__", "form": form}
                valid = all(-n <= p < n for p in l)
                try:
                    r = ep[key]
                    impl = canon_res(r)
                except Exception as ex:
                    r, impl = None, "E"
                    if valid:
                        cx.viol(dict(kk, part="exception"), "valid key raised " + type(ex).__name__, inp)
                cx.corr("get_labels\t%s\t%s" % (obj_line(ivs), C.fmt_ints(l)), impl, dict(inp, op="iset_get_labels"))
                if r is None:
                    continue
                err = attach_err(r, ivs, "same")
                if err == "nometa":
                    if valid and strictly_inc([p % n for p in l]):
                        cx.viol(dict(kk, part="lost"), "order-preserving selection lost its metadata", inp, impl)
                elif err:
                    cx.viol(dict(kk, part="misattached"), err, inp, impl)
        # boolean pd.Series, its index in every order (e.g. a condition on sorted metadata)
        perms = list(itertools.permutations(range(n)))
        if cx.quick:
            perms = [tuple(range(n))] + rng.sample(perms[1:], 11)
        for perm in perms:
            for mask, tup in itertools.product(itertools.product([False, True], repeat=n), (False, True)):
                key = pd.Series(list(mask), index=list(perm))
                aligned = list(perm) == list(range(n))
                form = ("bool_series" if aligned else "bool_series_permuted_index") + (",:" if tup else "")
                inp = {"intervals": ivs, "form": form, "mask_index": list(perm), "mask": [int(b) for b in mask], "tuple": tup}
                res.count("iset_index_" + form)
                res.case(("iset", gname, form, perm, mask), nontrivial=0 < sum(mask) < n)
                kk = {"op": "IntervalSet.__getitem__", "form": form}
                try:
                    r = ep[key, :] if tup else ep[key]
                    impl = canon_res(r)
                except Exception as ex:
                    r, impl = None, "E"
                    cx.viol(dict(kk, part="exception"), "valid key raised " + type(ex).__name__, inp)
                cx.corr("get_bseries\t%s\t%s\t%s" % (obj_line(ivs), C.fmt_ints(perm), C.fmt_ints([int(b) for b in mask])), impl, dict(inp, op="iset_get_bseries"))
                if r is None:
                    continue
                err = attach_err(r, ivs, "same")
                if err == "nometa":
                    if any(mask):
                        cx.viol(dict(kk, part="lost"), "mask selection lost its metadata", inp, impl)
                elif err:
                    cx.viol(dict(kk, part="misattached"), err, inp, impl, "tags of the returned intervals")
                if [t[0] for t in ticks(r)] != [ivs[i][0] for i, b in enumerate(mask) if b]:
                    cx.viol(dict(kk, part="intervals"), "selected intervals are not those at the True positions", inp, impl)
        # groupby / get_group, drop_short / drop_long (mask built from the data), column lists, loc
        for assign in itertools.product([0, 1], repeat=n):
            e2 = mk_ep(nap, ivs, extra={"grp": list(assign)})
            res.case(("iset", gname, "groupby", assign), nontrivial=0 < sum(assign) < n)
            res.count("iset_groupby")
            groups = e2.groupby("grp")
            for v in set(assign):
                want = [i for i, a in enumerate(assign) if a == v]
                if sorted(groups[v]) != want:
                    cx.viol({"op": "IntervalSet.groupby"}, "group indices are not the intervals whose metadata value is the group's", {"intervals": ivs, "grp": assign})
                r = e2.groupby("grp", get_group=v)
                err = attach_err(r, ivs, "same")
                if err or [t[0] for t in ticks(r)] != [ivs[i][0] for i in want] or list(r.metadata["grp"]) != [v] * len(want):
                    cx.viol({"op": "IntervalSet.groupby", "part": "get_group"}, "get_group: " + str(err), {"intervals": ivs, "grp": assign, "group": v}, canon_res(r))
                cx.corr("get_labels\t%s\t%s" % (obj_line(ivs), C.fmt_ints(want)), canon_res(r), {"op": "iset_groupby", "intervals": ivs, "grp": assign})
        durs = sorted({e - s for s, e in ivs})
        # a threshold equal to a duration is decided by a float subtraction of non-dyadic ends: only on the dyadic geometry
        for thr in (durs if gname == "separated" else []) + [durs[0] - 1, durs[-1] + 1, (durs[0] + durs[-1]) // 2]:
            for nm in ("drop_short_intervals", "drop_long_intervals"):
                r = getattr(ep, nm)(thr / 1e9)
                res.case(("iset", gname, nm, thr), nontrivial=0 < len(r) < n)
                want = [i for i, (s, e) in enumerate(ivs) if ((e - s) > thr if nm[5] == "s" else (e - s) < thr)]
                err = attach_err(r, ivs, "same")
                if (err and (err != "nometa" or want)) or [t[0] for t in ticks(r)] != [ivs[i][0] for i in want]:
                    cx.viol({"op": "IntervalSet." + nm}, str(err), {"intervals": ivs, "threshold": thr}, canon_res(r))
        with tempfile.TemporaryDirectory() as d:
            ep.save(os.path.join(d, "e.npz"))
            r = nap.load_file(os.path.join(d, "e.npz"))
            res.case(("iset", gname, "save_load"), nontrivial=True)
            res.count("save_load")
            err = attach_err(r, ivs, "same")
            if err or len(r) != n:
                cx.viol({"op": "IntervalSet.save_load"}, str(err), {"intervals": ivs}, canon_res(r))
            r = r[1:]
            err = attach_err(r, ivs, "same")
            if err or len(r) != n - 1:
                cx.viol({"op": "IntervalSet.save_load", "part": "then_index"}, str(err), {"intervals": ivs}, canon_res(r))
        for cols in (["start", "end", "tag", "lab"], ["lab", "end", "start", "tag"]):
            r = call(cx, {"op": "IntervalSet.__getitem__", "form": "column_list"}, {"intervals": ivs, "columns": cols}, lambda: ep[cols])
            res.case(("iset", gname, "columns", str(cols)), nontrivial=True)
            err = attach_err(r, ivs, "same") if isinstance(r, nap.IntervalSet) else "result is not an IntervalSet"
            if err or len(r) != n:
                cx.viol({"op": "IntervalSet.__getitem__", "form": "column_list"}, str(err), {"intervals": ivs, "columns": cols})
        for l in subs[:30]:
            if not all(0 <= p < n for p in l):
                continue
            r = ep.loc[l]
            res.case(("iset", gname, "loc", str(l)), nontrivial=True)
            err = attach_err(r, ivs, "same")
            if err and not (err == "nometa" and not strictly_inc(l)):
                cx.viol({"op": "IntervalSet.loc"}, str(err), {"intervals": ivs, "key": l}, canon_res(r))
            for p in l:
                if ep.loc[p, "tag"] != ivs[p][0] // U or C.to_ns(ep.loc[p, "start"]) != ivs[p][0]:
                    cx.viol({"op": "IntervalSet.loc", "form": "scalar"}, "loc[i, column] is not interval i's value", {"intervals": ivs, "key": p})
        run_iset_column_keys(cx, nap, pd, ep, ivs, gname, rng)
    cx.flush()


def run_iset_column_keys(cx, nap, pd, ep, ivs, gname, rng):
    """ep[rows, 'tag'], ep[rows, [metadata columns]], ep[rows, ['start', 'end', metadata columns]]: the row key selects the same
    intervals as in ep[rows, 'start'] / ep[rows] (NumPy positions), and every returned metadata value is that interval's"""
    res = cx.res
    n = len(ivs)
    rows = [("int", k, [k % n], k) for k in range(-n, n)]
    rngv = [None] + list(range(-n - 1, n + 2))
    sl = [(a, b, c) for a in rngv for b in rngv for c in (None, 1, 2, -1)]
    for a, b, c in rng.sample(sl, 50 if cx.quick else 300) + [(0, 2, None), (None, -1, None), (-2, None, None), (1, 1, None)]:
        rows.append(("slice", slice(a, b, c), list(range(n))[slice(a, b, c)], [a, b, c]))
    lists = [list(p) for m in (1, 2, n) for p in itertools.permutations(range(n), m)]
    lists = (rng.sample(lists, 24) if cx.quick else lists) + [[0, 1], [1, 2], [0, n - 1], [-1], [0, -1], [-n, -1], [n - 1, 0]]
    for l in lists:
        rows.append(("list", list(l), [p % n for p in l], l))
        rows.append(("ndarray", np.array(l), [p % n for p in l], l))
    for mask in itertools.product([False, True], repeat=n):
        rows.append(("mask_ndarray", np.array(mask), [i for i, b in enumerate(mask) if b], [int(b) for b in mask]))
    tag_of = [s // U for s, _ in ivs]

    def trigger(form, desc, ps):
        # why a label-based (.loc) treatment of the row key differs from the positional one on this key
        if form == "slice":
            return "slice"
        if form in ("int", "list", "ndarray") and any(p < 0 for p in ([desc] if form == "int" else desc)):
            return "negative_position"
        if form == "int":
            return "int_row"
        return "rows_not_a_prefix" if ps != list(range(len(ps))) else "none"

    for form, key, ps, desc in rows:
        trig = trigger(form, desc, ps)
        base = {"intervals": ivs, "rows_form": form, "rows": desc}
        # reference: the interval columns are positional
        try:
            st = np.atleast_1d(ep[key, "start"])
            ref_ok = [C.to_ns(x) for x in st] == [ivs[p][0] for p in ps]
        except Exception:
            ref_ok = False
        if not ref_ok:
            cx.viol({"op": "IntervalSet.__getitem__", "form": form + ",'start'", "part": "intervals"}, "ep[rows, 'start'] is not the starts at the requested positions", base)
        # column-name lists in either order (the result's columns are start, end, then the metadata: the order asked for plays no role)
        flip = rng.random() < 0.5
        for cform, cols in (("str", "tag"), ("metadata_columns", ["lab", "tag"] if flip else ["tag", "lab"]),
                            ("start_end_and_metadata_columns", ["tag", "end", "lab", "start"] if flip else ["start", "end", "tag", "lab"])):
            full = "%s,%s" % (form, cform)
            kk = {"op": "IntervalSet.__getitem__", "form": full, "columns": cform, "trigger": trig}
            inp = dict(base, columns=cols)
            res.count("iset_index_rows,columns")
            res.case(("iset", gname, full, str(desc)), nontrivial=0 < len(ps) < n or not strictly_inc(ps))
            try:
                r = ep[key, cols]
            except Exception as ex:
                cx.viol(dict(kk, part="exception"), "valid key raised %s: %s" % (type(ex).__name__, str(ex)[:60]), inp)
                continue
            if cform == "start_end_and_metadata_columns":
                if not isinstance(r, nap.IntervalSet):
                    cx.viol(dict(kk, part="type"), "result is not an IntervalSet", inp, type(r).__name__)
                    continue
                impl = canon_res(r)
                err = attach_err(r, ivs, "same")
                if err == "nometa":
                    if ps and strictly_inc(ps):
                        cx.viol(dict(kk, part="lost"), "order-preserving selection lost its metadata", inp, impl)
                elif err:
                    cx.viol(dict(kk, part="misattached"), err, inp, impl)
                if strictly_inc(ps) and [t[0] for t in ticks(r)] != [ivs[p][0] for p in ps]:
                    cx.viol(dict(kk, part="intervals"), "selected intervals are not the requested ones (ep[rows, 'start'] and ep[rows] select %s)" % ps, inp, impl)
                continue
            # metadata values only: they must be those of the intervals ep[rows, 'start'] returns, in that order
            try:
                if cform == "str":
                    got = [int(x) for x in np.atleast_1d(np.asarray(r))]
                    want = [tag_of[p] for p in ps]
                else:
                    arr = np.asarray(r, dtype=object)
                    arr = arr.reshape(1, -1) if arr.ndim == 1 else arr
                    got = [(int(b), str(a)) for a, b in arr] if flip else [(int(a), str(b)) for a, b in arr]
                    want = [(tag_of[p], "s%d" % tag_of[p]) for p in ps]
            except Exception as ex:
                cx.viol(dict(kk, part="type"), "result cannot be read as metadata values: %s" % type(ex).__name__, inp, repr(r)[:80])
                continue
            if got != want:
                cx.viol(dict(kk, part="misattached"), "metadata returned for the row key is not that of the intervals the same row key selects", inp, got, want)


# ----------------------------------------------------------------------------------------------
# constructor: metadata kept only when output interval i IS input interval i
def run_ctor(cx):
    nap, pd = _nap()
    res = cx.res
    rng = random.Random(cx.seed * 13 + 2)
    vals = [0, U, 2 * U, 3 * U, 4 * U]
    cases = []
    for m in (1, 2, 3):
        for ss in itertools.product(vals, repeat=m):
            for es in itertools.product(vals, repeat=m):
                cases.append((list(ss), list(es)))
    if cx.quick:
        cases = cases[:650] + rng.sample(cases[650:], 2200)
    # neighbours closer than 1 us: the trim makes an interval vanish (a repair)
    cases += [([0, 500], [500, U]), ([0, US], [US, U]), ([0, 2 * US], [2 * US, U]), ([0, U, U + 300], [U, U + 300, 3 * U])]
    for ss, es in cases:
        m = len(ss)
        tags = [7 + 3 * i for i in range(m)]
        inp = {"start": ss, "end": es, "tags": tags}
        canonical = all(s < e for s, e in zip(ss, es)) and all(es[i] < ss[i + 1] for i in range(m - 1))
        res.case(("ctor", tuple(ss), tuple(es)), nontrivial=not canonical)
        res.count("ctor_canonical" if canonical else "ctor_needs_repair_or_sort")
        for form in ("arrays", "dataframe"):
            kk = {"op": "IntervalSet.__init__", "form": form}
            try:
                if form == "arrays":
                    r = nap.IntervalSet(G.arr(ss), G.arr(es), metadata={"tag": tags})
                else:
                    r = nap.IntervalSet(pd.DataFrame({"start": G.arr(ss), "end": G.arr(es), "tag": tags}))
                impl = canon_res(r)
            except Exception as ex:
                r, impl = None, "E"
                cx.viol(dict(kk, part="exception"), "constructor raised " + type(ex).__name__, inp)
            cx.corr("%s\t%s\t%s\t%s" % ("mk" if form == "arrays" else "mk_df", C.fmt_ints(ss), C.fmt_ints(es), C.fmt_ints(tags)), impl, dict(inp, op="ctor_" + form))
            if r is None:
                continue
            if "tag" in r.metadata_columns:
                got = list(zip(ticks(r), [int(t) for t in r.metadata["tag"].values]))
                given = {t: (s, e) for s, e, t in zip(ss, es, tags)}
                # output interval i IS input interval i: same start; same end, except that an end TOUCHING the next start is given back 1 us earlier
                bad = [g for g in got if not (g[0][0] == given[g[1]][0] and g[0][1] == given[g[1]][1] - (US if given[g[1]][1] in ss else 0))]
                if bad or len(got) != m:
                    cx.viol(dict(kk, part="misattached"), "constructor kept metadata although output intervals are not the input intervals: %s" % bad, inp, impl)
            elif canonical:
                cx.viol(dict(kk, part="lost"), "canonical input lost its metadata", inp, impl)
    cx.flush()


# ----------------------------------------------------------------------------------------------
# intersect / set_diff / split carry the parents' metadata; union / merge_close / time_span drop it
def run_setops(cx):
    nap, pd = _nap()
    res = cx.res
    rng = random.Random(cx.seed * 13 + 3)
    pts = G.lattice(7 if cx.quick else 8, step=U)
    sets = [s for s in G.canonical_isets(pts, 3) if s]
    pairs = [(a, b) for a in sets for b in sets]
    if cx.quick:
        pairs = rng.sample(pairs, 1100)
    eps = {}

    def ep_of(a, col):
        k = (tuple(a), col)
        if k not in eps:
            eps[k] = mk_ep(nap, a, tagcol=col)
        return eps[k]
    for a, b in pairs:
        A, B = ep_of(a, "tag"), ep_of(b, "tagb")
        inp = {"A": a, "B": b}
        res.case(("setop", tuple(a), tuple(b)), nontrivial=any(s < e2 and s2 < e for s, e in a for s2, e2 in b))
        res.count("setop_pairs")
        # intersect
        r = call(cx, {"op": "intersect"}, inp, lambda: A.intersect(B))
        impl = canon_res(r, ("tag", "tagb")) if r is not None else "E"
        cx.corr("inter\t%s\t%s" % (obj_line(a), obj_line(b)), impl, dict(inp, op="intersect"))
        if r is not None and len(r):
            for col, orig in (("tag", a), ("tagb", b)):
                err = attach_err(r, orig, "inside", col)
                if err:
                    cx.viol({"op": "intersect", "side": col, "part": "lost" if err == "nometa" else "misattached"}, err, inp, impl)
        # set_diff
        r = call(cx, {"op": "set_diff"}, inp, lambda: A.set_diff(B))
        impl = canon_res(r) if r is not None else "E"
        cx.corr("diff\t%s\t%s" % (obj_line(a), C.fmt_iset(b)), impl, dict(inp, op="set_diff"))
        if r is not None and len(r):
            err = attach_err(r, a, "inside")
            if err:
                cx.viol({"op": "set_diff", "part": "lost" if err == "nometa" else "misattached"}, err, inp, impl)
            if any(any(s < e2 and s2 < e for s2, e2 in b) for s, e in ticks(r)):
                cx.viol({"op": "set_diff", "part": "intervals"}, "difference overlaps the subtrahend", inp, impl)
        # union drops
        r = call(cx, {"op": "union"}, inp, lambda: A.union(B))
        cx.corr("union\t%s\t%s" % (obj_line(a), obj_line(b)), canon_res(r) if r is not None else "E", dict(inp, op="union"))
        if r is not None and r.metadata_columns:
            cx.viol({"op": "union"}, "union returned metadata", inp, canon_res(r))
    for a in sets:
        A = ep_of(a, "tag")
        for b in (U, 2 * U, 3 * U):
            res.case(("split", tuple(a), b), nontrivial=any(e - s > b for s, e in a))
            res.count("split")
            r = call(cx, {"op": "split"}, {"A": a, "size": b}, lambda: A.split(b / 1e9))
            if r is None:
                continue
            impl = canon_res(r)
            cx.corr("split\t%s\t%d" % (obj_line(a), b), impl, {"op": "split", "A": a, "size": b})
            if len(r):
                err = attach_err(r, a, "inside")
                if err:
                    cx.viol({"op": "split", "part": "lost" if err == "nometa" else "misattached"}, err, {"A": a, "size": b}, impl)
            exp_n = sum((e - s) // b for s, e in a if e - s > b)
            if len(r) != exp_n:
                cx.viol({"op": "split", "part": "pieces"}, "split returned %d pieces, expected %d" % (len(r), exp_n), {"A": a, "size": b}, impl)
        for thr in (0, U, 2 * U):
            r = call(cx, {"op": "merge_close_intervals"}, {"A": a, "thr": thr}, lambda: A.merge_close_intervals(thr / 1e9))
            if r is None:
                continue
            res.case(("merge_close", tuple(a), thr), nontrivial=len(r) < len(a))
            cx.corr("merge_close\t%s\t%d" % (obj_line(a), thr), canon_res(r), {"op": "merge_close_intervals", "A": a, "thr": thr})
            if r.metadata_columns:
                cx.viol({"op": "merge_close_intervals"}, "merge_close_intervals returned metadata", {"A": a, "thr": thr})
        r = A.time_span()
        res.case(("time_span", tuple(a)), nontrivial=len(a) > 1)
        cx.corr("time_span\t%s" % obj_line(a), canon_res(r), {"op": "time_span", "A": a})
        if r.metadata_columns:
            cx.viol({"op": "time_span"}, "time_span returned metadata", {"A": a})
    # the same column name on both sides: the statement does not require a drop (the library warns and drops); whatever value
    # survives under that name must be the value of a parent (of A or of B) that contains the piece, never another interval's
    for a, b in rng.sample(pairs, 60):
        r = call(cx, {"op": "intersect", "columns": "same_name"}, {"A": a, "B": b}, lambda: ep_of(a, "tag").intersect(ep_of(b, "tag")))
        res.case(("setop_samecol", tuple(a), tuple(b)), nontrivial=True)
        if r is None:
            continue
        res.count("intersect_same_column_name_" + ("kept" if "tag" in r.metadata_columns else "dropped"))
        if "tag" in r.metadata_columns:
            for (s_, e_), t in zip(ticks(r), r.metadata["tag"].values):
                if not any(s0 // U == int(t) and s0 <= s_ and e_ <= e0 for s0, e0 in list(a) + list(b)):
                    cx.viol({"op": "intersect", "columns": "same_name", "part": "misattached"}, "piece (%d,%d) carries tag %d, which is not the tag of a parent containing it" % (s_, e_, int(t)),
                            {"A": a, "B": b}, canon_res(r))
                    break
    cx.flush()
    # sequences of three operations: tags still derive from the ORIGINAL A intervals (containment)
    ops = ["mask", "slice", "inter", "diff", "split"]
    nseq = 700 if cx.quick else 6000
    seqs = []
    for _ in range(nseq):
        a = rng.choice([s for s in sets if len(s) >= 2])
        steps = []
        for _k in range(NSTEPS):
            op = rng.choice(ops)
            if op == "mask":
                steps.append((op, [rng.random() < 0.6 for _ in range(8)]))
            elif op == "slice":
                steps.append((op, (rng.choice([None, 0, 1, -2]), rng.choice([None, 1, 2, -1, 5]))))
            elif op in ("inter", "diff"):
                steps.append((op, rng.choice(sets)))
            else:
                steps.append((op, rng.choice([U, 2 * U])))
        seqs.append((a, steps))
    state = []
    for a, steps in seqs:
        state.append({"a": a, "steps": steps, "obj": ep_of(a, "tag"), "model": ("K", a, [s // U for s, _ in a]), "alive": True})
    for k in range(NSTEPS):
        lines, idx = [], []
        for n_, st in enumerate(state):
            if not st["alive"]:
                continue
            op, arg = st["steps"][k]
            cur = st["obj"]
            kind, miv, mtags = st["model"]
            n = len(cur)
            try:
                if op == "mask":
                    m = arg[:n]
                    r = cur[np.array(m, dtype=bool)]
                    line = "get_pos\t%s\t%s\t%s" % (C.fmt_iset(miv), C.fmt_ints(mtags), C.fmt_ints([i for i, b in enumerate(m) if b]))
                elif op == "slice":
                    r = cur[arg[0]:arg[1]]
                    line = "get_pos\t%s\t%s\t%s" % (C.fmt_iset(miv), C.fmt_ints(mtags), C.fmt_ints(list(range(n))[arg[0]:arg[1]]))
                elif op == "inter":
                    r = cur.intersect(ep_of(arg, "tagb"))
                    line = "inter\t%s\t%s\t%s" % (C.fmt_iset(miv), C.fmt_ints(mtags), obj_line(arg))
                elif op == "diff":
                    r = cur.set_diff(ep_of(arg, "tagb"))
                    line = "diff\t%s\t%s\t%s" % (C.fmt_iset(miv), C.fmt_ints(mtags), C.fmt_iset(arg))
                else:
                    r = cur.split(arg / 1e9)
                    line = "split\t%s\t%s\t%d" % (C.fmt_iset(miv), C.fmt_ints(mtags), arg)
            except Exception as ex:
                cx.viol({"op": "sequence", "part": "exception", "step": op}, "raised " + type(ex).__name__, {"A": st["a"], "steps": st["steps"]})
                st["alive"] = False
                continue
            st["obj"] = r
            lines.append(line)
            idx.append(n_)
            if len(r):
                err = attach_err(r, st["a"], "inside")
                if err:
                    cx.viol({"op": "sequence", "step": op, "part": "lost" if err == "nometa" else "misattached"}, err, {"A": st["a"], "steps": st["steps"][:k + 1]}, canon_res(r))
                    st["alive"] = False
        out = C.run_model(lines, driver=D) if lines else []
        res.traces += len(lines)
        for n_, m in zip(idx, out):
            st = state[n_]
            r = st["obj"]
            impl = canon_res(r)
            f = m.split("|")
            if f[0] == "K" and st["steps"][k][0] == "inter":
                # model rows are (tagA, tagB) pairs: keep the A side
                t = f[3].split()
                m_cmp = "K|%s|%s|%s" % (f[1], f[2], " ".join(t[0::2]))
            else:
                m_cmp = m
            if m_cmp != impl:
                res.disagreements.append({"op": "sequence", "input": {"A": st["a"], "steps": st["steps"][:k + 1]}, "impl": impl, "model": m_cmp})
                st["alive"] = False
                continue
            if f[0] != "K" or not len(r):
                st["alive"] = False
                continue
            iv = [int(x) for x in f[1].split()]
            st["model"] = ("K", list(zip(iv[0::2], iv[1::2])), [int(x) for x in m_cmp.split("|")[3].split()])
    for a, steps in seqs:
        res.case(("seq", tuple(a), str(steps)), nontrivial=True)
        res.count("sequences_of_three_ops")


# ----------------------------------------------------------------------------------------------
# TsdFrame: column labels and column metadata follow the column's data
def run_frame(cx):
    nap, pd = _nap()
    res = cx.res
    rng = random.Random(cx.seed * 13 + 4)
    n = 4 if cx.quick else 5
    label_sets = {"default": list(range(n)), "permuted_int": [2, 0, 3, 1, 4][:n] if n == 5 else [2, 0, 3, 1],
                  "sparse_int": [10, 5, 7, 3, 8][:n], "str": ["a", "b", "c", "d", "e"][:n]}
    tt = [0, 2 * U, 4 * U, 6 * U]
    consts = [11 * (j + 1) for j in range(n)]
    sup = nap.IntervalSet(-1.0, 1.0)

    def code(l):
        return 100 + "abcde".index(l) if isinstance(l, str) else int(l)
    for lname, labs in label_sets.items():
        data = np.tile(np.array(consts, dtype=float), (len(tt), 1))
        grp = [j % 2 for j in range(n)]
        fr = nap.TsdFrame(t=G.arr(tt), d=data, columns=labs, time_support=sup,
                          metadata={"tag": [10 * c for c in consts], "lab": ["m%d" % c for c in consts], "grp": grp})
        lab_of = dict(zip(consts, labs))
        objl = "%s\t%s\t%s" % (C.fmt_ints([code(l) for l in labs]), C.fmt_ints(consts), C.fmt_ints([10 * c for c in consts]))

        def canon(r):
            if not isinstance(r, nap.TsdFrame):
                return "NOTFRAME"
            cs = [int(v) for v in r.values[0]] if len(r) else []
            md = r.metadata
            return "%s|%s|%s|%s" % (C.fmt_ints([code(l) for l in r.columns]), C.fmt_ints(cs), C.fmt_ints([code(l) for l in md.index]),
                                    C.fmt_ints(md["tag"].values) if "tag" in md.columns else "nometa")

        def check(r, want, kk, inp, f=lambda c: c):
            """want = constants of the expected columns in order; f = what the operation does to the data"""
            if not isinstance(r, nap.TsdFrame):
                cx.viol(dict(kk, part="type"), "result is not a TsdFrame", inp)
                return
            if len(r) == 0:
                return
            vals = r.values
            vals = vals[~np.isnan(vals).all(axis=1)]   # bins holding no sample
            if len(vals) == 0:
                return
            if not (vals == vals[0]).all():
                cx.viol(dict(kk, part="data"), "column data mixed", inp)
                return
            got = [int(v) for v in vals[0]]
            if got != [f(c) for c in want]:
                cx.viol(dict(kk, part="columns"), "selected columns are not the requested ones", inp, got, [f(c) for c in want])
                return
            if list(r.columns) != [lab_of[c] for c in want]:
                cx.viol(dict(kk, part="labels_misattached"), "column labels do not follow the column data", inp, list(r.columns), [lab_of[c] for c in want])
            md = r.metadata
            if "tag" not in md.columns:
                cx.viol(dict(kk, part="lost"), "column metadata lost", inp)
                return
            if list(md.index) != list(r.columns):
                cx.viol(dict(kk, part="metadata_index"), "metadata index differs from the columns", inp, list(md.index), list(r.columns))
            if [int(t) for t in md["tag"].values] != [10 * c for c in want] or list(md["lab"].values) != ["m%d" % c for c in want]:
                cx.viol(dict(kk, part="misattached"), "column metadata does not follow the column data", inp, [int(t) for t in md["tag"].values], [10 * c for c in want])
            elif any(int(r.get_info("tag")[l]) != 10 * c for l, c in zip(r.columns, want)) and len(set(r.columns)) == len(want):
                cx.viol(dict(kk, part="misattached"), "get_info by label disagrees with the data", inp)

        # positional column keys
        keys = []
        for m in range(1, n + 1):
            keys += [("list", list(p), list(p)) for p in itertools.permutations(range(n), m)]
        keys += [("list", [a - n, b], [a, b]) for a in range(n) for b in range(n) if a != b][:8]
        rngv = [None] + list(range(-n - 1, n + 2))
        sl = [(a, b, c) for a in rngv for b in rngv for c in (None, 1, 2, -1, -2)]
        for a, b, c in (rng.sample(sl, 120) if cx.quick else sl):
            keys.append(("slice", slice(a, b, c), list(range(n))[slice(a, b, c)]))
        for mask in itertools.product([False, True], repeat=n):
            ps = [i for i, b in enumerate(mask) if b]
            keys.append(("mask_ndarray", np.array(mask), ps))
            keys.append(("mask_list", list(mask), ps))
        for form, key, ps in keys:
            desc = [int(b) for b in key] if form.startswith("mask") else ([key.start, key.stop, key.step] if form == "slice" else key)
            inp = {"labels": labs, "form": form, "key": desc}
            res.count("frame_" + form)
            res.case(("frame", lname, form, str(desc)), nontrivial=0 < len(ps) and ps != list(range(n)))
            kk = {"op": "TsdFrame.__getitem__", "form": form}
            for rows, rname in ((slice(None), ":"), (slice(1, 3), "1:3")):
                try:
                    r = fr[rows, np.array(key) if form == "list" and rname == "1:3" else key]
                except Exception as ex:
                    cx.viol(dict(kk, part="exception"), "valid key raised " + type(ex).__name__, inp)
                    continue
                if len(ps) == 0:
                    continue
                check(r, [consts[p] for p in ps], kk, dict(inp, rows=rname))
                if rname == ":":
                    cx.corr("f_pos\t%s\t%s" % (objl, C.fmt_ints(ps)), canon(r), dict(inp, op="frame_get_pos"))
        # boolean pd.Series derived from the metadata (index = columns)
        for thr in consts + [0]:
            key = fr.tag > 10 * thr
            r = fr[key]
            ps = [j for j, c in enumerate(consts) if c > thr]
            res.case(("frame", lname, "series_mask", thr), nontrivial=0 < len(ps) < n)
            res.count("frame_series_mask")
            if ps:
                check(r, [consts[p] for p in ps], {"op": "TsdFrame.__getitem__", "form": "bool_series"}, {"labels": labs, "thr": thr})
                cx.corr("f_mask\t%s\t%s" % (objl, C.fmt_ints([int(c > thr) for c in consts])), canon(r), {"op": "frame_get_mask", "labels": labs, "thr": thr})
        # boolean pd.Series whose index is the column labels in ANOTHER order (a condition on re-ordered metadata). Which columns
        # such a key selects is not the statement's business (fr[:, key] takes the values by position, fr[key] reads it as a ROW
        # mask); the statement's demand is on what comes back: every returned column still has its own label and metadata row
        def check_attached(r, kk, inp):
            if not isinstance(r, nap.TsdFrame):
                cx.viol(dict(kk, part="type"), "result is not a TsdFrame", inp, type(r).__name__)
            elif len(r) and r.shape[1]:
                row = [int(v) for v in r.values[0]]
                if any(c not in consts for c in row):
                    cx.viol(dict(kk, part="data"), "column data is not an input column's", inp, row)
                else:
                    check(r, row, kk, inp)
        cperms = list(itertools.permutations(range(n)))
        cperms = rng.sample(cperms[1:], 6 if cx.quick else 40)
        for perm in cperms:
            for mask in itertools.product([False, True], repeat=n):
                if not any(mask):
                    continue
                key = pd.Series(list(mask), index=[labs[i] for i in perm])
                for form, fn in (("bool_series_permuted_index", lambda: fr[key]), (":,bool_series_permuted_index", lambda: fr[:, key])):
                    inp = {"labels": labs, "form": form, "mask_index": [labs[i] for i in perm], "mask": [int(b) for b in mask]}
                    res.count("frame_" + form)
                    res.case(("frame", lname, form, perm, mask), nontrivial=True)
                    kk = {"op": "TsdFrame.__getitem__", "form": form}
                    try:
                        r = fn()
                    except Exception as ex:
                        if form[0] == ":":
                            cx.viol(dict(kk, part="exception"), "valid key raised " + type(ex).__name__, inp)
                        else:   # read as a row mask of the wrong length when the frame is not square: no object is produced
                            res.count("observed:frame_bare_bool_series_permuted_index_read_as_row_mask_raises")
                        continue
                    if form[0] != ":" and isinstance(r, nap.TsdFrame) and r.shape[1] == n and len(r) != len(fr):
                        res.count("observed:frame_bare_bool_series_permuted_index_selected_rows")
                    check_attached(r, kk, inp)
        # NumPy functions that move the data columns (same shape, so the library keeps labels and metadata in the OLD order)
        rev = list(range(n))[::-1]
        for fname, fn, order in (("flip", lambda: np.flip(fr, axis=1), rev), ("fliplr", lambda: np.fliplr(fr), rev),
                                 ("roll", lambda: np.roll(fr, 1, axis=1), [n - 1] + list(range(n - 1))), ("take", lambda: np.take(fr, rev, axis=1), rev)):
            res.case(("frame", lname, "numpy_column_permutation", fname), nontrivial=True)
            res.count("frame_numpy_column_permutation")
            kk = {"op": "TsdFrame.numpy_column_permutation", "function": fname, "axis": 1}
            try:
                r = fn()
            except Exception as ex:
                cx.viol(dict(kk, part="exception"), "raised " + type(ex).__name__, {"labels": labs, "function": fname})
                continue
            if isinstance(r, nap.TsdFrame):   # a bare ndarray carries no labels: nothing can be misattached
                check(r, [consts[j] for j in order], kk, {"labels": labs, "function": "np.%s along axis 1" % fname})
        # label keys: loc (all label kinds) and [] (string labels)
        lkeys = []
        for m in range(2, n + 1):
            lkeys += [list(p) for p in itertools.permutations(range(n), m)]
        for p in lkeys:
            ks = [labs[i] for i in p]
            forms = [("loc", lambda: fr.loc[ks])]
            if lname == "str":
                forms.append(("getitem_labels", lambda: fr[ks]))
            for form, fn in forms:
                inp = {"labels": labs, "form": form, "key": ks}
                res.count("frame_" + form)
                res.case(("frame", lname, form, str(ks)), nontrivial=True)
                kk = {"op": "TsdFrame." + ("loc" if form == "loc" else "__getitem__"), "form": form}
                try:
                    r = fn()
                except Exception as ex:
                    cx.viol(dict(kk, part="exception"), "valid key raised " + type(ex).__name__, inp)
                    continue
                check(r, [consts[i] for i in p], kk, inp)
                cx.corr("f_labels\t%s\t%s" % (objl, C.fmt_ints([code(l) for l in ks])), canon(r), dict(inp, op="frame_get_labels"))
        for j, l in enumerate(labs):
            res.case(("frame", lname, "loc_scalar", str(l)), nontrivial=True)
            try:
                r = fr.loc[l]
            except Exception as ex:
                cx.viol({"op": "TsdFrame.loc", "form": "scalar", "part": "exception"}, "valid key raised " + type(ex).__name__, {"labels": labs, "key": l})
                continue
            if not (np.asarray(r.values) == consts[j]).all():
                cx.viol({"op": "TsdFrame.loc", "form": "scalar"}, "loc[label] is not that label's column", {"labels": labs, "key": l})
        # groupby
        for assign in itertools.product([0, 1], repeat=n):
            f2 = nap.TsdFrame(t=G.arr(tt), d=data, columns=labs, time_support=sup,
                              metadata={"tag": [10 * c for c in consts], "lab": ["m%d" % c for c in consts], "grp": list(assign)})
            res.case(("frame", lname, "groupby", assign), nontrivial=0 < sum(assign) < n)
            res.count("frame_groupby")
            groups = f2.groupby("grp")
            for v in set(assign):
                want = [j for j, a in enumerate(assign) if a == v]
                if sorted(int(i) for i in groups[v]) != want:
                    cx.viol({"op": "TsdFrame.groupby"}, "group positions are not the columns whose metadata value is the group's", {"labels": labs, "grp": assign})
                try:
                    r = f2.groupby("grp", get_group=v)
                except Exception as ex:
                    cx.viol({"op": "TsdFrame.groupby", "part": "exception"}, "get_group raised " + type(ex).__name__, {"labels": labs, "grp": assign, "group": v})
                    continue
                check(r, [consts[j] for j in want], {"op": "TsdFrame.groupby", "part": "get_group"}, {"labels": labs, "grp": assign, "group": v})
                cx.corr("f_labels\t%s\t%s" % (objl, C.fmt_ints([code(labs[j]) for j in want])), canon(r), {"op": "frame_groupby", "labels": labs, "grp": assign})
        # operations that keep every column: restrict, get, row slicing, arithmetic, ufuncs, bin_average, interpolate, save/load
        ep = nap.IntervalSet(G.arr([0, 4 * U]), G.arr([2 * U, 6 * U]))
        same = [("restrict", lambda: fr.restrict(ep), None), ("get", lambda: fr.get(0.0, 4 * U / 1e9), None), ("rows", lambda: fr[1:3], None),
                ("rows_mask", lambda: fr[np.array([True, False, True, True])], None),
                ("add", lambda: fr + 1, lambda c: c + 1), ("radd", lambda: 1 + fr, lambda c: c + 1), ("mul", lambda: fr * 2, lambda c: 2 * c),
                ("neg", lambda: -fr, lambda c: -c), ("ufunc", lambda: np.negative(fr), lambda c: -c), ("add_array", lambda: fr + np.ones(n), lambda c: c + 1),
                ("bin_average", lambda: fr.bin_average(4 * U / 1e9), None), ("interpolate", lambda: fr.interpolate(nap.Ts(G.arr([U, 3 * U]))), None),
                ("copy", lambda: fr.copy(), None), ("dropna", lambda: fr.dropna(), None), ("value_from", lambda: nap.Ts(G.arr([U, 5 * U])).value_from(fr), None)]
        for nm, fn, f in same:
            res.case(("frame", lname, nm), nontrivial=True)
            res.count("frame_same_columns_op")
            try:
                r = fn()
            except Exception as ex:
                cx.viol({"op": "TsdFrame." + nm, "part": "exception"}, "raised " + type(ex).__name__ + ": " + str(ex)[:80], {"labels": labs})
                continue
            check(r, consts, {"op": "TsdFrame." + nm}, {"labels": labs}, f or (lambda c: c))
            if f is None and nm in ("restrict", "get", "rows", "copy"):
                cx.corr("f_map\t%s" % objl, canon(r), {"op": "frame_map", "via": nm, "labels": labs})
        # then index the result of an operation (sequence of two operations)
        for p in rng.sample(lkeys, 12):
            r = (fr.restrict(ep) * 1)[:, list(p)]
            res.case(("frame", lname, "seq", str(p)), nontrivial=True)
            check(r, [consts[i] for i in p], {"op": "TsdFrame.sequence"}, {"labels": labs, "key": list(p)})
            r2 = r[:, ::-1]
            check(r2, [consts[i] for i in reversed(p)], {"op": "TsdFrame.sequence"}, {"labels": labs, "key": list(p), "then": "::-1"})
        with tempfile.TemporaryDirectory() as d:
            fr.save(os.path.join(d, "f.npz"))
            r = nap.load_file(os.path.join(d, "f.npz"))
            res.case(("frame", lname, "save_load"), nontrivial=True)
            res.count("save_load")
            if lname == "str":
                check(r, consts, {"op": "TsdFrame.save_load"}, {"labels": labs})
            else:
                lab_of2 = dict(lab_of)
                check(r, consts, {"op": "TsdFrame.save_load"}, {"labels": labs})
    cx.flush()


# ----------------------------------------------------------------------------------------------
# TsGroup: members and their metadata follow the key
def run_group(cx):
    nap, pd = _nap()
    res = cx.res
    rng = random.Random(cx.seed * 13 + 5)
    n = 4 if cx.quick else 5
    key_sets = {"range": list(range(n)), "sparse": [1, 3, 7, 12, 20][:n]}
    sup = nap.IntervalSet(-1.0, 1.0)

    def member(r):  # spikes at (16 m + r) U : every spike identifies the member
        return nap.Ts(G.arr([(16 * m + r) * U for m in range(4)]), time_support=sup)

    def resid(ts):
        return None if len(ts) == 0 else (C.to_ns(ts.t[0]) // U) % 16

    def mk(keys, resids, grp=None):
        md = {"tag": [10 * r for r in resids], "lab": ["n%d" % r for r in resids]}
        if grp is not None:
            md["grp"] = list(grp)
        return nap.TsGroup({k: member(r) for k, r in zip(keys, resids)}, time_support=sup, metadata=md)

    def canon(g):
        if not isinstance(g, nap.TsGroup):
            return "NOTGROUP"
        md = g.metadata
        return "%s|%s|%s|%s" % (C.fmt_ints(g.keys()), C.fmt_ints([resid(g[k]) if resid(g[k]) is not None else -1 for k in g.keys()]), C.fmt_ints(md.index),
                                C.fmt_ints(md["tag"].values) if "tag" in md.columns else "nometa")

    def check(g, want, kk, inp):
        """want: list of (key, residue) expected, sorted by key; residue None = do not care about key identity (reset_index)"""
        if not isinstance(g, nap.TsGroup):
            cx.viol(dict(kk, part="type"), "result is not a TsGroup", inp)
            return
        ks = list(g.keys())
        if ks != [k for k, _ in want]:
            cx.viol(dict(kk, part="keys"), "keys of the result are not the requested ones", inp, ks, [k for k, _ in want])
            return
        md = g.metadata
        if "tag" not in md.columns:
            cx.viol(dict(kk, part="lost"), "member metadata lost", inp)
            return
        if list(md.index) != ks:
            cx.viol(dict(kk, part="metadata_index"), "metadata index differs from the keys", inp, list(md.index), ks)
        for i, (k, r) in enumerate(want):
            rr = resid(g[k])
            if rr is None:
                continue
            if r is not None and rr != r:
                cx.viol(dict(kk, part="member_misattached"), "key %d holds the spikes of another member" % k, inp)
            if int(md["tag"].values[i]) != 10 * rr or md["lab"].values[i] != "n%d" % rr:
                cx.viol(dict(kk, part="misattached"), "key %d (member residue %d) carries tag %d" % (k, rr, int(md["tag"].values[i])), inp, canon(g))
            elif int(g.get_info("tag")[k]) != 10 * rr:
                cx.viol(dict(kk, part="misattached"), "get_info by key disagrees with the member", inp)

    for kname, keys in key_sets.items():
        resids = [(3 * j + 2) % 16 for j in range(n)]
        g = mk(keys, resids, [j % 2 for j in range(n)])
        rk = dict(zip(keys, resids))
        objl = "%s\t%s\t%s" % (C.fmt_ints(keys), C.fmt_ints(resids), C.fmt_ints([10 * r for r in resids]))
        check(g, list(zip(keys, resids)), {"op": "TsGroup.__init__"}, {"keys": keys})
        # key lists in every order, masks, Series masks
        subs = []
        for m in range(1, n + 1):
            subs += [list(p) for p in itertools.permutations(range(n), m)]
        for p in subs:
            ks = [keys[i] for i in p]
            for form, key in (("list", ks), ("ndarray", np.array(ks))):
                inp = {"keys": keys, "form": form, "key": ks}
                res.count("group_" + form)
                res.case(("group", kname, form, str(ks)), nontrivial=len(ks) < n or ks != sorted(ks))
                kk = {"op": "TsGroup.__getitem__", "form": form}
                try:
                    r = g[key]
                except Exception as ex:
                    cx.viol(dict(kk, part="exception"), "valid key raised " + type(ex).__name__, inp)
                    continue
                check(r, [(k, rk[k]) for k in sorted(ks)], kk, inp)
                cx.corr("g_keys\t%s\t%s" % (objl, C.fmt_ints(ks)), canon(r), dict(inp, op="group_get_keys"))
        for mask in itertools.product([False, True], repeat=n):
            if not any(mask):
                continue
            want = [(k, rk[k]) for k, b in zip(keys, mask) if b]
            for form, key in (("mask_ndarray", np.array(mask)), ("mask_list", list(mask)), ("bool_series", pd.Series(list(mask), index=keys))):
                inp = {"keys": keys, "form": form, "mask": [int(b) for b in mask]}
                res.count("group_" + form)
                res.case(("group", kname, form, mask), nontrivial=sum(mask) < n)
                kk = {"op": "TsGroup.__getitem__", "form": form}
                try:
                    r = g[key]
                except Exception as ex:
                    cx.viol(dict(kk, part="exception"), "valid key raised " + type(ex).__name__, inp)
                    continue
                check(r, want, kk, inp)
                cx.corr("g_mask\t%s\t%s" % (objl, C.fmt_ints([int(b) for b in mask])), canon(r), dict(inp, op="group_get_mask"))
        # boolean pd.Series whose index is the keys in another order, pd.Index / integer Series of keys in any order: whichever members
        # come back, each key still holds its own member and its own metadata row
        gperms = rng.sample(list(itertools.permutations(range(n)))[1:], 6 if cx.quick else 40)
        for perm in gperms:
            for mask in itertools.product([False, True], repeat=n):
                if not any(mask):
                    continue
                inp = {"keys": keys, "form": "bool_series_permuted_index", "mask_index": [keys[i] for i in perm], "mask": [int(b) for b in mask]}
                res.count("group_bool_series_permuted_index")
                res.case(("group", kname, "bool_series_permuted_index", perm, mask), nontrivial=True)
                kk = {"op": "TsGroup.__getitem__", "form": "bool_series_permuted_index"}
                try:
                    r = g[pd.Series(list(mask), index=[keys[i] for i in perm])]
                except Exception as ex:
                    cx.viol(dict(kk, part="exception"), "valid key raised " + type(ex).__name__, inp)
                    continue
                if isinstance(r, nap.TsGroup) and len(r) != sum(mask):
                    cx.viol(dict(kk, part="keys"), "a mask with %d True values returned %d members" % (sum(mask), len(r)), inp)
                check(r, [(k, rk[k]) for k in (r.keys() if isinstance(r, nap.TsGroup) else [])], kk, inp)
        for p in subs:
            if len(p) < 2:
                continue
            ks = [keys[i] for i in p]
            for form, key in (("pd.Index", pd.Index(ks)), ("pd.Series_int", pd.Series(ks)), ("pd.Series_int_own_index", pd.Series(ks, index=[7 - 2 * i for i in range(len(ks))]))):
                inp = {"keys": keys, "form": form, "key": ks}
                res.count("group_" + form)
                res.case(("group", kname, form, str(ks)), nontrivial=True)
                kk = {"op": "TsGroup.__getitem__", "form": form}
                try:
                    r = g[key]
                except Exception as ex:
                    cx.viol(dict(kk, part="exception"), "valid key raised " + type(ex).__name__, inp)
                    continue
                check(r, [(k, rk[k]) for k in sorted(ks)], kk, inp)
        for k in keys:
            res.case(("group", kname, "scalar", k), nontrivial=True)
            if resid(g[k]) != rk[k]:
                cx.viol({"op": "TsGroup.__getitem__", "form": "scalar"}, "g[key] is not that key's member", {"keys": keys, "key": k})
        # getby_threshold / getby_category / getby_intervals / groupby
        for thr in sorted(10 * r for r in resids):
            for op, f in ((">", lambda a, b: a > b), ("<", lambda a, b: a < b), (">=", lambda a, b: a >= b), ("<=", lambda a, b: a <= b)):
                want = [(k, rk[k]) for k in keys if f(10 * rk[k], thr)]
                res.case(("group", kname, "getby_threshold", thr, op), nontrivial=0 < len(want) < n)
                res.count("group_getby_threshold")
                if not want:
                    continue
                r = g.getby_threshold("tag", thr, op)
                check(r, want, {"op": "TsGroup.getby_threshold"}, {"keys": keys, "thr": thr, "cmp": op})
        for assign in itertools.product([0, 1], repeat=n):
            g2 = mk(keys, resids, assign)
            res.case(("group", kname, "getby_category", assign), nontrivial=0 < sum(assign) < n)
            res.count("group_getby_category")
            cat = g2.getby_category("grp")
            grp = g2.groupby("grp")
            for v in set(assign):
                want = [(k, rk[k]) for k, a in zip(keys, assign) if a == v]
                check(cat[v], want, {"op": "TsGroup.getby_category"}, {"keys": keys, "grp": assign, "group": v})
                check(g2.groupby("grp", get_group=v), want, {"op": "TsGroup.groupby", "part": "get_group"}, {"keys": keys, "grp": assign, "group": v})
                if sorted(int(i) for i in grp[v]) != [k for k, _ in want]:
                    cx.viol({"op": "TsGroup.groupby"}, "group keys are not the members whose metadata value is the group's", {"keys": keys, "grp": assign})
        sl, _ = g.getby_intervals("tag", np.array([0, 45, 95, 200]))
        for part in sl:
            res.case(("group", kname, "getby_intervals", len(part)), nontrivial=True)
            check(part, [(k, rk[k]) for k in part.keys()], {"op": "TsGroup.getby_intervals"}, {"keys": keys})
        # operations that keep every member: restrict, get, save/load
        ep = nap.IntervalSet(G.arr([10 * U, 40 * U]), G.arr([30 * U, 70 * U]))
        src = nap.Tsd(G.arr([0, 80 * U]), np.array([1.0, 2.0]), time_support=sup)
        for nm, fn in (("restrict", lambda: g.restrict(ep)), ("get", lambda: g.get(20 * U / 1e9, 60 * U / 1e9)), ("value_from", lambda: g.value_from(src)),
                       ("restrict_then_keys", lambda: g.restrict(ep)[[keys[-1], keys[0]]])):
            res.case(("group", kname, nm), nontrivial=True)
            res.count("group_same_members_op")
            try:
                r = fn()
            except Exception as ex:
                cx.viol({"op": "TsGroup." + nm, "part": "exception"}, "raised " + type(ex).__name__, {"keys": keys})
                continue
            want = list(zip(keys, resids)) if nm != "restrict_then_keys" else [(keys[0], resids[0]), (keys[-1], resids[-1])]
            check(r, want, {"op": "TsGroup." + nm}, {"keys": keys})
            if nm in ("restrict", "get"):
                cx.corr("g_map\t%s" % objl, canon(r), {"op": "group_map", "via": nm, "keys": keys})
        with tempfile.TemporaryDirectory() as d:
            g.save(os.path.join(d, "g.npz"))
            r = nap.load_file(os.path.join(d, "g.npz"))
            res.case(("group", kname, "save_load"), nontrivial=True)
            res.count("save_load")
            check(r, list(zip(keys, resids)), {"op": "TsGroup.save_load"}, {"keys": keys})
        # merge_group: every split of the members into two groups (interleaved keys included), both index modes
        for assign in itertools.product([0, 1], repeat=n):
            if sum(assign) in (0, n):
                continue
            k1 = [k for k, a in zip(keys, assign) if a == 0]
            k2 = [k for k, a in zip(keys, assign) if a == 1]
            interleaved = max(k1) > min(k2)
            for order in ("12", "21"):
                ka, kb = (k1, k2) if order == "12" else (k2, k1)
                inter = max(ka) > min(kb)
                for reset in (False, True):
                    for ign in (False, True):
                        ga, gb = mk(ka, [rk[k] for k in ka]), mk(kb, [rk[k] for k in kb])
                        inp = {"keys_1": ka, "keys_2": kb, "reset_index": reset, "ignore_metadata": ign}
                        res.case(("group", kname, "merge", assign, order, reset, ign), nontrivial=True)
                        res.count("group_merge" + ("_keys_not_ascending" if inter else ""))
                        kk = {"op": "TsGroup.merge_group", "reset_index": reset, "ignore_metadata": ign, "keys": "concatenation_not_sorted" if inter else "ascending"}
                        try:
                            if order == "12":
                                r = nap.TsGroup.merge_group(ga, gb, reset_index=reset, ignore_metadata=ign)
                            else:
                                r = ga.merge(gb, reset_index=reset, ignore_metadata=ign)
                        except Exception as ex:
                            r = None
                            cx.viol(dict(kk, part="exception"), "merge of groups with disjoint keys raised %s: %s" % (type(ex).__name__, str(ex)[:60]), inp)
                        if not ign:
                            cx.corr("g_merge\t%d\t%s\t%s\t%s\t%s\t%s\t%s" % (int(reset), C.fmt_ints(ka), C.fmt_ints([rk[k] for k in ka]), C.fmt_ints([10 * rk[k] for k in ka]),
                                                                          C.fmt_ints(kb), C.fmt_ints([rk[k] for k in kb]), C.fmt_ints([10 * rk[k] for k in kb])),
                                    "E" if r is None else canon(r), dict(inp, op="group_merge"))
                        if r is not None and not ign:
                            want = [(i, None) for i in range(n)] if reset else sorted([(k, rk[k]) for k in ka + kb])
                            check(r, want, kk, inp)
                        if r is not None and ign and [c for c in r.metadata_columns if c != "rate"]:
                            cx.viol(dict(kk, part="ignore"), "ignore_metadata kept metadata", inp)
                        # the operands must still be intact (sequence: merge, then index an operand)
                        for gx, kx, nm in ((ga, ka, "first"), (gb, kb, "second")):
                            try:
                                sub = gx[[kx[0]]]
                                bad = int(sub.metadata["tag"].values[0]) != 10 * rk[kx[0]] or list(gx.metadata.index) != kx
                            except Exception:
                                bad = True
                            if bad:
                                cx.viol(dict(kk, part="operand_corrupted", operand=nm), "after merge_group the %s operand's metadata no longer follows its keys" % nm, inp,
                                        list(gx.metadata.index), kx)
        # merge_group of THREE groups: every split of the members into three non-empty groups, two argument orders, both index modes
        for assign in itertools.product([0, 1, 2], repeat=n):
            if len(set(assign)) < 3:
                continue
            parts = [[k for k, a in zip(keys, assign) if a == c] for c in (0, 1, 2)]
            for order in ((0, 1, 2), (2, 0, 1)):
                ksl = [parts[c] for c in order]
                cat = [k for ks in ksl for k in ks]
                inter = cat != sorted(cat)
                for reset in (False, True):
                    gs = [mk(ks, [rk[k] for k in ks]) for ks in ksl]
                    inp = {"keys_list": ksl, "reset_index": reset, "ignore_metadata": False}
                    res.case(("group", kname, "merge3", assign, order, reset), nontrivial=True)
                    res.count("group_merge_three" + ("_keys_not_ascending" if inter else ""))
                    kk = {"op": "TsGroup.merge_group", "operands": 3, "reset_index": reset, "ignore_metadata": False, "keys": "concatenation_not_sorted" if inter else "ascending"}
                    try:
                        r = nap.TsGroup.merge_group(*gs, reset_index=reset) if order[0] == 0 else gs[0].merge(gs[1], gs[2], reset_index=reset)
                    except Exception as ex:
                        cx.viol(dict(kk, part="exception"), "merge of groups with disjoint keys raised %s: %s" % (type(ex).__name__, str(ex)[:60]), inp)
                        continue
                    check(r, [(i, None) for i in range(n)] if reset else sorted((k, rk[k]) for k in cat), kk, inp)
                    if reset and isinstance(r, nap.TsGroup) and sorted(x for x in (resid(r[k]) for k in r.keys()) if x is not None) != sorted(rk[k] for k in cat):
                        cx.viol(dict(kk, part="members"), "the merged group does not hold each operand member exactly once", inp, canon(r))
                    for gx, kx, nm in zip(gs, ksl, ("first", "second", "third")):
                        if list(gx.metadata.index) != kx or [int(t) for t in gx.metadata["tag"].values] != [10 * rk[k] for k in kx]:
                            cx.viol(dict(kk, part="operand_corrupted", operand=nm), "after merge_group the %s operand's metadata no longer follows its keys" % nm, inp, list(gx.metadata.index), kx)
    cx.flush()


def run(res, tier, seed):
    warnings.simplefilter("ignore")
    cx = Ctx(res, tier, seed)
    res.rule = ("TAGGED data (interval tag = its start, column tag = 10 x its constant value, member tag = 10 x the residue of its spike times): every tag is recomputed from the element's own "
                "data; an output interval must equal its input interval EXACTLY (a 1 us shorter end is accepted only from the constructor, for an end that touches the next start). "
                "IntervalSet (4/5 intervals, 2 geometries): ALL ints, slices (incl. negative steps), position lists in every order (+ repeats, out of range), all masks (list/ndarray), "
                "pd.Index / int Series (default and own index) in every order, boolean Series with its index in every order, EACH ALSO in the tuple form ep[key, :]; ep[rows, 'tag'], "
                "ep[rows, [metadata columns]], ep[rows, ['start','end',metadata columns]] for int / slice / list / ndarray / mask rows (negative positions included); groupby, drop_short/long, "
                "loc [complete]; constructor over ALL raw start/end sequences of <=3 intervals on a 5-point lattice (arrays and DataFrame form); intersect/set_diff/union on pairs of canonical "
                "sets (<=3 intervals, 7/8 points), intersect with the same column name on both sides, split, merge_close, time_span; sequences of three operations; TsdFrame (4 label kinds): all "
                "position lists, slices, masks, label lists in every order, boolean Series with the labels in another order (bare and [:, key]), loc, groupby (groups of one column included), "
                "16 column-preserving operations, 4 NumPy column permutations, save/load; TsGroup (2 key sets): key lists in every order, masks, boolean Series with the keys in another order, "
                "pd.Index / int Series of keys, getby_*, groupby, restrict/get, save/load, merge_group over every split into two x order x flags and every split into three x 2 orders x "
                "reset_index, operands re-checked after each merge. non-trivial = the selection is proper or reorders / the input needs repair / the operands overlap")
    res.exhaustive = True
    for part in (run_iset_index, run_ctor, run_setops, run_frame, run_group):
        try:
            part(cx)
        except Exception as ex:  # an exception nobody anticipated: report it against the part, keep the other parts running
            import traceback
            cx.pend = []
            cx.viol({"op": part.__name__, "part": "unexpected_exception"}, "raised %s: %s" % (type(ex).__name__, str(ex)[:120]), {"traceback": traceback.format_exc()[-600:]})
    cx.flush()


def search(res, seed):
    r2 = C.Result()
    run(r2, "thorough", seed)
    for v in r2.violations:
        if C.match_known("C13", v) is None:
            return v
    return r2.violations[0] if r2.violations else None


def replay(payload):
    nap, pd = _nap()
    warnings.simplefilter("ignore")
    v = payload.get("violation") or (payload.get("disagreements") or [{}])[0]
    inp = v.get("input", {})
    key = v.get("key", {})
    print("replay", key, inp)
    if "intervals" in inp and "mask_index" in inp:
        ivs = [tuple(x) for x in inp["intervals"]]
        ep = mk_ep(nap, ivs)
        key = pd.Series([bool(b) for b in inp["mask"]], index=inp["mask_index"])
        r = ep[key, :] if inp.get("tuple") else ep[key]
        err = attach_err(r, ivs, "same")
        print(r, "\noracle:", err)
        return 1 if err else 0
    if "intervals" in inp and "rows_form" in inp:
        ivs = [tuple(x) for x in inp["intervals"]]
        ep = mk_ep(nap, ivs)
        f, d = inp["rows_form"], inp["rows"]
        rows = d if f in ("int", "list") else slice(*d) if f == "slice" else np.array(d, dtype=bool if f.startswith("mask") else int)
        n = len(ivs)
        ps = [d % n] if f == "int" else list(range(n))[rows] if f == "slice" else [i for i, b in enumerate(d) if b] if f.startswith("mask") else [p % n for p in d]
        print("ep[rows, 'start'] ->", ep[rows, "start"], " positions", ps, " their tags", [ivs[p][0] // U for p in ps])
        try:
            r = ep[rows, inp["columns"]]
        except Exception as ex:
            print("ep[rows, %r] raised" % (inp["columns"],), type(ex).__name__, ex)
            return 1
        print("ep[rows, %r] ->" % (inp["columns"],))
        print(r)
        if isinstance(r, nap.IntervalSet):
            err = attach_err(r, ivs, "same")
            bad = (err and not (err == "nometa" and not strictly_inc(ps))) or (strictly_inc(ps) and [t[0] for t in ticks(r)] != [ivs[p][0] for p in ps])
            print("oracle:", err)
            return 1 if bad else 0
        got = [int(x) for x in np.atleast_1d(np.asarray(r if isinstance(inp["columns"], str) else r["tag"]))]
        return 0 if got == [ivs[p][0] // U for p in ps] else 1
    if inp.get("function", "").startswith("np."):
        fr = nap.TsdFrame(t=np.arange(3.0), d=np.tile([11.0, 22, 33, 44], (3, 1)), columns=list("abcd"), metadata={"tag": [110, 220, 330, 440]})
        for nm, r in (("flip", np.flip(fr, axis=1)), ("roll", np.roll(fr, 1, axis=1))):
            print("np.%s along axis 1: columns" % nm, list(r.columns), "row", r.values[0].tolist(), "tags", list(r.metadata["tag"]))
        return 1 if list(np.flip(fr, axis=1).columns) == list("abcd") else 0
    if "keys_1" in inp:
        def member(r):
            return nap.Ts(G.arr([(16 * m + r) * U for m in range(4)]))
        sup = nap.IntervalSet(-1.0, 1.0)
        gs = [nap.TsGroup({k: member(k % 16) for k in ks}, time_support=sup, metadata={"tag": [10 * (k % 16) for k in ks]}) for ks in (inp["keys_1"], inp["keys_2"])]
        try:
            r = nap.TsGroup.merge_group(*gs, reset_index=inp["reset_index"], ignore_metadata=inp["ignore_metadata"])
            print(r)
        except Exception as ex:
            print("raised", type(ex).__name__, ex)
            return 1
        bad = [list(g.metadata.index) != ks for g, ks in zip(gs, (inp["keys_1"], inp["keys_2"]))]
        print("operand metadata index intact:", [not b for b in bad])
        return 1 if any(bad) else 0
    print("no dedicated replay for this case; run the quick tier")
    return 1
