"""C16 correlograms and peri-event alignment report true lags to the reference events."""
import itertools
import random
import warnings

import numpy as np

import common as C
import gen as G

LEVEL = "proof"
DRIVERS = ["driver_c16"]
TRUSTED = ["model: coq/Model/Correlogram.v (xc_fwd/xc_bwd cursor zipper, xc_bins, xcorr_counts, xcorr_centres2, autocorr_counts, Q-valued normalisation) and "
           "coq/Model/Perievent.v (align_one/align_tsd; pc_adv/pc_epoch_pos/pc_win/pc_kernel, scatter by (size, offset), pc_public) over Model/Restrict.v, Count.v, Slice.v; "
           "theorems: Proofs/CorrelogramProofs.v, Proofs/PerieventProofs.v, Proofs/PerieventContProofs.v",
           "np.searchsorted(side=left) on a sorted array is the count #{t < v}; np.unique lists exactly the values present; np.arange(0, w + bs, bs) has ceil(w/bs) + 1 entries (NumPy's contracts)",
           "pandas DataFrame assembly / division by the rate Series and the TsGroup/Ts/Tsd/TsdFrame constructors' restriction to the given time support are exercised by the public-API oracle, not modelled line by line"]
ASSUMPTIONS = ["exhaustive cases live on the dyadic lattice 2^-9 s (bins multiples of it) where `rbound += binsize`, `t - w`, `2w/b` are exact in float64; on decimal inputs a lag exactly on a bin edge "
               "and a sample exactly on a peri-event window edge are counted as float_ambiguous (the counts must then lie between the strict and the closed bin counts); the bin centres are judged exactly everywhere",
               "rates are recovered as integers: value * n_ref * binsize (* rate of the target when norm=True) must be within 1e-6 of the integer pair count",
               "reference trains are non-empty (0/0 = NaN otherwise, not judged); norm=True with an empty target is 0/0 = NaN (checked to be NaN)",
               "compute_autocorrelogram labels its rows with np.round(centres, 9), exact on nanosecond ticks; bins that are not whole microseconds are probed separately (key part=index_rounded_to_us, a fixed finding)",
               "compute_perievent_continuous: 'o steps' is read as the time offset o*dt, dt = the sampling step = the smallest positive difference between consecutive samples; the ROW SET (offsets with -w0 <= o*dt <= w1) "
               "is judged when every two consecutive samples of a common epoch are dt apart and dt is witnessed inside an epoch or by the whole series being regular (regular sampling with holes, whichever samples come first); "
               "otherwise (irregular inside an epoch, fewer than two sample times) only: no exception, exactly one row at time 0, increasing row times, and the index-level statement for the rows returned",
               "'nearest' ties (event exactly midway between two samples) may go to either sample for the statement, the model fixes the later one",
               "the model of compute_perievent_continuous copies `time_array[1] - time_array[0]`: it is compared with the implementation whenever that first step is positive, and with the statement only when the first step "
               "IS the sampling step (theorem C16_continuous_public_step; outside, C16_continuous_first_step_refuted)",
               "the nearest-sample theorem needs non-decreasing sample times and event times (what Ts/Tsd guarantee)"]

U = 1953125          # 2^-9 s in ticks
V = 8 * U            # 2^-6 s = 15625 us: dyadic AND a whole number of microseconds


def _nap():
    import pynapple as nap
    from pynapple.process import correlograms as CG
    from pynapple.process import _process_functions as PF
    return nap, CG, PF


# ----------------------------------------------------------------------------------------------
# oracles = brute-force restatements of the property (ticks)
def o_centres(b, w):
    """the integer multiples of binsize inside the requested window [-w, w]"""
    m = w // b
    return [k * b for k in range(-m, m + 1)]


def o_hist(t1, t2, b, w):
    """pairs (reference r, target t) whose lag t - r lies in the half-open bin of width b centred on c"""
    return [sum(1 for r in t1 for t in t2 if 2 * c - b <= 2 * (t - r) < 2 * c + b) for c in o_centres(b, w)]


def o_hist_bounds(t1, t2, b, w, nb):
    """decimal lattices: a lag exactly on a bin edge may fall on either side; per bin (pairs strictly inside, pairs inside or on an edge),
    for the nb bins the implementation reports"""
    m = nb // 2
    lo = [sum(1 for r in t1 for t in t2 if 2 * k * b - b < 2 * (t - r) < 2 * k * b + b) for k in range(-m, m + 1)]
    hi = [sum(1 for r in t1 for t in t2 if 2 * k * b - b <= 2 * (t - r) <= 2 * k * b + b) for k in range(-m, m + 1)]
    return lo, hi


def o_auto(t, b, w):
    h = o_hist(t, t, b, w)
    h[len(h) // 2] = 0
    return h


def o_perievent(ts, vs, tref, w0, w1):
    return [(r, [(t - r, v) for t, v in zip(ts, vs) if r - w0 <= t < r + w1]) for r in tref]


def sampling_step(ts, ep):
    """(dt, judged). dt = the sampling step of a regularly sampled series with holes = the smallest positive difference between
    consecutive samples (None when there are fewer than two distinct sample times). judged = the rows 'o steps from a sample' have
    the times o*dt: every two consecutive samples lying in a common epoch are exactly dt apart, and dt is witnessed either by two
    samples of a common epoch or by the whole series being regular"""
    d = [b - a for a, b in zip(ts, ts[1:])]
    pos = [x for x in d if x > 0]
    if not pos:
        return None, False
    dt = min(pos)
    inep = [b - a for a, b in zip(ts, ts[1:]) if any(s <= a and b <= e for s, e in ep)]
    return dt, all(x == dt for x in inep) and (len(inep) > 0 or all(x == dt for x in d))


def o_rows(dt, w0, w1):
    """the rows of the statement: the offsets o whose time o*dt lies in the requested window [-w0, w1]"""
    return list(range(-(w0 // dt), w1 // dt + 1))


def o_continuous(ts, vs, tref, ep, offs):
    """columns for the row offsets `offs` (in steps): each column is a LIST OF ACCEPTABLE columns (one per nearest sample on ties)"""
    cols = []
    for s, e in ep:
        I = [i for i, t in enumerate(ts) if s <= t <= e]
        for r in tref:
            if not (s <= r <= e):
                continue
            if not I:
                cols.append([[None] * len(offs)])
                continue
            dmin = min(abs(ts[i] - r) for i in I)
            acc = []
            for p in I:
                if abs(ts[p] - r) == dmin:
                    acc.append([vs[p + o] if (p + o) in I else None for o in offs])
            cols.append(acc)
    return cols


def cont_verdict(ts, vs, tr, eff, w0, w1, got_t, got_c):
    """None when the result satisfies the statement, else (part, what, expected)"""
    dt, judged = sampling_step(ts, eff)
    exp_offs = o_rows(dt, w0, w1) if judged else None
    zero = [i for i, t in enumerate(got_t) if t == 0]
    if got_c is None or len(zero) != 1 or any(a >= b for a, b in zip(got_t, got_t[1:])) or (judged and got_t != [o * dt for o in exp_offs]):
        return ("rows", "the rows are not the offsets o (times o*dt, dt = the sampling step) inside the window [-w0, w1]"
                + (": the step was taken from the first two samples, which a gap separates" if first_step_class(ts, dt) == "gap" else ""),
                [[o * dt for o in exp_offs], o_continuous(ts, vs, tr, eff, exp_offs)] if judged else "exactly one row at time 0, increasing row times")
    offs = [i - zero[0] for i in range(len(got_t))]
    cols = o_continuous(ts, vs, tr, eff, offs)
    if not (len(got_c) == len(cols) and all(c in acc for c, acc in zip(got_c, cols))):
        return ("values", "column j, row o is not the sample o steps from the sample nearest r_j within its epoch (NaN outside the epoch)", [got_t, cols])
    return None


def cont_input(nap, ts, vs, eff, mode, container):
    lo_t = min([0] + list(ts) + [s for s, _ in eff])
    hi_t = max([0] + list(ts) + [e for _, e in eff])
    sup = mk_ep(nap, eff) if mode == "support" else (None if mode == "default" else nap.IntervalSet(lo_t / 1e9 - 1.0, hi_t / 1e9 + 1.0))
    base = np.asarray(vs, dtype=float)
    if container == "TsdFrame":
        return nap.TsdFrame(G.arr(ts), np.stack([base, base + 1000.0], axis=1).reshape(len(ts), 2), time_support=sup)
    if container == "TsdTensor":
        return nap.TsdTensor(G.arr(ts), np.stack([base + 1000.0 * q for q in range(4)], axis=1).reshape(len(ts), 2, 2), time_support=sup)
    return nap.Tsd(G.arr(ts), base, time_support=sup)


def cont_planes(arr, container):
    """the data planes of the result (one per data column of the input); None = wrong shape or planes not aligned identically"""
    if container == "Tsd":
        return arr if arr.ndim == 2 else None
    planes = [arr[:, :, 0], arr[:, :, 1]] if container == "TsdFrame" and arr.ndim == 3 else ([arr[:, :, a_, b_] for a_ in (0, 1) for b_ in (0, 1)] if container == "TsdTensor" and arr.ndim == 4 else None)
    if planes is None or not all(np.array_equal(np.nan_to_num(planes[0] + 1000.0 * q, nan=-1.0), np.nan_to_num(pl, nan=-1.0)) for q, pl in enumerate(planes)):
        return None
    return planes[0]


def first_step_class(ts, dt):
    if len(ts) < 2:
        return "none(<2 samples)"
    if ts[1] == ts[0]:
        return "zero"
    return "sampling_step" if ts[1] - ts[0] == dt else "gap"


def recover(vals, scale):
    """vals * scale must be integers (pair counts); returns list of int / None (NaN) / ('frac', x)"""
    out = []
    for v in vals:
        x = float(v) * scale
        if not np.isfinite(x):
            out.append(None)
            continue
        k = int(round(x))
        out.append(k if abs(x - k) <= 1e-6 * max(1.0, abs(k)) else ("frac", x))
    return out


def restrict(ts, ep):
    return [t for t in ts if any(s <= t <= e for s, e in ep)]


def tot(ep):
    return sum(e - s for s, e in ep)


def mk_ep(nap, ep):
    return nap.IntervalSet(G.arr([s for s, _ in ep]), G.arr([e for _, e in ep]))


def edge_hit(t1, t2, b, w):
    """some lag lies exactly on a bin edge (decimal lattices: decided by rounding noise)"""
    nb = (2 * w) // b
    nb = nb + 1 if nb % 2 == 0 else nb
    return any((2 * (t - r) + nb * b) % (2 * b) == 0 for r in t1 for t in t2)


UNITS = (("s", 1e9), ("ms", 1e6), ("us", 1e3))


# ----------------------------------------------------------------------------------------------
# 1. the kernel _cross_correlogram (compiled and .py_func) against model and oracle
def run_kernel(res, tier, rng, CG):
    pts = G.lattice(9, step=U)
    t1s = [t for t in G.sorted_multisets(pts, 2)]
    t2s = G.sorted_multisets(pts, 3)
    bws = [(2 * U, 2 * U), (2 * U, 4 * U), (U, 2 * U), (2 * U, 3 * U), (4 * U, 2 * U), (3 * U, 4 * U)]
    cases = [(t1, t2, b, w) for t1 in t1s for t2 in t2s for (b, w) in bws]
    if tier == "quick":
        cases = rng.sample(cases, 14000)
    # a few unsorted reference arrays (the backward cursor loop): correspondence only
    uns = []
    for _ in range(300 if tier == "quick" else 3000):
        t1 = [rng.choice(pts) for _ in range(rng.randint(2, 4))]
        t2 = sorted(rng.choice(pts) for _ in range(rng.randint(0, 5)))
        uns.append((t1, t2) + rng.choice(bws))
    lines = ["xcorr\t%s\t%s\t%d\t%d" % (C.fmt_ints(t1), C.fmt_ints(t2), b, w) for t1, t2, b, w in cases + uns]
    out = C.run_model(lines, driver="driver_c16")
    arrs = {}

    def A(ts):
        k = tuple(ts)
        if k not in arrs:
            arrs[k] = G.arr(ts)
        return arrs[k]
    for n, (t1, t2, b, w) in enumerate(cases + uns):
        sorted_ref = n < len(cases)
        inp = {"t1": t1, "t2": t2, "binsize": b, "windowsize": w}
        mc, mb = out[n].split("|")
        mc, mb = [int(x) for x in mc.split()], [int(x) for x in mb.split()]
        exp, cen = o_hist(t1, t2, b, w), o_centres(b, w)
        on_edge = edge_hit(t1, t2, b, w)
        if sorted_ref:
            res.case(("k", tuple(t1), tuple(t2), b, w), nontrivial=len(t1) > 0 and len(t2) > 0 and sum(exp) > 0)
            res.count("kernel_cases")
            if on_edge:
                res.count("kernel_lag_on_bin_edge")
            if len(set(t2)) < len(t2) or len(set(t1)) < len(t1):
                res.count("kernel_coincident_spikes")
            if not t2:
                res.count("kernel_empty_target")
            if mc != exp or mb != [2 * c for c in cen]:
                res.disagreements.append({"op": "xcorr(model vs statement)", "input": inp, "model": [mc, mb], "expected": [exp, cen]})
        else:
            res.evaluations += 1
            res.count("kernel_unsorted_reference")
        funs = [("compiled", CG._cross_correlogram)]
        if (not sorted_ref) or n % 7 == 0:
            funs.append(("py_func", CG._cross_correlogram.py_func))
        for nm, f in funs:
            Cv, Bv = f(A(t1), A(t2), b / 1e9, w / 1e9)
            gb = [int(round(float(x) * 2e9)) for x in Bv]
            if not t1:
                res.count("kernel_empty_reference(0/0, not judged)") if nm == "compiled" else None
                if gb != mb:
                    res.disagreements.append({"op": "_cross_correlogram centres", "mode": nm, "input": inp, "impl": gb, "model": mb})
                continue
            gc = recover(Cv, len(t1) * b / 1e9)
            if sorted_ref and (gc != exp or gb != [2 * c for c in cen]):
                res.violations.append({"key": {"op": "_cross_correlogram", "mode": nm, "lag_on_edge": bool(on_edge)},
                                       "what": "kernel output is not the histogram of pairwise lags in half-open bins centred on multiples of binsize",
                                       "input": inp, "impl": [gc, gb], "expected": [exp, [2 * c for c in cen]]})
            if gc != mc or gb != mb:
                res.disagreements.append({"op": "_cross_correlogram", "mode": nm, "sorted_reference": sorted_ref, "input": inp, "impl": [gc, gb], "model": [mc, mb]})
        if n % 4001 == 0:
            res.sample({"op": "_cross_correlogram", "t1": t1, "t2": t2, "binsize": b, "windowsize": w, "counts": mc, "centres_x2": mb})


# ----------------------------------------------------------------------------------------------
# 2. public correlograms
def check_frame(res, op, key, inp, df, labels, cen, exp_counts, scales, amb, model_counts=None, trains=None):
    """df: DataFrame; labels: expected column labels in order; exp_counts[label] = list of ints or None (all-NaN expected)
    or 'skip'; scales[label] = factor turning the reported value into a pair count"""
    got_idx = [C.to_ns(x) for x in df.index.values]
    if list(df.columns) != labels:
        res.violations.append({"key": dict(key, op=op, part="columns"), "what": "column labels / pair order differ", "input": inp,
                               "impl": [str(c) for c in df.columns], "expected": [str(c) for c in labels]})
        return
    if got_idx != cen:
        # (no tolerance: since 7e5f969 the kernel takes floor(np.round(2w/b, 9)), exact for every generated (b, w); the only
        #  inputs where that rounding is wrong are the nbins_round9 probes below, reported under their own key)
        res.violations.append({"key": dict(key, op=op, part="centres"), "what": "bin centres are not the multiples of binsize inside the window",
                               "input": inp, "impl": got_idx, "expected": cen})
        return
    for lab in labels:
        e = exp_counts[lab]
        if isinstance(e, str):
            continue
        col = df[lab].values
        if e is None:
            if not np.all(np.isnan(col)):
                res.violations.append({"key": dict(key, op=op, part="empty_target_norm"), "what": "norm=True with an empty target should be 0/0 = NaN",
                                       "input": inp, "impl": [float(x) for x in col]})
            continue
        got = recover(col, scales[lab])
        if got != e:
            within = False
            if amb and trains is not None and lab in trains and all(isinstance(g, int) for g in got):
                lo, hi = o_hist_bounds(trains[lab][0], trains[lab][1], inp["binsize"], inp["windowsize"], len(got))
                if op == "compute_autocorrelogram":
                    lo[len(lo) // 2] = hi[len(hi) // 2] = 0
                within = all(a <= g <= c for a, g, c in zip(lo, got, hi))
            if amb and within:
                res.float_ambiguous += 1
                res.count("float_ambiguous:decimal lag exactly on a bin edge")
            else:
                res.violations.append({"key": dict(key, op=op, part="values"),
                                       "what": "correlogram is not (pair count per bin) / (n_ref * binsize) [/ rate of the target]",
                                       "input": dict(inp, column=str(lab)), "impl": got, "expected": e})
        if model_counts is not None and lab in model_counts and got != model_counts[lab] and not amb:
            res.disagreements.append({"op": op, "input": dict(inp, column=str(lab)), "impl": got, "model": model_counts[lab]})


def run_public_corr(res, tier, rng, nap):
    half = 4 * U
    pts = G.lattice(8, step=half)
    trains = G.sorted_multisets(pts, 3)
    bws = [(V, V), (V, 2 * V), (2 * V, 2 * V), (V, 3 * half), (2 * V, V)]
    eps = [None, [(half, 5 * half)], [(0, 2 * half), (4 * half, 7 * half)], [(0, half), (2 * half, 3 * half), (5 * half, 7 * half)]]
    sup = [(-8 * V, 8 * V)]
    n_cases = 700 if tier == "quick" else 7000
    plan = []
    for c in range(n_cases):
        mem = [rng.choice(trains) for _ in range(3)]
        if c % 5 == 0:
            mem[rng.randrange(3)] = []
        ev = rng.choice([t for t in trains if t])
        plan.append((mem, ev, rng.choice(bws), rng.choice(eps), rng.random() < 0.5, rng.random() < 0.5, rng.choice(UNITS), "dyadic"))
    # decimal lattice, larger random trains
    for c in range(150 if tier == "quick" else 1500):
        b = rng.choice([10 ** 6, 2 * 10 ** 6, 5 * 10 ** 6, 10 ** 7, 4 * 10 ** 5])
        w = b * rng.choice([1, 2, 3, 5]) + rng.choice([0, 0, b // 2])
        mem = []
        for _ in range(3):
            base = sorted(rng.randrange(0, 10 ** 8) for _ in range(rng.randint(0, 25)))
            extra = [t + rng.choice([-1, 1]) * (rng.randrange(0, 4) * b + b // 2) for t in base[:6]] if b % 2 == 0 else []
            mem.append(sorted(t for t in base + extra if 0 <= t <= 10 ** 8))
        ev = sorted(rng.randrange(0, 10 ** 8) for _ in range(rng.randint(1, 10)))
        ep = rng.choice([None, [(10 ** 7, 6 * 10 ** 7)], [(0, 3 * 10 ** 7), (5 * 10 ** 7, 9 * 10 ** 7)]])
        plan.append((mem, ev, (b, w), ep, rng.random() < 0.5, rng.random() < 0.5, rng.choice(UNITS), "decimal"))
    keys = [3, 5, 9]
    lines = []
    for mem, ev, (b, w), ep, norm, reverse, (un, uf), kind in plan:
        lat_sup = sup if kind == "dyadic" else [(0, 10 ** 8)]
        rm = [restrict(m, ep) if ep else m for m in mem]
        for m in rm:
            lines.append("autocorr\t%s\t%d\t%d" % (C.fmt_ints(m), b, w))
        for i, j in itertools.combinations(range(3), 2):
            a, c2 = (j, i) if reverse else (i, j)
            lines.append("xcorr\t%s\t%s\t%d\t%d" % (C.fmt_ints(rm[a]), C.fmt_ints(rm[c2]), b, w))
    mout = C.run_model(lines, driver="driver_c16")
    mi = 0
    for cn, (mem, ev, (b, w), ep, norm, reverse, (un, uf), kind) in enumerate(plan):
        lat_sup = sup if kind == "dyadic" else [(0, 10 ** 8)]
        inp = {"members": dict(zip(keys, mem)), "event": ev, "binsize": b, "windowsize": w, "ep": ep, "norm": norm, "reverse": reverse, "units": un,
               "group_support": lat_sup}
        key = {"norm": norm, "units": un, "epochs": 0 if ep is None else len(ep), "lattice": kind}
        res.count("corr_" + kind)
        res.count("corr_units=" + un)
        res.count("corr_epochs=%d" % (0 if ep is None else len(ep)))
        res.count("corr_norm=%s" % norm)
        supo = mk_ep(nap, lat_sup)
        grp = nap.TsGroup({k: nap.Ts(G.arr(m), time_support=supo) for k, m in zip(keys, mem)}, time_support=supo)
        epk = {"ep": mk_ep(nap, ep)} if ep else {}     # (an explicit ep=None is rejected by the input validator)
        eff = ep if ep else lat_sup
        rm = [restrict(m, eff) for m in mem]
        T = tot(eff) / 1e9
        rate = [len(m) / T for m in rm]
        cen = o_centres(b, w)
        bsec = b / 1e9
        bq, wq = b / uf, w / uf
        dec = kind == "decimal"
        any_pairs = False
        # --- autocorrelogram
        mauto = {}
        for k in keys:
            mauto[k] = [int(x) for x in mout[mi].split()]
            mi += 1
        expc, scales = {}, {}
        for k, m, r_ in zip(keys, rm, rate):
            if not m:
                expc[k] = "skip"
                res.count("corr_empty_member")
                continue
            expc[k] = o_auto(m, b, w)
            any_pairs = any_pairs or sum(expc[k]) > 0
            scales[k] = len(m) * bsec * (r_ if norm else 1.0)
        amb = dec and any(edge_hit(m, m, b, w) for m in rm)
        try:
            df = nap.compute_autocorrelogram(grp, bq, wq, norm=norm, time_units=un, **epk)
            check_frame(res, "compute_autocorrelogram", key, inp, df, keys, cen, expc, scales, amb, None if dec else mauto, {k: (m, m) for k, m in zip(keys, rm)})
        except Exception as ex:
            res.violations.append({"key": dict(key, op="compute_autocorrelogram", part="exception"), "what": "raised " + type(ex).__name__ + ": " + str(ex)[:100], "input": inp})
        # --- crosscorrelogram (TsGroup)
        labels, expc, scales, mcross = [], {}, {}, {}
        amb = False
        for i, j in itertools.combinations(range(3), 2):
            a, c2 = (j, i) if reverse else (i, j)
            lab = (keys[a], keys[c2])
            labels.append(lab)
            mcross[lab] = [int(x) for x in mout[mi].split("|")[0].split()]
            mi += 1
            if not rm[a]:
                expc[lab] = "skip"
            elif norm and not rm[c2]:
                expc[lab] = None
                res.count("corr_empty_target_norm")
            else:
                expc[lab] = o_hist(rm[a], rm[c2], b, w)
                any_pairs = any_pairs or sum(expc[lab]) > 0
                scales[lab] = len(rm[a]) * bsec * (rate[c2] if norm else 1.0)
                if not rm[c2]:
                    res.count("corr_empty_target")
                if edge_hit(rm[a], rm[c2], b, w):
                    res.count("corr_lag_on_bin_edge")
                    amb = amb or dec
        try:
            df = nap.compute_crosscorrelogram(grp, bq, wq, norm=norm, time_units=un, reverse=reverse, **epk)
            check_frame(res, "compute_crosscorrelogram", dict(key, reverse=reverse), inp, df, labels, cen, expc, scales, amb, None if dec else mcross,
                        {(keys[a_], keys[c_]): (rm[a_], rm[c_]) for a_ in range(3) for c_ in range(3)})
        except Exception as ex:
            res.violations.append({"key": dict(key, op="compute_crosscorrelogram", part="exception"), "what": "raised " + type(ex).__name__ + ": " + str(ex)[:100], "input": inp})
        # --- crosscorrelogram (pair of groups): reference from the first group
        if cn % 3 == 0:
            g1 = nap.TsGroup({keys[0]: nap.Ts(G.arr(mem[0]), time_support=supo)}, time_support=supo)
            g2 = nap.TsGroup({k: nap.Ts(G.arr(m), time_support=supo) for k, m in zip(keys[1:], mem[1:])}, time_support=supo)
            labels, expc, scales = [], {}, {}
            amb = False
            for jj in (1, 2):
                lab = (keys[0], keys[jj])
                labels.append(lab)
                if not rm[0]:
                    expc[lab] = "skip"
                elif norm and not rm[jj]:
                    expc[lab] = None
                else:
                    expc[lab] = o_hist(rm[0], rm[jj], b, w)
                    scales[lab] = len(rm[0]) * bsec * (rate[jj] if norm else 1.0)
                    amb = amb or (dec and edge_hit(rm[0], rm[jj], b, w))
            try:
                df = nap.compute_crosscorrelogram((g1, g2), bq, wq, norm=norm, time_units=un, **epk)
                check_frame(res, "compute_crosscorrelogram(pair of groups)", key, inp, df, labels, cen, expc, scales, amb, None, {(keys[0], keys[c_]): (rm[0], rm[c_]) for c_ in (1, 2)})
            except Exception as ex:
                res.violations.append({"key": dict(key, op="compute_crosscorrelogram(pair of groups)", part="exception"), "what": "raised " + type(ex).__name__ + ": " + str(ex)[:100], "input": inp})
        # --- eventcorrelogram: reference = the event, inside ep (default: the event's own time support)
        ev_sup = lat_sup if cn % 2 == 0 else [(eff[0][0], eff[-1][1])]
        evo = nap.Ts(G.arr(ev), time_support=mk_ep(nap, ev_sup))
        eeff = ep if ep else ev_sup
        rev = restrict(restrict(ev, ev_sup), eeff)
        rme = [restrict(m, eeff) for m in mem]
        Te = tot(eeff) / 1e9
        expc, scales = {}, {}
        amb = False
        for k, m in zip(keys, rme):
            if not rev:
                expc[k] = "skip"
            elif norm and not m:
                expc[k] = None
            else:
                expc[k] = o_hist(rev, m, b, w)
                any_pairs = any_pairs or sum(expc[k]) > 0
                scales[k] = len(rev) * bsec * ((len(m) / Te) if norm else 1.0)
                amb = amb or (dec and edge_hit(rev, m, b, w))
        try:
            df = nap.compute_eventcorrelogram(grp, evo, bq, wq, norm=norm, time_units=un, **epk)
            check_frame(res, "compute_eventcorrelogram", key, dict(inp, event_support=ev_sup), df, keys, cen, expc, scales, amb, None, {k: (rev, m) for k, m in zip(keys, rme)})
        except Exception as ex:
            res.violations.append({"key": dict(key, op="compute_eventcorrelogram", part="exception"), "what": "raised " + type(ex).__name__ + ": " + str(ex)[:100], "input": inp})
        res.case(("c", cn, kind, b, w, norm, reverse, un, str(ep), str(mem), str(ev)), nontrivial=any_pairs)
        if cn % 301 == 0:
            res.sample({"op": "correlograms", "members": mem, "event": ev, "binsize": b, "windowsize": w, "ep": ep, "norm": norm, "reverse": reverse, "units": un})
    # --- the documented default ep=None passed EXPLICITLY, and the pair of groups given as a LIST (the validator and the docstring
    #     accept "tuple/list of two TsGroups"): the result must be the one of the plain call
    supo = mk_ep(nap, sup)
    for c in range(12 if tier == "quick" else 60):
        mem = [rng.choice([t for t in trains if t]) for _ in range(3)]
        ev = rng.choice([t for t in trains if t])
        b, w = rng.choice(bws)
        norm = bool(c % 2)
        grp = nap.TsGroup({k: nap.Ts(G.arr(m), time_support=supo) for k, m in zip(keys, mem)}, time_support=supo)
        g1 = nap.TsGroup({keys[0]: nap.Ts(G.arr(mem[0]), time_support=supo)}, time_support=supo)
        g2 = nap.TsGroup({k: nap.Ts(G.arr(m), time_support=supo) for k, m in zip(keys[1:], mem[1:])}, time_support=supo)
        evo = nap.Ts(G.arr(ev), time_support=supo)
        inp = {"members": dict(zip(keys, mem)), "event": ev, "binsize": b, "windowsize": w, "ep": None, "norm": norm, "reverse": False, "units": "s", "group_support": sup}
        calls = [("compute_autocorrelogram", "explicit_ep_none", lambda kw: nap.compute_autocorrelogram(grp, b / 1e9, w / 1e9, norm=norm, **kw), {"ep": None}),
                 ("compute_crosscorrelogram", "explicit_ep_none", lambda kw: nap.compute_crosscorrelogram(grp, b / 1e9, w / 1e9, norm=norm, **kw), {"ep": None}),
                 ("compute_crosscorrelogram(pair of groups)", "explicit_ep_none", lambda kw: nap.compute_crosscorrelogram((g1, g2), b / 1e9, w / 1e9, norm=norm, **kw), {"ep": None}),
                 ("compute_eventcorrelogram", "explicit_ep_none", lambda kw: nap.compute_eventcorrelogram(grp, evo, b / 1e9, w / 1e9, norm=norm, **kw), {"ep": None}),
                 ("compute_crosscorrelogram(pair of groups)", "groups_as_list", lambda kw: nap.compute_crosscorrelogram(kw["g"], b / 1e9, w / 1e9, norm=norm), {"g": [g1, g2]})]
        for op, trig, f, kw in calls:
            res.evaluations += 1
            res.count("corr_probe:" + trig)
            ref = f({"g": (g1, g2)} if "g" in kw else {})
            try:
                got = f(kw)
            except Exception as ex:
                res.violations.append({"key": {"op": op, "part": "exception", trig: True, "exception": type(ex).__name__},
                                       "what": "%s raised %s: %s" % ("the pair of groups passed as a list [g1, g2]" if trig == "groups_as_list" else "ep=None (the documented default) passed explicitly",
                                                                     type(ex).__name__, str(ex)[:100]), "input": dict(inp, probe=trig), "expected": "the result of the plain call"})
                continue
            if not (list(got.columns) == list(ref.columns) and np.array_equal(got.index.values, ref.index.values) and np.array_equal(got.values, ref.values, equal_nan=True)):
                res.violations.append({"key": {"op": op, "part": "values", trig: True}, "what": "result differs from the plain call", "input": dict(inp, probe=trig),
                                       "impl": got.values.tolist(), "expected": ref.values.tolist()})
    # --- probe: autocorrelogram row labels are np.round(centres, 6) (bins that are not whole microseconds; below 1 us the
    #     labels of the neighbouring bins collapse onto 0 and `autocorrs.loc[0] = 0` wipes them as well)
    supo = mk_ep(nap, sup)
    for b, w, m in ((U, 2 * U, [0, U, 3 * U, 6 * U]), (3 * U, 3 * U, [0, U, 3 * U, 6 * U]), (400, 800, [0, 400, 800, 1200, 5000])):
        grp = nap.TsGroup({0: nap.Ts(G.arr(m), time_support=supo)}, time_support=supo)
        df = nap.compute_autocorrelogram(grp, b / 1e9, w / 1e9, norm=False)
        got = [C.to_ns(x) for x in df.index.values]
        gotc = recover(df[0].values, len(m) * b / 1e9)
        res.evaluations += 1
        res.count("autocorr_submicrosecond_label_probe")
        if got != o_centres(b, w) or gotc != o_auto(m, b, w):
            res.violations.append({"key": {"op": "compute_autocorrelogram", "part": "index_rounded_to_us"},
                                   "what": "autocorrelogram row labels are np.round(centres, 6): not the multiples of binsize when binsize is not a whole number of microseconds"
                                           " (below 1 us several rows get the label 0 and are all zeroed)",
                                   "input": {"t": m, "binsize": b, "windowsize": w}, "impl": [got, gotc], "expected": [o_centres(b, w), o_auto(m, b, w)]})
    # --- probe (float gap, recorded not judged): decimal (2w)//b computed in floating point, e.g. (2*0.3)//0.1 = 5.0
    grp = nap.TsGroup({0: nap.Ts(np.array([0.0, 0.1, 0.2, 0.35]), time_support=supo), 1: nap.Ts(np.array([0.003, 0.1025, 0.2]), time_support=supo)}, time_support=nap.IntervalSet(-1.0, 1.0))
    nrows = len(nap.compute_crosscorrelogram(grp, 0.1, 0.3, norm=False).index)
    res.evaluations += 1
    res.count("decimal_floor_division_probe(binsize=0.1s,windowsize=0.3s): rows=%d, exact=7" % nrows)
    if nrows != 7:
        res.float_ambiguous += 1
    # --- probe: bin sizes >= 2 s with 2w/b within 0.5e-9 below an integer (the hypothesis round9_exact of Properties/C16b.v fails):
    #     nbins = floor(np.round(2w/b, 9)) takes the quotient for the integer above
    for b, w in ((4_000_000_000, 3_999_999_999), (5_000_000_000, 4_999_999_999), (4_000_000_000, 5_999_999_999)):
        grp = nap.TsGroup({0: nap.Ts(np.array([1.0, 5.0])), 1: nap.Ts(np.array([0.0, 2.0, 4.999999999, 9.0]))}, time_support=nap.IntervalSet(-1.0, 20.0))
        df = nap.compute_crosscorrelogram(grp, b / 1e9, w / 1e9, norm=False)
        got = [C.to_ns(x) for x in df.index.values]
        res.evaluations += 1
        res.count("nbins_round9_probe")
        if got != o_centres(b, w):
            res.violations.append({"key": {"op": "compute_crosscorrelogram", "part": "centres", "binsize_ge_2s_and_2w_over_b_within_half_ns_below_integer": True},
                                   "what": "bins centred outside the requested window: nbins = floor(np.round(2w/b, 9)) rounds 2w/b up to the next integer",
                                   "input": {"binsize": b, "windowsize": w}, "impl": got, "expected": o_centres(b, w)})


# ----------------------------------------------------------------------------------------------
# 3. compute_perievent
def parse_group(s):
    out = []
    if s == "":
        return out
    for part in s.split("|"):
        r, l = part.split(":")
        v = [int(x) for x in l.split()]
        out.append((int(r), list(zip(v[0::2], v[1::2]))))
    return out


def run_perievent(res, tier, rng, nap):
    step = 2 * U
    pts = G.lattice(6, step=step)
    halfpts = [i * U for i in range(-1, 12)]
    tss = [t for t in G.sorted_multisets(pts, 4) if len(t) >= 1]
    trefs = [t for t in G.sorted_multisets(halfpts, 2) if len(t) >= 1]
    wins = [(2 * U, 2 * U), (U, 3 * U), (4 * U, 0), (0, 2 * U), (3 * U, 3 * U), (6 * U, 2 * U)]
    cases = [(ts, tr, w) for ts in tss for tr in trefs for w in wins]
    if tier == "quick":
        cases = rng.sample(cases, 2500)
    cases = [c + ("dyadic",) for c in cases]
    for _ in range(200 if tier == "quick" else 2000):
        w0, w1 = rng.choice([(10 ** 6, 10 ** 6), (5 * 10 ** 5, 2 * 10 ** 6), (10 ** 7, 3 * 10 ** 6)])
        tr = sorted(rng.randrange(0, 10 ** 8) for _ in range(rng.randint(1, 5)))
        ts = sorted([rng.randrange(0, 10 ** 8) for _ in range(rng.randint(1, 20))] + [r + rng.choice([-w0, w1, 0, -w0 + 1, w1 - 1, -w0 - 1, w1 + 1]) for r in tr])
        cases.append(([t for t in ts if t >= 0], tr, (w0, w1), "decimal"))
    lines = []
    for ts, tr, (w0, w1), kind in cases:
        lines.append("perievent\t%d\t%d\t%s\t%s\t%s" % (w0, w1, C.fmt_ints(ts), C.fmt_ints(range(100, 100 + len(ts))), C.fmt_ints(tr)))
    mout = C.run_model(lines, driver="driver_c16")
    big = nap.IntervalSet(-1.0, 1.0)
    for n, (ts, tr, (w0, w1), kind) in enumerate(cases):
        vs = list(range(100, 100 + len(ts)))
        un, uf = UNITS[n % 3] if n % 4 == 0 else UNITS[0]
        as_ts = n % 5 == 1
        form = n % 3      # how minmax is passed: (w0, w1) / (-w0, w1) / scalar when symmetric
        inp = {"ts": ts, "tref": tr, "minmax": [w0, w1], "units": un, "input": "Ts" if as_ts else "Tsd", "lattice": kind}
        exp = o_perievent(ts, vs, tr, w0, w1)
        cut = any(0 < len(l) < len(ts) for _, l in exp)
        res.case(("p", tuple(ts), tuple(tr), w0, w1), nontrivial=cut)
        res.count("perievent_" + kind)
        res.count("perievent_units=" + un)
        if any(t == r - w0 for t in ts for r in tr):
            res.count("perievent_sample_on_left_edge")
        if any(t == r + w1 for t in ts for r in tr):
            res.count("perievent_sample_on_right_edge")
        if w0 != w1:
            res.count("perievent_asymmetric_window")
        amb = kind == "decimal" and any(t in (r - w0, r + w1) for t in ts for r in tr)
        sup = big if kind == "dyadic" else nap.IntervalSet(-1.0, 1.0)
        x = nap.Ts(G.arr(ts), time_support=sup) if as_ts else nap.Tsd(G.arr(ts), np.asarray(vs, dtype=float), time_support=sup)
        tref = nap.Ts(G.arr(tr), time_support=sup)
        mm = (w0 / uf, w1 / uf) if form == 0 else ((-w0 / uf, w1 / uf) if form == 1 else (w0 / uf if w0 == w1 else (w0 / uf, w1 / uf)))
        key = {"op": "compute_perievent", "units": un, "input": inp["input"], "lattice": kind}
        try:
            pe = nap.compute_perievent(x, tref, mm, time_unit=un)
        except Exception as ex:
            res.violations.append({"key": dict(key, part="exception"), "what": "raised " + type(ex).__name__ + ": " + str(ex)[:100], "input": inp})
            continue
        got = []
        rt = [C.to_ns(v) for v in pe.get_info("ref_times").values] if len(pe) else []
        for i, k in enumerate(pe.keys()):
            m = pe[k]
            lag = [C.to_ns(v) for v in m.t]
            val = [None] * len(lag) if as_ts else [int(v) for v in m.values]
            got.append((rt[i], list(zip(lag, val))))
        e2 = [(r, [(l, None if as_ts else v) for l, v in ll]) for r, ll in exp]
        if list(pe.keys()) != list(range(len(tr))):
            res.violations.append({"key": dict(key, part="keys"), "what": "group members are not numbered in reference order", "input": inp, "impl": [int(k) for k in pe.keys()]})
        elif got != e2:
            closed = [(r, [(t - r, None if as_ts else v) for t, v in zip(ts, vs) if r - w0 <= t <= r + w1]) for r in tr]
            strict = [(r, [(t - r, None if as_ts else v) for t, v in zip(ts, vs) if r - w0 < t < r + w1]) for r in tr]
            within = len(got) == len(tr) and all(g[0] == c[0] and all(x in g[1] for x in s_[1]) and g[1] == [x for x in c[1] if x in g[1]] and all(x in c[1] for x in g[1])
                                                 for g, c, s_ in zip(got, closed, strict))
            if amb and within:
                res.float_ambiguous += 1
                res.count("float_ambiguous:decimal sample exactly on a peri-event window edge")
            else:
                res.violations.append({"key": dict(key, part="lags"), "what": "member i is not the lags t - r_i (with values) of the samples with r_i - w0 <= t < r_i + w1, tagged r_i",
                                       "input": inp, "impl": got, "expected": e2})
        elif (w0 + w1 > 0) and [(C.to_ns(s), C.to_ns(e)) for s, e in pe.time_support.values] != [(-w0, w1)]:
            res.violations.append({"key": dict(key, part="support"), "what": "time support of the aligned group is not [-w0, w1]", "input": inp,
                                   "impl": [(C.to_ns(s), C.to_ns(e)) for s, e in pe.time_support.values]})
        mod = parse_group(mout[n])
        m2 = [(r, [(l, None if as_ts else v) for l, v in ll]) for r, ll in mod]
        if got != m2 and not amb:
            res.disagreements.append({"op": "compute_perievent", "input": inp, "impl": got, "model": m2})
        if mod != exp:
            res.disagreements.append({"op": "perievent(model vs statement)", "input": inp, "model": mod, "expected": exp})
        if n % 701 == 0:
            res.sample({"op": "compute_perievent", "ts": ts, "tref": tr, "minmax": [w0, w1], "result": got})
    # TsGroup input: a dict of aligned groups, one per member
    for n in range(60 if tier == "quick" else 600):
        ma, mb_ = rng.choice(tss), rng.choice(tss)
        tr = rng.choice(trefs)
        w0, w1 = rng.choice(wins)
        res.evaluations += 1
        res.count("perievent_tsgroup_input")
        g = nap.TsGroup({4: nap.Ts(G.arr(ma), time_support=big), 7: nap.Ts(G.arr(mb_), time_support=big)}, time_support=big)
        d = nap.compute_perievent(g, nap.Ts(G.arr(tr), time_support=big), (w0 / 1e9, w1 / 1e9))
        for k, m in ((4, ma), (7, mb_)):
            exp = [[t - r for t in m if r - w0 <= t < r + w1] for r in tr]
            got = [[C.to_ns(v) for v in d[k][i].t] for i in range(len(tr))] if k in d else None
            if got != exp or list(d.keys()) != [4, 7]:
                res.violations.append({"key": {"op": "compute_perievent", "input": "TsGroup"}, "what": "TsGroup input: member-wise alignment differs",
                                       "input": {"member": m, "tref": tr, "minmax": [w0, w1]}, "impl": got, "expected": exp})


    # TsdFrame / TsdTensor input (accepted by the input validator and the docstring)
    for nm, mk in (("TsdFrame", lambda: nap.TsdFrame(G.arr([0, step, 2 * step]), np.arange(6.0).reshape(3, 2), time_support=big)),
                   ("TsdTensor", lambda: nap.TsdTensor(G.arr([0, step, 2 * step]), np.arange(12.0).reshape(3, 2, 2), time_support=big))):
        res.evaluations += 1
        res.count("perievent_%s_input_probe" % nm)
        try:
            pe = nap.compute_perievent(mk(), nap.Ts(G.arr([step, 2 * step]), time_support=big), step / 1e9)
            got = [[C.to_ns(v) for v in pe[i].t] for i in range(2)]
            rows = [np.asarray(pe[i].values).tolist() for i in range(2)]
            exp = [[-step, 0], [-step, 0]]
            if got != exp or rows[0][0] != np.asarray(mk().values)[0].tolist():
                res.violations.append({"key": {"op": "compute_perievent", "input": nm, "part": "lags"}, "what": nm + " input: lags/rows differ", "impl": [got, rows], "expected": exp,
                                       "input": {"ts": [0, step, 2 * step], "tref": [step, 2 * step], "minmax": [step, step]}})
        except Exception as ex:
            res.violations.append({"key": {"op": "compute_perievent", "input": nm, "part": "exception", "exception": type(ex).__name__},
                                   "what": "compute_perievent(%s, ...) raised %s: %s (the validator and the docstring accept it; _align_tsd builds a 1-d Tsd from the rows)" % (nm, type(ex).__name__, str(ex)[:80]),
                                   "input": {"ts": [0, step, 2 * step], "tref": [step, 2 * step], "minmax": [step, step], "container": nm}})


# ----------------------------------------------------------------------------------------------
# 4. compute_perievent_continuous
def parse_cols(s):
    if s == "":
        return []
    return [[None if x == "nan" else int(x) for x in c.split()] for c in s.split("|")]


def cont_cases(tier, rng):
    """cases (ts, tref, ep, (w0, w1), kind, mode). mode: 'default' = ep omitted, default time support [t0, t_last];
    'ep' = wide time support, epochs passed as ep=; 'support' = epochs are the series' own time support, ep omitted"""
    out = []
    step = 2 * U
    wins = [(2 * step, 2 * step), (step, 3 * step), (0, 2 * step), (5 * U, 3 * U), (3 * step, step), (U, U)]
    for n in (2, 3, 5, 7):
        ts = [i * step for i in range(n)]
        grid = [i * U for i in range(0, 2 * n - 1)]
        eps = [None] + [e for e in G.canonical_isets(grid + [grid[-1] + U], 2) if e]
        if len(eps) > 30:
            eps = [None] + rng.sample(eps[1:], 29)
        trefs = [t for t in G.sorted_multisets(grid, 2) if t]
        for ep in eps:
            for tr in trefs:
                for w in wins:
                    out.append((ts, tr, ep, w, "regular", "ep" if ep else "default"))
    if tier == "quick":
        out = rng.sample(out, 3500)
    # larger random: regular sampling with holes between epochs, events near one or both edges
    for _ in range(300 if tier == "quick" else 3000):
        n = rng.randint(4, 30)
        ts = [i * step for i in range(n)]
        m = rng.randint(1, 3)
        cuts = sorted(rng.sample(range(0, 2 * n + 1), 2 * m))
        ep = [(cuts[2 * i] * U, cuts[2 * i + 1] * U) for i in range(m)]
        ep = [(s, e) for s, e in ep if s < e]
        if not G.canonical(ep) or not ep:
            continue
        mode = rng.choice(["ep", "ep", "ep", "default", "support"])
        if mode == "default":
            ep = None
        elif mode == "support" or rng.random() < 0.4:
            # recording with holes: no sample between the epochs (whichever samples come first)
            ts = [t for t in ts if any(s <= t <= e for s, e in ep)]
            if not ts:
                continue
        tr = sorted(rng.randrange(0, 2 * n) * U for _ in range(rng.randint(1, 6)))
        k0, k1 = rng.randint(0, 6), rng.randint(0, 6)
        if k0 + k1 == 0:
            k1 = 1
        w = (k0 * step + rng.choice([0, U]), k1 * step + rng.choice([0, U]))
        out.append((ts, tr, ep, w, "random", mode))
    # the first two samples do NOT define the sampling step: a lone sample in the first epoch (gap), samples before the
    # epochs at another spacing, a duplicated first sample; and series with fewer than two samples
    for _ in range(260 if tier == "quick" else 2600):
        g, m = rng.randint(2, 7), rng.randint(2, 6)
        body = [(g + i) * step for i in range(m)]
        ep2 = (body[0] - rng.choice([0, U]), body[-1] + rng.choice([0, U]))
        k0, k1 = rng.randint(0, 4), rng.randint(0, 4)
        w = (k0 * step + rng.choice([0, U]), k1 * step + rng.choice([0, U]))
        if w == (0, 0):
            w = (0, step)
        r = rng.random()
        if r < 0.45:
            ts, ep, kind = [0] + body, [(-U if rng.random() < 0.5 else 0, rng.choice([0, U, step])), ep2], "lone_first_sample"
            ep = [iv for iv in ep if iv[0] < iv[1]]
            mode = rng.choice(["ep", "support"])
        elif r < 0.7:
            ts, ep, kind, mode = [0, 3 * U] + body, [ep2], "leading_samples_outside_epochs", "ep"
        elif r < 0.85:
            ts, ep, kind, mode = [body[0]] + body, [ep2], "duplicated_first_sample", rng.choice(["ep", "support"])
        else:
            ts = rng.choice([[], [g * step], [g * step, g * step]])
            ep, kind, mode = [(g * step - rng.choice([U, step]), g * step + rng.choice([U, 3 * step]))], "fewer_than_two_sample_times", rng.choice(["ep", "support"])
        if not ep or not G.canonical(ep):
            continue
        if mode == "support":       # the constructor keeps the samples inside the time support only
            ts = [t for t in ts if any(s_ <= t <= e_ for s_, e_ in ep)]
        if not ts:
            mode = "ep"             # (an empty series does not keep the time support it is given: the epochs have to be passed)
        lo, hi = ep[0][0] // U - 1, ep[-1][1] // U + 1
        tr = sorted(rng.randrange(lo, hi + 1) * U for _ in range(rng.randint(1, 4)))
        out.append((ts, tr, ep, w, kind, mode))
    return out


def run_continuous(res, tier, rng, nap, PF):
    cases = cont_cases(tier, rng)
    lines, mline = [], []
    for ts, tr, ep, (w0, w1), kind, mode in cases:
        eff = ep if ep else [(ts[0], ts[-1])]
        vs = list(range(10, 10 + len(ts)))
        if first_step_class(ts, sampling_step(ts, eff)[0]) == "sampling_step":
            # the model copies `time_array[1] - time_array[0]`; it is the statement (and survives a repair of the step) exactly when that
            # first step is the sampling step (theorems C16_continuous_public_step / C16_continuous_first_step_refuted)
            bs = ts[1] - ts[0]
            n0, n1 = -(-w0 // bs), -(-w1 // bs)
            mline.append(len(lines))
            lines.append("pc_public\t%s\t%s\t%s\t%s\t%d\t%d" % (C.fmt_ints(ts), C.fmt_ints(vs), C.fmt_ints(tr), C.fmt_iset(eff), w0, w1))
            lines.append("pc_public_spec\t%s\t%s\t%s\t%s\t%d\t%d" % (C.fmt_ints(ts), C.fmt_ints(vs), C.fmt_ints(tr), C.fmt_iset(eff), w0, w1))
            lines.append("pc_kernel\t%s\t%s\t%s\t%d\t%d" % (C.fmt_ints(ts), C.fmt_ints(tr), C.fmt_iset(eff), n0, n1))
        else:
            mline.append(None)
    mout = C.run_model(lines, driver="driver_c16")
    for n, (ts, tr, ep, (w0, w1), kind, mode) in enumerate(cases):
        eff = ep if ep else [(ts[0], ts[-1])]
        vs = list(range(10, 10 + len(ts)))
        dt, regular = sampling_step(ts, eff)
        fsc = first_step_class(ts, dt)
        un, uf = UNITS[n % 3] if n % 4 == 0 else UNITS[0]
        container = "TsdFrame" if n % 6 == 5 else ("TsdTensor" if n % 12 == 3 else "Tsd")
        inp = {"ts": ts, "values": vs, "tref": tr, "ep": ep, "minmax": [w0, w1], "units": un, "input": container, "mode": mode}
        ins = [(r, k) for k, (s, e) in enumerate(eff) for r in tr if s <= r <= e]
        # the rows the statement names (when the series has a sampling step and is regular inside the epochs)
        judged_rows = regular
        exp_offs = o_rows(dt, w0, w1) if judged_rows else None
        ocols = o_continuous(ts, vs, tr, eff, exp_offs) if judged_rows else None
        # classification of the geometry
        trunc_l = trunc_r = both = tie = False
        for acc in (ocols or []):
            for col in acc[:1]:
                l_ = len(col) > 0 and col[0] is None
                r_ = len(col) > 0 and col[-1] is None
                trunc_l, trunc_r, both = trunc_l or l_, trunc_r or r_, both or (l_ and r_)
            tie = tie or len(acc) > 1
        res.case(("pc", tuple(ts), tuple(tr), str(ep), w0, w1, mode), nontrivial=bool(ins) and (trunc_l or trunc_r))
        res.count("cont_" + kind)
        res.count("cont_first_step=" + fsc)
        res.count("cont_input=" + container)
        res.count("cont_epochs=%s" % ("default" if ep is None else len(ep)))
        res.count("cont_mode=" + mode)
        for nm, fl in (("cont_window_truncated_left", trunc_l), ("cont_window_truncated_right", trunc_r), ("cont_window_truncated_both_sides", both),
                       ("cont_event_midway_between_samples", tie), ("cont_event_outside_epochs", len(ins) < len(tr)),
                       ("cont_asymmetric_window", w0 != w1), ("cont_window_not_multiple_of_step", dt is not None and (w0 % dt != 0 or w1 % dt != 0)),
                       ("cont_rows_not_judged(irregular inside an epoch, or no two samples in a common epoch)", dt is not None and not regular),
                       ("cont_rows_not_judged(no sampling step: fewer than two sample times)", dt is None)):
            if fl:
                res.count(nm)
        x = cont_input(nap, ts, vs, eff, mode, container)
        tref = nap.Ts(G.arr(tr), time_support=nap.IntervalSet(-1.0, 5.0))
        key = {"op": "compute_perievent_continuous", "units": un, "input": container, "epochs": "default" if ep is None else len(ep),
               "truncated": "both" if both else ("left" if trunc_l else ("right" if trunc_r else "none")),
               "first_step": fsc, "n_samples": len(ts) if len(ts) < 2 else "2+"}
        mpub = None
        if mline[n] is not None:
            q = mline[n]
            mpub_t, mpub_c = mout[q].split("#")
            mpub = ([int(v) for v in mpub_t.split()], parse_cols(mpub_c))
            mspec_t, mspec_c = mout[q + 1].split("#")
            mspec = ([int(v) for v in mspec_t.split()], parse_cols(mspec_c))
            if mpub != mspec:
                res.disagreements.append({"op": "pc_public(model) vs pc_public_spec(model)", "input": inp, "model": mpub, "spec": mspec})
            if judged_rows:
                if not (mpub[0] == [o * dt for o in exp_offs] and len(mpub[1]) == len(ocols) and all(c in acc for c, acc in zip(mpub[1], ocols))):
                    res.disagreements.append({"op": "perievent_continuous(model vs statement)", "input": inp, "model": mpub, "expected": [exp_offs, ocols]})
        else:
            res.count("cont_model_outside_its_hypothesis(first step is not the sampling step): judged by the statement oracle alone")
        kw = {"ep": mk_ep(nap, ep)} if mode == "ep" else ({"ep": None} if n % 5 == 0 else {})     # ep=None: the documented default, passed explicitly
        pc = None
        for attempt in (0, 1):
            try:
                pc = nap.compute_perievent_continuous(x, tref, (w0 / uf, w1 / uf), time_unit=un, **kw)
                break
            except Exception as ex:
                if attempt == 0 and "ep" in kw and kw["ep"] is None and isinstance(ex, TypeError) and "Parameter ep" in str(ex):
                    res.count("cont_probe:explicit_ep_none")
                    res.violations.append({"key": {"op": "compute_perievent_continuous", "part": "exception", "explicit_ep_none": True, "exception": "TypeError"},
                                           "what": "ep=None (the documented default) passed explicitly raised TypeError: " + str(ex)[:100], "input": dict(inp, probe="explicit_ep_none")})
                    kw = {}
                    continue
                res.violations.append({"key": dict(key, part="exception", exception=type(ex).__name__), "what": "raised " + type(ex).__name__ + ": " + str(ex)[:100], "input": inp})
                break
        if pc is None:
            continue
        got_t = [C.to_ns(v) for v in pc.t]
        arr = np.asarray(pc.values)
        arr = cont_planes(arr, container)
        if arr is None:
            res.violations.append({"key": dict(key, part="frame_columns"), "what": container + " input: the data columns are not aligned identically / wrong shape", "input": inp,
                                   "impl": list(np.asarray(pc.values).shape)})
            continue
        got_c = [[None if np.isnan(v) else int(v) for v in arr[:, j]] for j in range(arr.shape[1])]
        bad = cont_verdict(ts, vs, tr, eff, w0, w1, got_t, got_c)
        if bad is not None:
            res.violations.append({"key": dict(key, part=bad[0]), "what": bad[1], "input": inp, "impl": [got_t, got_c], "expected": bad[2]})
        if mpub is not None and (got_t, got_c) != mpub:
            res.disagreements.append({"op": "compute_perievent_continuous", "input": inp, "impl": [got_t, got_c], "model": list(mpub)})
        # kernel: slice bounds and offsets
        if n % 2 == 0 and mpub is not None:
            bs = ts[1] - ts[0]
            n0, n1 = -(-w0 // bs), -(-w1 // bs)
            st, en = G.arr([s for s, _ in eff]), G.arr([e for _, e in eff])
            for nm, f in (("compiled", PF._jitcontinuous_perievent),) + ((("py_func", PF._jitcontinuous_perievent.py_func),) if n % 10 == 0 else ()):
                idx, sl, ntar, sw = f(G.arr(ts), G.arr(tr), st, en, np.array([n0, n1]))
                gk = [int(v) for row, s_ in zip(sl, sw) for v in (row[0], row[1], s_)]
                mk = [int(v) for v in mout[mline[n] + 2].split()]
                if gk != mk or int(ntar) != len(mk) // 3:
                    res.disagreements.append({"op": "_jitcontinuous_perievent", "mode": nm, "input": inp, "impl": gk, "model": mk})
        if n % 901 == 0:
            res.sample({"op": "compute_perievent_continuous", "ts": ts, "tref": tr, "ep": ep, "minmax": [w0, w1], "row_times": got_t, "columns": got_c})


def run_continuous_kernel(res, tier, rng, PF):
    """_perievent_continuous (kernel + scatter) on IRREGULAR sampling (duplicates incl.): index-level statement and model"""
    cases = []
    for _ in range(400 if tier == "quick" else 4000):
        n = rng.randint(1, 12)
        ts = sorted(rng.randrange(0, 24) * U for _ in range(n))
        m = rng.randint(1, 3)
        cuts = sorted(rng.sample(range(0, 26), 2 * m))
        ep = [(cuts[2 * i] * U, cuts[2 * i + 1] * U) for i in range(m)]
        if not G.canonical(ep):
            continue
        tr = sorted(rng.randrange(0, 26) * U for _ in range(rng.randint(0, 5)))
        cases.append((ts, tr, ep, rng.randint(0, 4), rng.randint(0, 4)))
    lines = []
    for ts, tr, ep, n0, n1 in cases:
        vs = list(range(10, 10 + len(ts)))
        lines.append("pc_columns\t%s\t%s\t%s\t%s\t%d\t%d" % (C.fmt_ints(ts), C.fmt_ints(vs), C.fmt_ints(tr), C.fmt_iset(ep), n0, n1))
        lines.append("pc_spec\t%s\t%s\t%s\t%s\t%d\t%d" % (C.fmt_ints(ts), C.fmt_ints(vs), C.fmt_ints(tr), C.fmt_iset(ep), n0, n1))
    mout = C.run_model(lines, driver="driver_c16")
    for n, (ts, tr, ep, n0, n1) in enumerate(cases):
        vs = list(range(10, 10 + len(ts)))
        inp = {"ts": ts, "values": vs, "tref": tr, "ep": ep, "windowsize": [n0, n1]}
        res.case(("pk", tuple(ts), tuple(tr), tuple(ep), n0, n1), nontrivial=any(s <= r <= e for s, e in ep for r in tr))
        res.count("cont_kernel_irregular_sampling")
        if len(set(ts)) < len(ts):
            res.count("cont_kernel_duplicate_sample_times")
        # statement at index level
        exp = []
        for s, e in ep:
            I = [i for i, t in enumerate(ts) if s <= t <= e]
            for r in tr:
                if s <= r <= e:
                    if not I:
                        exp.append([[None] * (n0 + n1 + 1)])
                        continue
                    dmin = min(abs(ts[i] - r) for i in I)
                    exp.append([[vs[p + o] if (p + o) in I else None for o in range(-n0, n1 + 1)] for p in I if abs(ts[p] - r) == dmin])
        st, en = G.arr([s for s, _ in ep]), G.arr([e for _, e in ep])
        try:
            out = PF._perievent_continuous(G.arr(ts), np.asarray(vs, dtype=float), G.arr(tr), st, en, np.array([n0, n1]))
        except Exception as ex:
            res.violations.append({"key": {"op": "_perievent_continuous", "part": "exception"}, "what": "raised " + type(ex).__name__ + ": " + str(ex)[:100], "input": inp})
            continue
        got = [[None if np.isnan(v) else int(v) for v in out[:, j]] for j in range(out.shape[1])]
        if not (len(got) == len(exp) and all(c in acc for c, acc in zip(got, exp))):
            res.violations.append({"key": {"op": "_perievent_continuous", "part": "values"},
                                   "what": "column j, row o is not the sample o steps from the sample nearest r_j within its epoch (NaN outside the epoch)",
                                   "input": inp, "impl": got, "expected": exp})
        mc, ms = parse_cols(mout[2 * n]), parse_cols(mout[2 * n + 1])
        if got != mc:
            res.disagreements.append({"op": "_perievent_continuous", "input": inp, "impl": got, "model": mc})
        if mc != ms:
            res.disagreements.append({"op": "pc_columns(model) vs pc_spec(model)", "input": inp, "model": mc, "spec": ms})


def run(res, tier, seed):
    nap, CG, PF = _nap()
    warnings.simplefilter("ignore")
    np.seterr(all="ignore")
    rng = random.Random(seed * 16 + 3)
    res.rule = ("(1) kernel _cross_correlogram (compiled + .py_func): ALL (<=2 reference, <=3 target events, coincident incl.) on a 9-point dyadic lattice (2^-9 s) x 6 (binsize, windowsize) "
                "pairs incl. even/odd quotients, window shorter than the bin, lags exactly on bin edges [complete in thorough, seeded subsample in quick], + unsorted reference arrays (cursor moving back); "
                "(2) compute_auto/cross/event-correlogram through the public API: 3-member groups (empty members, coincident spikes) on the dyadic half-bin lattice x 5 (b, w) x ep none/1/2/3 epochs "
                "x norm x reverse x units s/ms/us x TsGroup or pair of groups, + random decimal-lattice trains with forced edge lags (float_ambiguous only there); counts recovered as integers; "
                "(3) compute_perievent: ALL (<=4 samples with duplicates, <=2 reference times on the half lattice) x 6 symmetric/asymmetric/one-sided windows incl. samples exactly on either window edge, "
                "Ts/Tsd/TsGroup, units, minmax as tuple/negative tuple/scalar; (4) compute_perievent_continuous + _jitcontinuous_perievent: regular series of 2/3/5/7 samples x epochs (default + <=29 sampled 1- and 2-interval sets with ends on the half lattice) x "
                "<=2 events on the half lattice (midway ties, on samples, outside epochs) x 6 windows (not multiples of the step, one-sided, asymmetric), + random series with 1-3 epochs and holes (epochs as ep= or as the series' own time support, "
                "no sample kept between the epochs), + series whose first two samples do NOT give the sampling step (a lone sample in the first epoch, leading samples outside the epochs at another spacing, a duplicated first sample) "
                "and series of 0/1 sample times; Tsd, TsdFrame and TsdTensor; _perievent_continuous on irregular sampling with duplicate sample times; "
                "(5) probes: ep=None passed explicitly to the four correlogram entry points, the pair of groups passed as a list. "
                "`exhaustive` refers to spaces (1) and (3) in the thorough tier; (2) and (4) are seeded samples of their products. Each compared with the extracted model (where its hypotheses hold) AND the brute-force statement. non-trivial = at least one pair in a bin / window cuts the data / a window truncated by an epoch edge")
    res.exhaustive = tier == "thorough"
    run_kernel(res, tier, rng, CG)
    run_public_corr(res, tier, rng, nap)
    run_perievent(res, tier, rng, nap)
    run_continuous(res, tier, rng, nap, PF)
    run_continuous_kernel(res, tier, rng, PF)


def search(res, seed):
    r2 = C.Result()
    run(r2, "thorough", seed)
    return r2.violations[0] if r2.violations else None


def replay(payload):
    nap, CG, PF = _nap()
    warnings.simplefilter("ignore")
    np.seterr(all="ignore")
    v = payload.get("violation") or (payload.get("disagreements") or [{}])[0]
    inp = v.get("input", {})
    op = (v.get("key") or {}).get("op") or v.get("op") or ""
    print("op:", op)
    print("input:", inp)
    if "t1" in inp:
        t1, t2, b, w = inp["t1"], inp["t2"], inp["binsize"], inp["windowsize"]
        Cv, Bv = CG._cross_correlogram(G.arr(t1), G.arr(t2), b / 1e9, w / 1e9)
        got = [recover(Cv, len(t1) * b / 1e9), [int(round(float(x) * 2e9)) for x in Bv]]
        exp = [o_hist(t1, t2, b, w), [2 * c for c in o_centres(b, w)]]
        print("impl", got, "expected", exp)
        return 0 if got == exp else 1
    if "minmax" in inp and "values" not in inp and "tref" in inp:
        ts, tr, (w0, w1) = inp["ts"], inp["tref"], inp["minmax"]
        big = nap.IntervalSet(-1.0, 1.0)
        x = nap.Tsd(G.arr(ts), np.arange(len(ts)) + 100.0, time_support=big)
        if inp.get("container") == "TsdFrame":
            x = nap.TsdFrame(G.arr(ts), np.arange(2.0 * len(ts)).reshape(len(ts), 2), time_support=big)
        if inp.get("container") == "TsdTensor":
            x = nap.TsdTensor(G.arr(ts), np.arange(4.0 * len(ts)).reshape(len(ts), 2, 2), time_support=big)
        try:
            pe = nap.compute_perievent(x, nap.Ts(G.arr(tr), time_support=big), (w0 / 1e9, w1 / 1e9))
        except Exception as ex:
            print("impl raised", type(ex).__name__, ex)
            return 1
        if "container" in inp:
            print("impl lags", [[C.to_ns(q) for q in pe[i].t] for i in range(len(tr))])
            return 0
        got = [(tr[i], list(zip([C.to_ns(q) for q in pe[i].t], [int(q) for q in pe[i].values]))) for i in range(len(tr))]
        exp = o_perievent(ts, list(range(100, 100 + len(ts))), tr, w0, w1)
        print("impl", got, "expected", exp)
        return 0 if got == exp else 1
    if "values" in inp:
        ts, vs, tr, ep, (w0, w1) = inp["ts"], inp["values"], inp["tref"], inp["ep"], inp["minmax"]
        mode = inp.get("mode", "ep" if ep else "default")
        container = inp.get("input", "Tsd")
        uf = dict(UNITS)[inp.get("units", "s")]
        eff = [tuple(e) for e in ep] if ep else [(ts[0], ts[-1])]
        try:
            x = cont_input(nap, ts, vs, eff, mode, container)
            pc = nap.compute_perievent_continuous(x, nap.Ts(G.arr(tr), time_support=nap.IntervalSet(-1.0, 5.0)), (w0 / uf, w1 / uf), time_unit=inp.get("units", "s"),
                                                  **({"ep": mk_ep(nap, eff)} if mode == "ep" else ({"ep": None} if inp.get("probe") == "explicit_ep_none" else {})))
        except Exception as ex:
            print("impl raised", type(ex).__name__, ex)
            return 1
        arr = cont_planes(np.asarray(pc.values), container)
        if arr is None:
            print("impl: wrong shape / data columns not aligned identically", np.asarray(pc.values).shape)
            return 1
        got_c = [[None if np.isnan(q) else int(q) for q in arr[:, j]] for j in range(arr.shape[1])]
        got_t = [C.to_ns(q) for q in pc.t]
        bad = cont_verdict(ts, vs, tr, eff, w0, w1, got_t, got_c)
        print("impl", got_t, got_c)
        if bad is not None:
            print("VIOLATION part=%s: %s\n expected (any of)" % bad[:2], bad[2])
        return 0 if bad is None else 1
    if "members" in inp:
        keys = sorted(int(k) for k in inp["members"])
        mem = [inp["members"].get(k, inp["members"].get(str(k))) for k in keys]
        b, w, ep, norm, reverse, un = inp["binsize"], inp["windowsize"], inp["ep"], inp["norm"], inp.get("reverse", False), inp.get("units", "s")
        uf = dict(UNITS)[un]
        lat_sup = [tuple(x) for x in inp["group_support"]]
        ep = [tuple(x) for x in ep] if ep else None
        supo = mk_ep(nap, lat_sup)
        grp = nap.TsGroup({k: nap.Ts(G.arr(m), time_support=supo) for k, m in zip(keys, mem)}, time_support=supo)
        epk = {"ep": mk_ep(nap, ep)} if ep else {}
        eff = ep if ep else lat_sup
        rm = [restrict(m, eff) for m in mem]
        T = tot(eff) / 1e9
        bad = 0
        if inp.get("probe"):
            g1 = nap.TsGroup({keys[0]: nap.Ts(G.arr(mem[0]), time_support=supo)}, time_support=supo)
            g2 = nap.TsGroup({k: nap.Ts(G.arr(m), time_support=supo) for k, m in zip(keys[1:], mem[1:])}, time_support=supo)
            evo = nap.Ts(G.arr(inp["event"]), time_support=supo)
            try:
                if inp["probe"] == "groups_as_list":
                    df = nap.compute_crosscorrelogram([g1, g2], b / 1e9, w / 1e9, norm=norm)
                elif "auto" in op:
                    df = nap.compute_autocorrelogram(grp, b / 1e9, w / 1e9, norm=norm, ep=None)
                elif "event" in op:
                    df = nap.compute_eventcorrelogram(grp, evo, b / 1e9, w / 1e9, norm=norm, ep=None)
                elif "pair" in op:
                    df = nap.compute_crosscorrelogram((g1, g2), b / 1e9, w / 1e9, norm=norm, ep=None)
                else:
                    df = nap.compute_crosscorrelogram(grp, b / 1e9, w / 1e9, norm=norm, ep=None)
            except Exception as ex:
                print("impl raised", type(ex).__name__, ex)
                return 1
            print("impl returned a frame of shape", df.shape)
            return 0
        if "auto" in op:
            df = nap.compute_autocorrelogram(grp, b / uf, w / uf, norm=norm, time_units=un, **epk)
            for k, m in zip(keys, rm):
                if m:
                    got = recover(df[k].values, len(m) * b / 1e9 * ((len(m) / T) if norm else 1.0))
                    print("member", k, "impl", got, "expected", o_auto(m, b, w))
                    bad += got != o_auto(m, b, w)
        elif "event" in op:
            ev_sup = [tuple(x) for x in inp.get("event_support", lat_sup)]
            evo = nap.Ts(G.arr(inp["event"]), time_support=mk_ep(nap, ev_sup))
            eeff = ep if ep else ev_sup
            rev = restrict(restrict(inp["event"], ev_sup), eeff)
            df = nap.compute_eventcorrelogram(grp, evo, b / uf, w / uf, norm=norm, time_units=un, **epk)
            for k, m0 in zip(keys, mem):
                m = restrict(m0, eeff)
                if rev and (m or not norm):
                    got = recover(df[k].values, len(rev) * b / 1e9 * ((len(m) / (tot(eeff) / 1e9)) if norm else 1.0))
                    print("member", k, "impl", got, "expected", o_hist(rev, m, b, w))
                    bad += got != o_hist(rev, m, b, w)
        else:
            df = nap.compute_crosscorrelogram(grp, b / uf, w / uf, norm=norm, time_units=un, reverse=reverse, **epk)
            for lab in df.columns:
                a, c2 = keys.index(lab[0]), keys.index(lab[1])
                if rm[a] and (rm[c2] or not norm):
                    got = recover(df[lab].values, len(rm[a]) * b / 1e9 * ((len(rm[c2]) / T) if norm else 1.0))
                    print("pair (reference, target)", lab, "impl", got, "expected", o_hist(rm[a], rm[c2], b, w))
                    bad += got != o_hist(rm[a], rm[c2], b, w)
        print("row labels", [C.to_ns(x) for x in df.index.values], "expected", o_centres(b, w))
        bad += [C.to_ns(x) for x in df.index.values] != o_centres(b, w)
        return 1 if bad else 0
    if "t" in inp and "binsize" in inp:
        sup = nap.IntervalSet(-1.0, 1.0)
        grp = nap.TsGroup({0: nap.Ts(G.arr(inp["t"]), time_support=sup)}, time_support=sup)
        df = nap.compute_autocorrelogram(grp, inp["binsize"] / 1e9, inp["windowsize"] / 1e9, norm=False)
        got = [[C.to_ns(x) for x in df.index.values], recover(df[0].values, len(inp["t"]) * inp["binsize"] / 1e9)]
        exp = [o_centres(inp["binsize"], inp["windowsize"]), o_auto(inp["t"], inp["binsize"], inp["windowsize"])]
        print("impl", got, "expected", exp)
        return 0 if got == exp else 1
    return 1
