"""C16 correlograms and peri-event alignment report true lags to the reference events."""
import itertools
import os
import random
import shutil
import tempfile
import warnings

import numpy as np
import pandas as pd

import common as C
import gen as G

LEVEL = "proof"
DRIVERS = ["driver_c16"]
TRUSTED = ["model: coq/Model/Correlogram.v (xc_fwd/xc_bwd cursor zipper, xc_bins, xcorr_counts, xcorr_centres2, autocorr_counts, Q-valued normalisation) and "
           "coq/Model/Perievent.v (align_one/align_tsd; pc_adv/pc_epoch_pos/pc_win/pc_kernel, scatter by (size, offset), pc_public) over Model/Restrict.v, Count.v, Slice.v; "
           "theorems: Proofs/CorrelogramProofs.v, Proofs/PerieventProofs.v, Proofs/PerieventContProofs.v",
           "np.searchsorted(side=left) on a sorted array is the count #{t < v}; np.unique lists exactly the values present; np.arange(0, w + bs, bs) has ceil(w/bs) + 1 entries (NumPy's contracts)",
           "pandas DataFrame assembly / division by the rate Series and the TsGroup/Ts/Tsd/TsdFrame constructors' restriction to the given time support are exercised by the public-API oracle, not modelled line by line"]
ASSUMPTIONS = ["exhaustive cases live on the dyadic lattice 2^-9 s (bins multiples of it) where `rbound += binsize`, `t - w`, `2w/b` are exact in float64; on decimal inputs a lag exactly on a bin edge "
               "and a sample exactly on a peri-event window edge are counted as float_ambiguous (the counts must then lie between the strict and the closed bin counts); the bin centres are judged exactly everywhere",
               "rates are recovered as integers: value * n_ref * binsize (* rate of the target when norm=True) must be within 1e-6 of the integer pair count",
               "reference trains are non-empty (0/0 = NaN otherwise, not judged); norm=True with an empty target is 0/0 = NaN (checked to be NaN)",
               "compute_autocorrelogram labels its rows with np.round(centres, 9), exact on nanosecond ticks; bins that are not whole microseconds are probed separately (key part=index_rounded_to_us, a fixed finding)",
               "compute_perievent_continuous: 'o steps' is read as the time offset o*dt, dt = the sampling step = the smallest positive difference between consecutive samples; the ROW SET (offsets with -w0 <= o*dt <= w1) "
               "is judged when every two consecutive samples of a common epoch are dt apart and dt is witnessed inside an epoch or by the whole series being regular (regular sampling with holes, whichever samples come first); "
               "otherwise (irregular inside an epoch, fewer than two sample times) only: no exception, exactly one row at time 0, increasing row times, and the index-level statement for the rows returned",
               "'nearest' ties (event exactly midway between two samples) may go to either sample for the statement, the model fixes the later one",
               "the model of compute_perievent_continuous copies `time_array[1] - time_array[0]`: it is compared with the implementation whenever that first step is positive, and with the statement only when the first step "
               "IS the sampling step (theorem C16_continuous_public_step; outside, C16_continuous_first_step_refuted)",
               "the nearest-sample theorem needs non-decreasing sample times and event times (what Ts/Tsd guarantee)",
               "argument forms (section 6): every form holds the SAME instants / durations exactly (a np.float32 tuple is generated only when the float32 unit conversion and rounding are exact); forms outside the documented signatures "
               "(0-d arrays, list / ndarray minmax, upper-case units) must raise TypeError / ValueError / RuntimeError or satisfy the statement; the model is compared on the canonical forms only (it takes ticks: all forms of an instant are one model input); "
               "a saved TsGroup stores every member as float64 data (documented npz format): after save + load the lags are judged, not the values; "
               "a failing case whose minmax is a tuple of numpy unsigned integers / np.float16 is re-run with the plain float tuple: the precise key (one boolean per trigger) is used only when that run satisfies the statement"]

U = 1953125          # 2^-9 s in ticks
V = 8 * U            # 2^-6 s = 15625 us: dyadic AND a whole number of microseconds


def _nap():
    import pynapple as nap
    from pynapple.process import correlograms as CG
    from pynapple.process import _process_functions as PF
    return nap, CG, PF


# ----------------------------------------------------------------------------------------------
# oracles = brute-force restatements of the property (ticks)
def o_centres(b, w):
    """the integer multiples of binsize inside the requested window [-w, w]"""
    m = w // b
    return [k * b for k in range(-m, m + 1)]


def o_hist(t1, t2, b, w):
    """pairs (reference r, target t) whose lag t - r lies in the half-open bin of width b centred on c"""
    return [sum(1 for r in t1 for t in t2 if 2 * c - b <= 2 * (t - r) < 2 * c + b) for c in o_centres(b, w)]


def o_hist_bounds(t1, t2, b, w, nb):
    """decimal lattices: a lag exactly on a bin edge may fall on either side; per bin (pairs strictly inside, pairs inside or on an edge),
    for the nb bins the implementation reports"""
    m = nb // 2
    lo = [sum(1 for r in t1 for t in t2 if 2 * k * b - b < 2 * (t - r) < 2 * k * b + b) for k in range(-m, m + 1)]
    hi = [sum(1 for r in t1 for t in t2 if 2 * k * b - b <= 2 * (t - r) <= 2 * k * b + b) for k in range(-m, m + 1)]
    return lo, hi


def o_auto(t, b, w):
    h = o_hist(t, t, b, w)
    h[len(h) // 2] = 0
    return h


def o_perievent(ts, vs, tref, w0, w1):
    return [(r, [(t - r, v) for t, v in zip(ts, vs) if r - w0 <= t < r + w1]) for r in tref]


def sampling_step(ts, ep):
    """(dt, judged). dt = the sampling step of a regularly sampled series with holes = the smallest positive difference between
    consecutive samples (None when there are fewer than two distinct sample times). judged = the rows 'o steps from a sample' have
    the times o*dt: every two consecutive samples lying in a common epoch are exactly dt apart, and dt is witnessed either by two
    samples of a common epoch or by the whole series being regular"""
    d = [b - a for a, b in zip(ts, ts[1:])]
    pos = [x for x in d if x > 0]
    if not pos:
        return None, False
    dt = min(pos)
    inep = [b - a for a, b in zip(ts, ts[1:]) if any(s <= a and b <= e for s, e in ep)]
    return dt, all(x == dt for x in inep) and (len(inep) > 0 or all(x == dt for x in d))


def o_rows(dt, w0, w1):
    """the rows of the statement: the offsets o whose time o*dt lies in the requested window [-w0, w1]"""
    return list(range(-(w0 // dt), w1 // dt + 1))


def o_continuous(ts, vs, tref, ep, offs):
    """columns for the row offsets `offs` (in steps): each column is a LIST OF ACCEPTABLE columns (one per nearest sample on ties)"""
    cols = []
    for s, e in ep:
        I = [i for i, t in enumerate(ts) if s <= t <= e]
        for r in tref:
            if not (s <= r <= e):
                continue
            if not I:
                cols.append([[None] * len(offs)])
                continue
            dmin = min(abs(ts[i] - r) for i in I)
            acc = []
            for p in I:
                if abs(ts[p] - r) == dmin:
                    acc.append([vs[p + o] if (p + o) in I else None for o in offs])
            cols.append(acc)
    return cols


def cont_verdict(ts, vs, tr, eff, w0, w1, got_t, got_c):
    """None when the result satisfies the statement, else (part, what, expected)"""
    dt, judged = sampling_step(ts, eff)
    exp_offs = o_rows(dt, w0, w1) if judged else None
    zero = [i for i, t in enumerate(got_t) if t == 0]
    if got_c is None or len(zero) != 1 or any(a >= b for a, b in zip(got_t, got_t[1:])) or (judged and got_t != [o * dt for o in exp_offs]):
        return ("rows", "the rows are not the offsets o (times o*dt, dt = the sampling step) inside the window [-w0, w1]"
                + (": the step was taken from the first two samples, which a gap separates" if first_step_class(ts, dt) == "gap" else ""),
                [[o * dt for o in exp_offs], o_continuous(ts, vs, tr, eff, exp_offs)] if judged else "exactly one row at time 0, increasing row times")
    offs = [i - zero[0] for i in range(len(got_t))]
    cols = o_continuous(ts, vs, tr, eff, offs)
    if not (len(got_c) == len(cols) and all(c in acc for c, acc in zip(got_c, cols))):
        return ("values", "column j, row o is not the sample o steps from the sample nearest r_j within its epoch (NaN outside the epoch)", [got_t, cols])
    return None


def cont_input(nap, ts, vs, eff, mode, container):
    lo_t = min([0] + list(ts) + [s for s, _ in eff])
    hi_t = max([0] + list(ts) + [e for _, e in eff])
    sup = mk_ep(nap, eff) if mode == "support" else (None if mode == "default" else nap.IntervalSet(lo_t / 1e9 - 1.0, hi_t / 1e9 + 1.0))
    base = np.asarray(vs, dtype=float)
    if container == "TsdFrame":
        return nap.TsdFrame(G.arr(ts), np.stack([base, base + 1000.0], axis=1).reshape(len(ts), 2), time_support=sup)
    if container == "TsdTensor":
        return nap.TsdTensor(G.arr(ts), np.stack([base + 1000.0 * q for q in range(4)], axis=1).reshape(len(ts), 2, 2), time_support=sup)
    return nap.Tsd(G.arr(ts), base, time_support=sup)


def cont_planes(arr, container):
    """the data planes of the result (one per data column of the input); None = wrong shape or planes not aligned identically"""
    if container == "Tsd":
        return arr if arr.ndim == 2 else None
    planes = [arr[:, :, 0], arr[:, :, 1]] if container == "TsdFrame" and arr.ndim == 3 else ([arr[:, :, a_, b_] for a_ in (0, 1) for b_ in (0, 1)] if container == "TsdTensor" and arr.ndim == 4 else None)
    if planes is None or not all(np.array_equal(np.nan_to_num(planes[0] + 1000.0 * q, nan=-1.0), np.nan_to_num(pl, nan=-1.0)) for q, pl in enumerate(planes)):
        return None
    return planes[0]


def first_step_class(ts, dt):
    if len(ts) < 2:
        return "none(<2 samples)"
    if ts[1] == ts[0]:
        return "zero"
    return "sampling_step" if ts[1] - ts[0] == dt else "gap"


def recover(vals, scale):
    """vals * scale must be integers (pair counts); returns list of int / None (NaN) / ('frac', x)"""
    out = []
    for v in vals:
        x = float(v) * scale
        if not np.isfinite(x):
            out.append(None)
            continue
        k = int(round(x))
        out.append(k if abs(x - k) <= 1e-6 * max(1.0, abs(k)) else ("frac", x))
    return out


def restrict(ts, ep):
    return [t for t in ts if any(s <= t <= e for s, e in ep)]


def tot(ep):
    return sum(e - s for s, e in ep)


def mk_ep(nap, ep):
    return nap.IntervalSet(G.arr([s for s, _ in ep]), G.arr([e for _, e in ep]))


def edge_hit(t1, t2, b, w):
    """some lag lies exactly on a bin edge (decimal lattices: decided by rounding noise)"""
    nb = (2 * w) // b
    nb = nb + 1 if nb % 2 == 0 else nb
    return any((2 * (t - r) + nb * b) % (2 * b) == 0 for r in t1 for t in t2)


UNITS = (("s", 1e9), ("ms", 1e6), ("us", 1e3))


# ----------------------------------------------------------------------------------------------
# 1. the kernel _cross_correlogram (compiled and .py_func) against model and oracle
def run_kernel(res, tier, rng, CG):
    pts = G.lattice(9, step=U)
    t1s = [t for t in G.sorted_multisets(pts, 2)]
    t2s = G.sorted_multisets(pts, 3)
    bws = [(2 * U, 2 * U), (2 * U, 4 * U), (U, 2 * U), (2 * U, 3 * U), (4 * U, 2 * U), (3 * U, 4 * U)]
    cases = [(t1, t2, b, w) for t1 in t1s for t2 in t2s for (b, w) in bws]
    if tier == "quick":
        cases = rng.sample(cases, 14000)
    # a few unsorted reference arrays (the backward cursor loop): correspondence only
    uns = []
    for _ in range(300 if tier == "quick" else 3000):
        t1 = [rng.choice(pts) for _ in range(rng.randint(2, 4))]
        t2 = sorted(rng.choice(pts) for _ in range(rng.randint(0, 5)))
        uns.append((t1, t2) + rng.choice(bws))
    lines = ["xcorr\t%s\t%s\t%d\t%d" % (C.fmt_ints(t1), C.fmt_ints(t2), b, w) for t1, t2, b, w in cases + uns]
    out = C.run_model(lines, driver="driver_c16")
    arrs = {}

    def A(ts):
        k = tuple(ts)
        if k not in arrs:
            arrs[k] = G.arr(ts)
        return arrs[k]
    for n, (t1, t2, b, w) in enumerate(cases + uns):
        sorted_ref = n < len(cases)
        inp = {"t1": t1, "t2": t2, "binsize": b, "windowsize": w}
        mc, mb = out[n].split("|")
        mc, mb = [int(x) for x in mc.split()], [int(x) for x in mb.split()]
        exp, cen = o_hist(t1, t2, b, w), o_centres(b, w)
        on_edge = edge_hit(t1, t2, b, w)
        if sorted_ref:
            res.case(("k", tuple(t1), tuple(t2), b, w), nontrivial=len(t1) > 0 and len(t2) > 0 and sum(exp) > 0)
            res.count("kernel_cases")
            if on_edge:
                res.count("kernel_lag_on_bin_edge")
            if len(set(t2)) < len(t2) or len(set(t1)) < len(t1):
                res.count("kernel_coincident_spikes")
            if not t2:
                res.count("kernel_empty_target")
            if mc != exp or mb != [2 * c for c in cen]:
                res.disagreements.append({"op": "xcorr(model vs statement)", "input": inp, "model": [mc, mb], "expected": [exp, cen]})
        else:
            res.evaluations += 1
            res.count("kernel_unsorted_reference")
        funs = [("compiled", CG._cross_correlogram)]
        if (not sorted_ref) or n % 7 == 0:
            funs.append(("py_func", CG._cross_correlogram.py_func))
        for nm, f in funs:
            Cv, Bv = f(A(t1), A(t2), b / 1e9, w / 1e9)
            gb = [int(round(float(x) * 2e9)) for x in Bv]
            if not t1:
                res.count("kernel_empty_reference(0/0, not judged)") if nm == "compiled" else None
                if gb != mb:
                    res.disagreements.append({"op": "_cross_correlogram centres", "mode": nm, "input": inp, "impl": gb, "model": mb})
                continue
            gc = recover(Cv, len(t1) * b / 1e9)
            if sorted_ref and (gc != exp or gb != [2 * c for c in cen]):
                res.violations.append({"key": {"op": "_cross_correlogram", "mode": nm, "lag_on_edge": bool(on_edge)},
                                       "what": "kernel output is not the histogram of pairwise lags in half-open bins centred on multiples of binsize",
                                       "input": inp, "impl": [gc, gb], "expected": [exp, [2 * c for c in cen]]})
            if gc != mc or gb != mb:
                res.disagreements.append({"op": "_cross_correlogram", "mode": nm, "sorted_reference": sorted_ref, "input": inp, "impl": [gc, gb], "model": [mc, mb]})
        if n % 4001 == 0:
            res.sample({"op": "_cross_correlogram", "t1": t1, "t2": t2, "binsize": b, "windowsize": w, "counts": mc, "centres_x2": mb})


# ----------------------------------------------------------------------------------------------
# 2. public correlograms
def check_frame(res, op, key, inp, df, labels, cen, exp_counts, scales, amb, model_counts=None, trains=None):
    """df: DataFrame; labels: expected column labels in order; exp_counts[label] = list of ints or None (all-NaN expected)
    or 'skip'; scales[label] = factor turning the reported value into a pair count"""
    got_idx = [C.to_ns(x) for x in df.index.values]
    if list(df.columns) != labels:
        res.violations.append({"key": dict(key, op=op, part="columns"), "what": "column labels / pair order differ", "input": inp,
                               "impl": [str(c) for c in df.columns], "expected": [str(c) for c in labels]})
        return
    if got_idx != cen:
        # (no tolerance: since 7e5f969 the kernel takes floor(np.round(2w/b, 9)), exact for every generated (b, w); the only
        #  inputs where that rounding is wrong are the nbins_round9 probes below, reported under their own key)
        res.violations.append({"key": dict(key, op=op, part="centres"), "what": "bin centres are not the multiples of binsize inside the window",
                               "input": inp, "impl": got_idx, "expected": cen})
        return
    for lab in labels:
        e = exp_counts[lab]
        if isinstance(e, str):
            continue
        col = df[lab].values
        if e is None:
            if not np.all(np.isnan(col)):
                res.violations.append({"key": dict(key, op=op, part="empty_target_norm"), "what": "norm=True with an empty target should be 0/0 = NaN",
                                       "input": inp, "impl": [float(x) for x in col]})
            continue
        got = recover(col, scales[lab])
        if got != e:
            within = False
            if amb and trains is not None and lab in trains and all(isinstance(g, int) for g in got):
                lo, hi = o_hist_bounds(trains[lab][0], trains[lab][1], inp["binsize"], inp["windowsize"], len(got))
                if op == "compute_autocorrelogram":
                    lo[len(lo) // 2] = hi[len(hi) // 2] = 0
                within = all(a <= g <= c for a, g, c in zip(lo, got, hi))
            if amb and within:
                res.float_ambiguous += 1
                res.count("float_ambiguous:decimal lag exactly on a bin edge")
            else:
                res.violations.append({"key": dict(key, op=op, part="values"),
                                       "what": "correlogram is not (pair count per bin) / (n_ref * binsize) [/ rate of the target]",
                                       "input": dict(inp, column=str(lab)), "impl": got, "expected": e})
        if model_counts is not None and lab in model_counts and got != model_counts[lab] and not amb:
            res.disagreements.append({"op": op, "input": dict(inp, column=str(lab)), "impl": got, "model": model_counts[lab]})


def run_public_corr(res, tier, rng, nap):
    half = 4 * U
    pts = G.lattice(8, step=half)
    trains = G.sorted_multisets(pts, 3)
    bws = [(V, V), (V, 2 * V), (2 * V, 2 * V), (V, 3 * half), (2 * V, V)]
    eps = [None, [(half, 5 * half)], [(0, 2 * half), (4 * half, 7 * half)], [(0, half), (2 * half, 3 * half), (5 * half, 7 * half)]]
    sup = [(-8 * V, 8 * V)]
    n_cases = 700 if tier == "quick" else 7000
    plan = []
    for c in range(n_cases):
        mem = [rng.choice(trains) for _ in range(3)]
        if c % 5 == 0:
            mem[rng.randrange(3)] = []
        ev = rng.choice([t for t in trains if t])
        plan.append((mem, ev, rng.choice(bws), rng.choice(eps), rng.random() < 0.5, rng.random() < 0.5, rng.choice(UNITS), "dyadic"))
    # decimal lattice, larger random trains
    for c in range(150 if tier == "quick" else 1500):
        b = rng.choice([10 ** 6, 2 * 10 ** 6, 5 * 10 ** 6, 10 ** 7, 4 * 10 ** 5])
        w = b * rng.choice([1, 2, 3, 5]) + rng.choice([0, 0, b // 2])
        mem = []
        for _ in range(3):
            base = sorted(rng.randrange(0, 10 ** 8) for _ in range(rng.randint(0, 25)))
            extra = [t + rng.choice([-1, 1]) * (rng.randrange(0, 4) * b + b // 2) for t in base[:6]] if b % 2 == 0 else []
            mem.append(sorted(t for t in base + extra if 0 <= t <= 10 ** 8))
        ev = sorted(rng.randrange(0, 10 ** 8) for _ in range(rng.randint(1, 10)))
        ep = rng.choice([None, [(10 ** 7, 6 * 10 ** 7)], [(0, 3 * 10 ** 7), (5 * 10 ** 7, 9 * 10 ** 7)]])
        plan.append((mem, ev, (b, w), ep, rng.random() < 0.5, rng.random() < 0.5, rng.choice(UNITS), "decimal"))
    keys = [3, 5, 9]
    lines = []
    for mem, ev, (b, w), ep, norm, reverse, (un, uf), kind in plan:
        lat_sup = sup if kind == "dyadic" else [(0, 10 ** 8)]
        rm = [restrict(m, ep) if ep else m for m in mem]
        for m in rm:
            lines.append("autocorr\t%s\t%d\t%d" % (C.fmt_ints(m), b, w))
        for i, j in itertools.combinations(range(3), 2):
            a, c2 = (j, i) if reverse else (i, j)
            lines.append("xcorr\t%s\t%s\t%d\t%d" % (C.fmt_ints(rm[a]), C.fmt_ints(rm[c2]), b, w))
    mout = C.run_model(lines, driver="driver_c16")
    mi = 0
    for cn, (mem, ev, (b, w), ep, norm, reverse, (un, uf), kind) in enumerate(plan):
        lat_sup = sup if kind == "dyadic" else [(0, 10 ** 8)]
        inp = {"members": dict(zip(keys, mem)), "event": ev, "binsize": b, "windowsize": w, "ep": ep, "norm": norm, "reverse": reverse, "units": un,
               "group_support": lat_sup}
        key = {"norm": norm, "units": un, "epochs": 0 if ep is None else len(ep), "lattice": kind}
        res.count("corr_" + kind)
        res.count("corr_units=" + un)
        res.count("corr_epochs=%d" % (0 if ep is None else len(ep)))
        res.count("corr_norm=%s" % norm)
        supo = mk_ep(nap, lat_sup)
        grp = nap.TsGroup({k: nap.Ts(G.arr(m), time_support=supo) for k, m in zip(keys, mem)}, time_support=supo)
        epk = {"ep": mk_ep(nap, ep)} if ep else {}     # (an explicit ep=None is rejected by the input validator)
        eff = ep if ep else lat_sup
        rm = [restrict(m, eff) for m in mem]
        T = tot(eff) / 1e9
        rate = [len(m) / T for m in rm]
        cen = o_centres(b, w)
        bsec = b / 1e9
        bq, wq = b / uf, w / uf
        dec = kind == "decimal"
        any_pairs = False
        # --- autocorrelogram
        mauto = {}
        for k in keys:
            mauto[k] = [int(x) for x in mout[mi].split()]
            mi += 1
        expc, scales = {}, {}
        for k, m, r_ in zip(keys, rm, rate):
            if not m:
                expc[k] = "skip"
                res.count("corr_empty_member")
                continue
            expc[k] = o_auto(m, b, w)
            any_pairs = any_pairs or sum(expc[k]) > 0
            scales[k] = len(m) * bsec * (r_ if norm else 1.0)
        amb = dec and any(edge_hit(m, m, b, w) for m in rm)
        try:
            df = nap.compute_autocorrelogram(grp, bq, wq, norm=norm, time_units=un, **epk)
            check_frame(res, "compute_autocorrelogram", key, inp, df, keys, cen, expc, scales, amb, None if dec else mauto, {k: (m, m) for k, m in zip(keys, rm)})
        except Exception as ex:
            res.violations.append({"key": dict(key, op="compute_autocorrelogram", part="exception"), "what": "raised " + type(ex).__name__ + ": " + str(ex)[:100], "input": inp})
        # --- crosscorrelogram (TsGroup)
        labels, expc, scales, mcross = [], {}, {}, {}
        amb = False
        for i, j in itertools.combinations(range(3), 2):
            a, c2 = (j, i) if reverse else (i, j)
            lab = (keys[a], keys[c2])
            labels.append(lab)
            mcross[lab] = [int(x) for x in mout[mi].split("|")[0].split()]
            mi += 1
            if not rm[a]:
                expc[lab] = "skip"
            elif norm and not rm[c2]:
                expc[lab] = None
                res.count("corr_empty_target_norm")
            else:
                expc[lab] = o_hist(rm[a], rm[c2], b, w)
                any_pairs = any_pairs or sum(expc[lab]) > 0
                scales[lab] = len(rm[a]) * bsec * (rate[c2] if norm else 1.0)
                if not rm[c2]:
                    res.count("corr_empty_target")
                if edge_hit(rm[a], rm[c2], b, w):
                    res.count("corr_lag_on_bin_edge")
                    amb = amb or dec
        try:
            df = nap.compute_crosscorrelogram(grp, bq, wq, norm=norm, time_units=un, reverse=reverse, **epk)
            check_frame(res, "compute_crosscorrelogram", dict(key, reverse=reverse), inp, df, labels, cen, expc, scales, amb, None if dec else mcross,
                        {(keys[a_], keys[c_]): (rm[a_], rm[c_]) for a_ in range(3) for c_ in range(3)})
        except Exception as ex:
            res.violations.append({"key": dict(key, op="compute_crosscorrelogram", part="exception"), "what": "raised " + type(ex).__name__ + ": " + str(ex)[:100], "input": inp})
        # --- crosscorrelogram (pair of groups): reference from the first group
        if cn % 3 == 0:
            g1 = nap.TsGroup({keys[0]: nap.Ts(G.arr(mem[0]), time_support=supo)}, time_support=supo)
            g2 = nap.TsGroup({k: nap.Ts(G.arr(m), time_support=supo) for k, m in zip(keys[1:], mem[1:])}, time_support=supo)
            labels, expc, scales = [], {}, {}
            amb = False
            for jj in (1, 2):
                lab = (keys[0], keys[jj])
                labels.append(lab)
                if not rm[0]:
                    expc[lab] = "skip"
                elif norm and not rm[jj]:
                    expc[lab] = None
                else:
                    expc[lab] = o_hist(rm[0], rm[jj], b, w)
                    scales[lab] = len(rm[0]) * bsec * (rate[jj] if norm else 1.0)
                    amb = amb or (dec and edge_hit(rm[0], rm[jj], b, w))
            try:
                df = nap.compute_crosscorrelogram((g1, g2), bq, wq, norm=norm, time_units=un, **epk)
                check_frame(res, "compute_crosscorrelogram(pair of groups)", key, inp, df, labels, cen, expc, scales, amb, None, {(keys[0], keys[c_]): (rm[0], rm[c_]) for c_ in (1, 2)})
            except Exception as ex:
                res.violations.append({"key": dict(key, op="compute_crosscorrelogram(pair of groups)", part="exception"), "what": "raised " + type(ex).__name__ + ": " + str(ex)[:100], "input": inp})
        # --- eventcorrelogram: reference = the event, inside ep (default: the event's own time support)
        ev_sup = lat_sup if cn % 2 == 0 else [(eff[0][0], eff[-1][1])]
        evo = nap.Ts(G.arr(ev), time_support=mk_ep(nap, ev_sup))
        eeff = ep if ep else ev_sup
        rev = restrict(restrict(ev, ev_sup), eeff)
        rme = [restrict(m, eeff) for m in mem]
        Te = tot(eeff) / 1e9
        expc, scales = {}, {}
        amb = False
        for k, m in zip(keys, rme):
            if not rev:
                expc[k] = "skip"
            elif norm and not m:
                expc[k] = None
            else:
                expc[k] = o_hist(rev, m, b, w)
                any_pairs = any_pairs or sum(expc[k]) > 0
                scales[k] = len(rev) * bsec * ((len(m) / Te) if norm else 1.0)
                amb = amb or (dec and edge_hit(rev, m, b, w))
        try:
            df = nap.compute_eventcorrelogram(grp, evo, bq, wq, norm=norm, time_units=un, **epk)
            check_frame(res, "compute_eventcorrelogram", key, dict(inp, event_support=ev_sup), df, keys, cen, expc, scales, amb, None, {k: (rev, m) for k, m in zip(keys, rme)})
        except Exception as ex:
            res.violations.append({"key": dict(key, op="compute_eventcorrelogram", part="exception"), "what": "raised " + type(ex).__name__ + ": " + str(ex)[:100], "input": inp})
        res.case(("c", cn, kind, b, w, norm, reverse, un, str(ep), str(mem), str(ev)), nontrivial=any_pairs)
        if cn % 301 == 0:
            res.sample({"op": "correlograms", "members": mem, "event": ev, "binsize": b, "windowsize": w, "ep": ep, "norm": norm, "reverse": reverse, "units": un})
    # --- the documented default ep=None passed EXPLICITLY, and the pair of groups given as a LIST (the validator and the docstring
    #     accept "tuple/list of two TsGroups"): the result must be the one of the plain call
    supo = mk_ep(nap, sup)
    for c in range(12 if tier == "quick" else 60):
        mem = [rng.choice([t for t in trains if t]) for _ in range(3)]
        ev = rng.choice([t for t in trains if t])
        b, w = rng.choice(bws)
        norm = bool(c % 2)
        grp = nap.TsGroup({k: nap.Ts(G.arr(m), time_support=supo) for k, m in zip(keys, mem)}, time_support=supo)
        g1 = nap.TsGroup({keys[0]: nap.Ts(G.arr(mem[0]), time_support=supo)}, time_support=supo)
        g2 = nap.TsGroup({k: nap.Ts(G.arr(m), time_support=supo) for k, m in zip(keys[1:], mem[1:])}, time_support=supo)
        evo = nap.Ts(G.arr(ev), time_support=supo)
        inp = {"members": dict(zip(keys, mem)), "event": ev, "binsize": b, "windowsize": w, "ep": None, "norm": norm, "reverse": False, "units": "s", "group_support": sup}
        calls = [("compute_autocorrelogram", "explicit_ep_none", lambda kw: nap.compute_autocorrelogram(grp, b / 1e9, w / 1e9, norm=norm, **kw), {"ep": None}),
                 ("compute_crosscorrelogram", "explicit_ep_none", lambda kw: nap.compute_crosscorrelogram(grp, b / 1e9, w / 1e9, norm=norm, **kw), {"ep": None}),
                 ("compute_crosscorrelogram(pair of groups)", "explicit_ep_none", lambda kw: nap.compute_crosscorrelogram((g1, g2), b / 1e9, w / 1e9, norm=norm, **kw), {"ep": None}),
                 ("compute_eventcorrelogram", "explicit_ep_none", lambda kw: nap.compute_eventcorrelogram(grp, evo, b / 1e9, w / 1e9, norm=norm, **kw), {"ep": None}),
                 ("compute_crosscorrelogram(pair of groups)", "groups_as_list", lambda kw: nap.compute_crosscorrelogram(kw["g"], b / 1e9, w / 1e9, norm=norm), {"g": [g1, g2]})]
        for op, trig, f, kw in calls:
            res.evaluations += 1
            res.count("corr_probe:" + trig)
            ref = f({"g": (g1, g2)} if "g" in kw else {})
            try:
                got = f(kw)
            except Exception as ex:
                res.violations.append({"key": {"op": op, "part": "exception", trig: True, "exception": type(ex).__name__},
                                       "what": "%s raised %s: %s" % ("the pair of groups passed as a list [g1, g2]" if trig == "groups_as_list" else "ep=None (the documented default) passed explicitly",
                                                                     type(ex).__name__, str(ex)[:100]), "input": dict(inp, probe=trig), "expected": "the result of the plain call"})
                continue
            if not (list(got.columns) == list(ref.columns) and np.array_equal(got.index.values, ref.index.values) and np.array_equal(got.values, ref.values, equal_nan=True)):
                res.violations.append({"key": {"op": op, "part": "values", trig: True}, "what": "result differs from the plain call", "input": dict(inp, probe=trig),
                                       "impl": got.values.tolist(), "expected": ref.values.tolist()})
    # --- probe: autocorrelogram row labels are np.round(centres, 6) (bins that are not whole microseconds; below 1 us the
    #     labels of the neighbouring bins collapse onto 0 and `autocorrs.loc[0] = 0` wipes them as well)
    supo = mk_ep(nap, sup)
    for b, w, m in ((U, 2 * U, [0, U, 3 * U, 6 * U]), (3 * U, 3 * U, [0, U, 3 * U, 6 * U]), (400, 800, [0, 400, 800, 1200, 5000])):
        grp = nap.TsGroup({0: nap.Ts(G.arr(m), time_support=supo)}, time_support=supo)
        df = nap.compute_autocorrelogram(grp, b / 1e9, w / 1e9, norm=False)
        got = [C.to_ns(x) for x in df.index.values]
        gotc = recover(df[0].values, len(m) * b / 1e9)
        res.evaluations += 1
        res.count("autocorr_submicrosecond_label_probe")
        if got != o_centres(b, w) or gotc != o_auto(m, b, w):
            res.violations.append({"key": {"op": "compute_autocorrelogram", "part": "index_rounded_to_us"},
                                   "what": "autocorrelogram row labels are np.round(centres, 6): not the multiples of binsize when binsize is not a whole number of microseconds"
                                           " (below 1 us several rows get the label 0 and are all zeroed)",
                                   "input": {"t": m, "binsize": b, "windowsize": w}, "impl": [got, gotc], "expected": [o_centres(b, w), o_auto(m, b, w)]})
    # --- probe (float gap, recorded not judged): decimal (2w)//b computed in floating point, e.g. (2*0.3)//0.1 = 5.0
    grp = nap.TsGroup({0: nap.Ts(np.array([0.0, 0.1, 0.2, 0.35]), time_support=supo), 1: nap.Ts(np.array([0.003, 0.1025, 0.2]), time_support=supo)}, time_support=nap.IntervalSet(-1.0, 1.0))
    nrows = len(nap.compute_crosscorrelogram(grp, 0.1, 0.3, norm=False).index)
    res.evaluations += 1
    res.count("decimal_floor_division_probe(binsize=0.1s,windowsize=0.3s): rows=%d, exact=7" % nrows)
    if nrows != 7:
        res.float_ambiguous += 1
    # --- probe: bin sizes >= 2 s with 2w/b within 0.5e-9 below an integer (the hypothesis round9_exact of Properties/C16b.v fails):
    #     nbins = floor(np.round(2w/b, 9)) takes the quotient for the integer above
    for b, w in ((4_000_000_000, 3_999_999_999), (5_000_000_000, 4_999_999_999), (4_000_000_000, 5_999_999_999)):
        grp = nap.TsGroup({0: nap.Ts(np.array([1.0, 5.0])), 1: nap.Ts(np.array([0.0, 2.0, 4.999999999, 9.0]))}, time_support=nap.IntervalSet(-1.0, 20.0))
        df = nap.compute_crosscorrelogram(grp, b / 1e9, w / 1e9, norm=False)
        got = [C.to_ns(x) for x in df.index.values]
        res.evaluations += 1
        res.count("nbins_round9_probe")
        if got != o_centres(b, w):
            res.violations.append({"key": {"op": "compute_crosscorrelogram", "part": "centres", "binsize_ge_2s_and_2w_over_b_within_half_ns_below_integer": True},
                                   "what": "bins centred outside the requested window: nbins = floor(np.round(2w/b, 9)) rounds 2w/b up to the next integer",
                                   "input": {"binsize": b, "windowsize": w}, "impl": got, "expected": o_centres(b, w)})


# ----------------------------------------------------------------------------------------------
# 3. compute_perievent
def parse_group(s):
    out = []
    if s == "":
        return out
    for part in s.split("|"):
        r, l = part.split(":")
        v = [int(x) for x in l.split()]
        out.append((int(r), list(zip(v[0::2], v[1::2]))))
    return out


def run_perievent(res, tier, rng, nap):
    step = 2 * U
    pts = G.lattice(6, step=step)
    halfpts = [i * U for i in range(-1, 12)]
    tss = [t for t in G.sorted_multisets(pts, 4) if len(t) >= 1]
    trefs = [t for t in G.sorted_multisets(halfpts, 2) if len(t) >= 1]
    wins = [(2 * U, 2 * U), (U, 3 * U), (4 * U, 0), (0, 2 * U), (3 * U, 3 * U), (6 * U, 2 * U)]
    cases = [(ts, tr, w) for ts in tss for tr in trefs for w in wins]
    if tier == "quick":
        cases = rng.sample(cases, 2500)
    cases = [c + ("dyadic",) for c in cases]
    for _ in range(200 if tier == "quick" else 2000):
        w0, w1 = rng.choice([(10 ** 6, 10 ** 6), (5 * 10 ** 5, 2 * 10 ** 6), (10 ** 7, 3 * 10 ** 6)])
        tr = sorted(rng.randrange(0, 10 ** 8) for _ in range(rng.randint(1, 5)))
        ts = sorted([rng.randrange(0, 10 ** 8) for _ in range(rng.randint(1, 20))] + [r + rng.choice([-w0, w1, 0, -w0 + 1, w1 - 1, -w0 - 1, w1 + 1]) for r in tr])
        cases.append(([t for t in ts if t >= 0], tr, (w0, w1), "decimal"))
    lines = []
    for ts, tr, (w0, w1), kind in cases:
        lines.append("perievent\t%d\t%d\t%s\t%s\t%s" % (w0, w1, C.fmt_ints(ts), C.fmt_ints(range(100, 100 + len(ts))), C.fmt_ints(tr)))
    mout = C.run_model(lines, driver="driver_c16")
    big = nap.IntervalSet(-1.0, 1.0)
    for n, (ts, tr, (w0, w1), kind) in enumerate(cases):
        vs = list(range(100, 100 + len(ts)))
        un, uf = UNITS[n % 3] if n % 4 == 0 else UNITS[0]
        as_ts = n % 5 == 1
        form = n % 3      # how minmax is passed: (w0, w1) / (-w0, w1) / scalar when symmetric
        inp = {"ts": ts, "tref": tr, "minmax": [w0, w1], "units": un, "input": "Ts" if as_ts else "Tsd", "lattice": kind}
        exp = o_perievent(ts, vs, tr, w0, w1)
        cut = any(0 < len(l) < len(ts) for _, l in exp)
        res.case(("p", tuple(ts), tuple(tr), w0, w1), nontrivial=cut)
        res.count("perievent_" + kind)
        res.count("perievent_units=" + un)
        if any(t == r - w0 for t in ts for r in tr):
            res.count("perievent_sample_on_left_edge")
        if any(t == r + w1 for t in ts for r in tr):
            res.count("perievent_sample_on_right_edge")
        if w0 != w1:
            res.count("perievent_asymmetric_window")
        amb = kind == "decimal" and any(t in (r - w0, r + w1) for t in ts for r in tr)
        sup = big if kind == "dyadic" else nap.IntervalSet(-1.0, 1.0)
        x = nap.Ts(G.arr(ts), time_support=sup) if as_ts else nap.Tsd(G.arr(ts), np.asarray(vs, dtype=float), time_support=sup)
        tref = nap.Ts(G.arr(tr), time_support=sup)
        mm = (w0 / uf, w1 / uf) if form == 0 else ((-w0 / uf, w1 / uf) if form == 1 else (w0 / uf if w0 == w1 else (w0 / uf, w1 / uf)))
        key = {"op": "compute_perievent", "units": un, "input": inp["input"], "lattice": kind}
        try:
            pe = nap.compute_perievent(x, tref, mm, time_unit=un)
        except Exception as ex:
            res.violations.append({"key": dict(key, part="exception"), "what": "raised " + type(ex).__name__ + ": " + str(ex)[:100], "input": inp})
            continue
        got = []
        rt = [C.to_ns(v) for v in pe.get_info("ref_times").values] if len(pe) else []
        for i, k in enumerate(pe.keys()):
            m = pe[k]
            lag = [C.to_ns(v) for v in m.t]
            val = [None] * len(lag) if as_ts else [int(v) for v in m.values]
            got.append((rt[i], list(zip(lag, val))))
        e2 = [(r, [(l, None if as_ts else v) for l, v in ll]) for r, ll in exp]
        if list(pe.keys()) != list(range(len(tr))):
            res.violations.append({"key": dict(key, part="keys"), "what": "group members are not numbered in reference order", "input": inp, "impl": [int(k) for k in pe.keys()]})
        elif got != e2:
            closed = [(r, [(t - r, None if as_ts else v) for t, v in zip(ts, vs) if r - w0 <= t <= r + w1]) for r in tr]
            strict = [(r, [(t - r, None if as_ts else v) for t, v in zip(ts, vs) if r - w0 < t < r + w1]) for r in tr]
            within = len(got) == len(tr) and all(g[0] == c[0] and all(x in g[1] for x in s_[1]) and g[1] == [x for x in c[1] if x in g[1]] and all(x in c[1] for x in g[1])
                                                 for g, c, s_ in zip(got, closed, strict))
            if amb and within:
                res.float_ambiguous += 1
                res.count("float_ambiguous:decimal sample exactly on a peri-event window edge")
            else:
                res.violations.append({"key": dict(key, part="lags"), "what": "member i is not the lags t - r_i (with values) of the samples with r_i - w0 <= t < r_i + w1, tagged r_i",
                                       "input": inp, "impl": got, "expected": e2})
        elif (w0 + w1 > 0) and [(C.to_ns(s), C.to_ns(e)) for s, e in pe.time_support.values] != [(-w0, w1)]:
            res.violations.append({"key": dict(key, part="support"), "what": "time support of the aligned group is not [-w0, w1]", "input": inp,
                                   "impl": [(C.to_ns(s), C.to_ns(e)) for s, e in pe.time_support.values]})
        mod = parse_group(mout[n])
        m2 = [(r, [(l, None if as_ts else v) for l, v in ll]) for r, ll in mod]
        if got != m2 and not amb:
            res.disagreements.append({"op": "compute_perievent", "input": inp, "impl": got, "model": m2})
        if mod != exp:
            res.disagreements.append({"op": "perievent(model vs statement)", "input": inp, "model": mod, "expected": exp})
        if n % 701 == 0:
            res.sample({"op": "compute_perievent", "ts": ts, "tref": tr, "minmax": [w0, w1], "result": got})
    # TsGroup input: a dict of aligned groups, one per member
    for n in range(60 if tier == "quick" else 600):
        ma, mb_ = rng.choice(tss), rng.choice(tss)
        tr = rng.choice(trefs)
        w0, w1 = rng.choice(wins)
        res.evaluations += 1
        res.count("perievent_tsgroup_input")
        g = nap.TsGroup({4: nap.Ts(G.arr(ma), time_support=big), 7: nap.Ts(G.arr(mb_), time_support=big)}, time_support=big)
        d = nap.compute_perievent(g, nap.Ts(G.arr(tr), time_support=big), (w0 / 1e9, w1 / 1e9))
        for k, m in ((4, ma), (7, mb_)):
            exp = [[t - r for t in m if r - w0 <= t < r + w1] for r in tr]
            got = [[C.to_ns(v) for v in d[k][i].t] for i in range(len(tr))] if k in d else None
            if got != exp or list(d.keys()) != [4, 7]:
                res.violations.append({"key": {"op": "compute_perievent", "input": "TsGroup"}, "what": "TsGroup input: member-wise alignment differs",
                                       "input": {"member": m, "tref": tr, "minmax": [w0, w1]}, "impl": got, "expected": exp})


    # TsdFrame / TsdTensor input (accepted by the input validator and the docstring)
    for nm, mk in (("TsdFrame", lambda: nap.TsdFrame(G.arr([0, step, 2 * step]), np.arange(6.0).reshape(3, 2), time_support=big)),
                   ("TsdTensor", lambda: nap.TsdTensor(G.arr([0, step, 2 * step]), np.arange(12.0).reshape(3, 2, 2), time_support=big))):
        res.evaluations += 1
        res.count("perievent_%s_input_probe" % nm)
        try:
            pe = nap.compute_perievent(mk(), nap.Ts(G.arr([step, 2 * step]), time_support=big), step / 1e9)
            got = [[C.to_ns(v) for v in pe[i].t] for i in range(2)]
            rows = [np.asarray(pe[i].values).tolist() for i in range(2)]
            exp = [[-step, 0], [-step, 0]]
            if got != exp or rows[0][0] != np.asarray(mk().values)[0].tolist():
                res.violations.append({"key": {"op": "compute_perievent", "input": nm, "part": "lags"}, "what": nm + " input: lags/rows differ", "impl": [got, rows], "expected": exp,
                                       "input": {"ts": [0, step, 2 * step], "tref": [step, 2 * step], "minmax": [step, step]}})
        except Exception as ex:
            res.violations.append({"key": {"op": "compute_perievent", "input": nm, "part": "exception", "exception": type(ex).__name__},
                                   "what": "compute_perievent(%s, ...) raised %s: %s (the validator and the docstring accept it; _align_tsd builds a 1-d Tsd from the rows)" % (nm, type(ex).__name__, str(ex)[:80]),
                                   "input": {"ts": [0, step, 2 * step], "tref": [step, 2 * step], "minmax": [step, step], "container": nm}})


# ----------------------------------------------------------------------------------------------
# 4. compute_perievent_continuous
def parse_cols(s):
    if s == "":
        return []
    return [[None if x == "nan" else int(x) for x in c.split()] for c in s.split("|")]


def cont_cases(tier, rng):
    """cases (ts, tref, ep, (w0, w1), kind, mode). mode: 'default' = ep omitted, default time support [t0, t_last];
    'ep' = wide time support, epochs passed as ep=; 'support' = epochs are the series' own time support, ep omitted"""
    out = []
    step = 2 * U
    wins = [(2 * step, 2 * step), (step, 3 * step), (0, 2 * step), (5 * U, 3 * U), (3 * step, step), (U, U)]
    for n in (2, 3, 5, 7):
        ts = [i * step for i in range(n)]
        grid = [i * U for i in range(0, 2 * n - 1)]
        eps = [None] + [e for e in G.canonical_isets(grid + [grid[-1] + U], 2) if e]
        if len(eps) > 30:
            eps = [None] + rng.sample(eps[1:], 29)
        trefs = [t for t in G.sorted_multisets(grid, 2) if t]
        for ep in eps:
            for tr in trefs:
                for w in wins:
                    out.append((ts, tr, ep, w, "regular", "ep" if ep else "default"))
    if tier == "quick":
        out = rng.sample(out, 3500)
    # larger random: regular sampling with holes between epochs, events near one or both edges
    for _ in range(300 if tier == "quick" else 3000):
        n = rng.randint(4, 30)
        ts = [i * step for i in range(n)]
        m = rng.randint(1, 3)
        cuts = sorted(rng.sample(range(0, 2 * n + 1), 2 * m))
        ep = [(cuts[2 * i] * U, cuts[2 * i + 1] * U) for i in range(m)]
        ep = [(s, e) for s, e in ep if s < e]
        if not G.canonical(ep) or not ep:
            continue
        mode = rng.choice(["ep", "ep", "ep", "default", "support"])
        if mode == "default":
            ep = None
        elif mode == "support" or rng.random() < 0.4:
            # recording with holes: no sample between the epochs (whichever samples come first)
            ts = [t for t in ts if any(s <= t <= e for s, e in ep)]
            if not ts:
                continue
        tr = sorted(rng.randrange(0, 2 * n) * U for _ in range(rng.randint(1, 6)))
        k0, k1 = rng.randint(0, 6), rng.randint(0, 6)
        if k0 + k1 == 0:
            k1 = 1
        w = (k0 * step + rng.choice([0, U]), k1 * step + rng.choice([0, U]))
        out.append((ts, tr, ep, w, "random", mode))
    # the first two samples do NOT define the sampling step: a lone sample in the first epoch (gap), samples before the
    # epochs at another spacing, a duplicated first sample; and series with fewer than two samples
    for _ in range(260 if tier == "quick" else 2600):
        g, m = rng.randint(2, 7), rng.randint(2, 6)
        body = [(g + i) * step for i in range(m)]
        ep2 = (body[0] - rng.choice([0, U]), body[-1] + rng.choice([0, U]))
        k0, k1 = rng.randint(0, 4), rng.randint(0, 4)
        w = (k0 * step + rng.choice([0, U]), k1 * step + rng.choice([0, U]))
        if w == (0, 0):
            w = (0, step)
        r = rng.random()
        if r < 0.45:
            ts, ep, kind = [0] + body, [(-U if rng.random() < 0.5 else 0, rng.choice([0, U, step])), ep2], "lone_first_sample"
            ep = [iv for iv in ep if iv[0] < iv[1]]
            mode = rng.choice(["ep", "support"])
        elif r < 0.7:
            ts, ep, kind, mode = [0, 3 * U] + body, [ep2], "leading_samples_outside_epochs", "ep"
        elif r < 0.85:
            ts, ep, kind, mode = [body[0]] + body, [ep2], "duplicated_first_sample", rng.choice(["ep", "support"])
        else:
            ts = rng.choice([[], [g * step], [g * step, g * step]])
            ep, kind, mode = [(g * step - rng.choice([U, step]), g * step + rng.choice([U, 3 * step]))], "fewer_than_two_sample_times", rng.choice(["ep", "support"])
        if not ep or not G.canonical(ep):
            continue
        if mode == "support":       # the constructor keeps the samples inside the time support only
            ts = [t for t in ts if any(s_ <= t <= e_ for s_, e_ in ep)]
        if not ts:
            mode = "ep"             # (an empty series does not keep the time support it is given: the epochs have to be passed)
        lo, hi = ep[0][0] // U - 1, ep[-1][1] // U + 1
        tr = sorted(rng.randrange(lo, hi + 1) * U for _ in range(rng.randint(1, 4)))
        out.append((ts, tr, ep, w, kind, mode))
    return out


def run_continuous(res, tier, rng, nap, PF):
    cases = cont_cases(tier, rng)
    lines, mline = [], []
    for ts, tr, ep, (w0, w1), kind, mode in cases:
        eff = ep if ep else [(ts[0], ts[-1])]
        vs = list(range(10, 10 + len(ts)))
        if first_step_class(ts, sampling_step(ts, eff)[0]) == "sampling_step":
            # the model copies `time_array[1] - time_array[0]`; it is the statement (and survives a repair of the step) exactly when that
            # first step is the sampling step (theorems C16_continuous_public_step / C16_continuous_first_step_refuted)
            bs = ts[1] - ts[0]
            n0, n1 = -(-w0 // bs), -(-w1 // bs)
            mline.append(len(lines))
            lines.append("pc_public\t%s\t%s\t%s\t%s\t%d\t%d" % (C.fmt_ints(ts), C.fmt_ints(vs), C.fmt_ints(tr), C.fmt_iset(eff), w0, w1))
            lines.append("pc_public_spec\t%s\t%s\t%s\t%s\t%d\t%d" % (C.fmt_ints(ts), C.fmt_ints(vs), C.fmt_ints(tr), C.fmt_iset(eff), w0, w1))
            lines.append("pc_kernel\t%s\t%s\t%s\t%d\t%d" % (C.fmt_ints(ts), C.fmt_ints(tr), C.fmt_iset(eff), n0, n1))
        else:
            mline.append(None)
    mout = C.run_model(lines, driver="driver_c16")
    for n, (ts, tr, ep, (w0, w1), kind, mode) in enumerate(cases):
        eff = ep if ep else [(ts[0], ts[-1])]
        vs = list(range(10, 10 + len(ts)))
        dt, regular = sampling_step(ts, eff)
        fsc = first_step_class(ts, dt)
        un, uf = UNITS[n % 3] if n % 4 == 0 else UNITS[0]
        container = "TsdFrame" if n % 6 == 5 else ("TsdTensor" if n % 12 == 3 else "Tsd")
        inp = {"ts": ts, "values": vs, "tref": tr, "ep": ep, "minmax": [w0, w1], "units": un, "input": container, "mode": mode}
        ins = [(r, k) for k, (s, e) in enumerate(eff) for r in tr if s <= r <= e]
        # the rows the statement names (when the series has a sampling step and is regular inside the epochs)
        judged_rows = regular
        exp_offs = o_rows(dt, w0, w1) if judged_rows else None
        ocols = o_continuous(ts, vs, tr, eff, exp_offs) if judged_rows else None
        # classification of the geometry
        trunc_l = trunc_r = both = tie = False
        for acc in (ocols or []):
            for col in acc[:1]:
                l_ = len(col) > 0 and col[0] is None
                r_ = len(col) > 0 and col[-1] is None
                trunc_l, trunc_r, both = trunc_l or l_, trunc_r or r_, both or (l_ and r_)
            tie = tie or len(acc) > 1
        res.case(("pc", tuple(ts), tuple(tr), str(ep), w0, w1, mode), nontrivial=bool(ins) and (trunc_l or trunc_r))
        res.count("cont_" + kind)
        res.count("cont_first_step=" + fsc)
        res.count("cont_input=" + container)
        res.count("cont_epochs=%s" % ("default" if ep is None else len(ep)))
        res.count("cont_mode=" + mode)
        for nm, fl in (("cont_window_truncated_left", trunc_l), ("cont_window_truncated_right", trunc_r), ("cont_window_truncated_both_sides", both),
                       ("cont_event_midway_between_samples", tie), ("cont_event_outside_epochs", len(ins) < len(tr)),
                       ("cont_asymmetric_window", w0 != w1), ("cont_window_not_multiple_of_step", dt is not None and (w0 % dt != 0 or w1 % dt != 0)),
                       ("cont_rows_not_judged(irregular inside an epoch, or no two samples in a common epoch)", dt is not None and not regular),
                       ("cont_rows_not_judged(no sampling step: fewer than two sample times)", dt is None)):
            if fl:
                res.count(nm)
        x = cont_input(nap, ts, vs, eff, mode, container)
        tref = nap.Ts(G.arr(tr), time_support=nap.IntervalSet(-1.0, 5.0))
        key = {"op": "compute_perievent_continuous", "units": un, "input": container, "epochs": "default" if ep is None else len(ep),
               "truncated": "both" if both else ("left" if trunc_l else ("right" if trunc_r else "none")),
               "first_step": fsc, "n_samples": len(ts) if len(ts) < 2 else "2+"}
        mpub = None
        if mline[n] is not None:
            q = mline[n]
            mpub_t, mpub_c = mout[q].split("#")
            mpub = ([int(v) for v in mpub_t.split()], parse_cols(mpub_c))
            mspec_t, mspec_c = mout[q + 1].split("#")
            mspec = ([int(v) for v in mspec_t.split()], parse_cols(mspec_c))
            if mpub != mspec:
                res.disagreements.append({"op": "pc_public(model) vs pc_public_spec(model)", "input": inp, "model": mpub, "spec": mspec})
            if judged_rows:
                if not (mpub[0] == [o * dt for o in exp_offs] and len(mpub[1]) == len(ocols) and all(c in acc for c, acc in zip(mpub[1], ocols))):
                    res.disagreements.append({"op": "perievent_continuous(model vs statement)", "input": inp, "model": mpub, "expected": [exp_offs, ocols]})
        else:
            res.count("cont_model_outside_its_hypothesis(first step is not the sampling step): judged by the statement oracle alone")
        kw = {"ep": mk_ep(nap, ep)} if mode == "ep" else ({"ep": None} if n % 5 == 0 else {})     # ep=None: the documented default, passed explicitly
        pc = None
        for attempt in (0, 1):
            try:
                pc = nap.compute_perievent_continuous(x, tref, (w0 / uf, w1 / uf), time_unit=un, **kw)
                break
            except Exception as ex:
                if attempt == 0 and "ep" in kw and kw["ep"] is None and isinstance(ex, TypeError) and "Parameter ep" in str(ex):
                    res.count("cont_probe:explicit_ep_none")
                    res.violations.append({"key": {"op": "compute_perievent_continuous", "part": "exception", "explicit_ep_none": True, "exception": "TypeError"},
                                           "what": "ep=None (the documented default) passed explicitly raised TypeError: " + str(ex)[:100], "input": dict(inp, probe="explicit_ep_none")})
                    kw = {}
                    continue
                res.violations.append({"key": dict(key, part="exception", exception=type(ex).__name__), "what": "raised " + type(ex).__name__ + ": " + str(ex)[:100], "input": inp})
                break
        if pc is None:
            continue
        got_t = [C.to_ns(v) for v in pc.t]
        arr = np.asarray(pc.values)
        arr = cont_planes(arr, container)
        if arr is None:
            res.violations.append({"key": dict(key, part="frame_columns"), "what": container + " input: the data columns are not aligned identically / wrong shape", "input": inp,
                                   "impl": list(np.asarray(pc.values).shape)})
            continue
        got_c = [[None if np.isnan(v) else int(v) for v in arr[:, j]] for j in range(arr.shape[1])]
        bad = cont_verdict(ts, vs, tr, eff, w0, w1, got_t, got_c)
        if bad is not None:
            res.violations.append({"key": dict(key, part=bad[0]), "what": bad[1], "input": inp, "impl": [got_t, got_c], "expected": bad[2]})
        if mpub is not None and (got_t, got_c) != mpub:
            res.disagreements.append({"op": "compute_perievent_continuous", "input": inp, "impl": [got_t, got_c], "model": list(mpub)})
        # kernel: slice bounds and offsets
        if n % 2 == 0 and mpub is not None:
            bs = ts[1] - ts[0]
            n0, n1 = -(-w0 // bs), -(-w1 // bs)
            st, en = G.arr([s for s, _ in eff]), G.arr([e for _, e in eff])
            for nm, f in (("compiled", PF._jitcontinuous_perievent),) + ((("py_func", PF._jitcontinuous_perievent.py_func),) if n % 10 == 0 else ()):
                idx, sl, ntar, sw = f(G.arr(ts), G.arr(tr), st, en, np.array([n0, n1]))
                gk = [int(v) for row, s_ in zip(sl, sw) for v in (row[0], row[1], s_)]
                mk = [int(v) for v in mout[mline[n] + 2].split()]
                if gk != mk or int(ntar) != len(mk) // 3:
                    res.disagreements.append({"op": "_jitcontinuous_perievent", "mode": nm, "input": inp, "impl": gk, "model": mk})
        if n % 901 == 0:
            res.sample({"op": "compute_perievent_continuous", "ts": ts, "tref": tr, "ep": ep, "minmax": [w0, w1], "row_times": got_t, "columns": got_c})


def run_continuous_kernel(res, tier, rng, PF):
    """_perievent_continuous (kernel + scatter) on IRREGULAR sampling (duplicates incl.): index-level statement and model"""
    cases = []
    for _ in range(400 if tier == "quick" else 4000):
        n = rng.randint(1, 12)
        ts = sorted(rng.randrange(0, 24) * U for _ in range(n))
        m = rng.randint(1, 3)
        cuts = sorted(rng.sample(range(0, 26), 2 * m))
        ep = [(cuts[2 * i] * U, cuts[2 * i + 1] * U) for i in range(m)]
        if not G.canonical(ep):
            continue
        tr = sorted(rng.randrange(0, 26) * U for _ in range(rng.randint(0, 5)))
        cases.append((ts, tr, ep, rng.randint(0, 4), rng.randint(0, 4)))
    lines = []
    for ts, tr, ep, n0, n1 in cases:
        vs = list(range(10, 10 + len(ts)))
        lines.append("pc_columns\t%s\t%s\t%s\t%s\t%d\t%d" % (C.fmt_ints(ts), C.fmt_ints(vs), C.fmt_ints(tr), C.fmt_iset(ep), n0, n1))
        lines.append("pc_spec\t%s\t%s\t%s\t%s\t%d\t%d" % (C.fmt_ints(ts), C.fmt_ints(vs), C.fmt_ints(tr), C.fmt_iset(ep), n0, n1))
    mout = C.run_model(lines, driver="driver_c16")
    for n, (ts, tr, ep, n0, n1) in enumerate(cases):
        vs = list(range(10, 10 + len(ts)))
        inp = {"ts": ts, "values": vs, "tref": tr, "ep": ep, "windowsize": [n0, n1]}
        res.case(("pk", tuple(ts), tuple(tr), tuple(ep), n0, n1), nontrivial=any(s <= r <= e for s, e in ep for r in tr))
        res.count("cont_kernel_irregular_sampling")
        if len(set(ts)) < len(ts):
            res.count("cont_kernel_duplicate_sample_times")
        # statement at index level
        exp = []
        for s, e in ep:
            I = [i for i, t in enumerate(ts) if s <= t <= e]
            for r in tr:
                if s <= r <= e:
                    if not I:
                        exp.append([[None] * (n0 + n1 + 1)])
                        continue
                    dmin = min(abs(ts[i] - r) for i in I)
                    exp.append([[vs[p + o] if (p + o) in I else None for o in range(-n0, n1 + 1)] for p in I if abs(ts[p] - r) == dmin])
        st, en = G.arr([s for s, _ in ep]), G.arr([e for _, e in ep])
        try:
            out = PF._perievent_continuous(G.arr(ts), np.asarray(vs, dtype=float), G.arr(tr), st, en, np.array([n0, n1]))
        except Exception as ex:
            res.violations.append({"key": {"op": "_perievent_continuous", "part": "exception"}, "what": "raised " + type(ex).__name__ + ": " + str(ex)[:100], "input": inp})
            continue
        got = [[None if np.isnan(v) else int(v) for v in out[:, j]] for j in range(out.shape[1])]
        if not (len(got) == len(exp) and all(c in acc for c, acc in zip(got, exp))):
            res.violations.append({"key": {"op": "_perievent_continuous", "part": "values"},
                                   "what": "column j, row o is not the sample o steps from the sample nearest r_j within its epoch (NaN outside the epoch)",
                                   "input": inp, "impl": got, "expected": exp})
        mc, ms = parse_cols(mout[2 * n]), parse_cols(mout[2 * n + 1])
        if got != mc:
            res.disagreements.append({"op": "_perievent_continuous", "input": inp, "impl": got, "model": mc})
        if mc != ms:
            res.disagreements.append({"op": "pc_columns(model) vs pc_spec(model)", "input": inp, "model": mc, "spec": ms})


# ----------------------------------------------------------------------------------------------
# 6. ARGUMENT FORMS. The same instants, durations and values handed over in every form the public signatures accept (dtype of the
#    data, form of time arguments and scalars, positional / keyword / default parameters, units, time placement, degenerate receivers,
#    every accepted class, multi-step histories). Each case is a JSON-able `spec` (ticks, canonical values, names of forms) executed by
#    fa_exec / fb_exec / fc_exec, so that a replay file holds the complete failing input. The oracles are the ones above (o_hist, o_auto,
#    o_centres, check_frame, o_perievent, cont_verdict): no tolerance, every case lives on a lattice where float64 is exact
#    (dyadic 2^-9 s, or whole seconds for the integer forms; offsets -20 steps .. 1e5 s are multiples of the lattice step).
#    The extracted model is compared on the canonical forms (sections 1-5); the forms below are judged by the statement oracle alone
#    (the model takes ticks: every form of one instant is the same model input).
SEC = 10 ** 9
BIG_OFF = 10 ** 14          # 1e5 s = 51200000 * U
CLEAN = (TypeError, ValueError, RuntimeError)
WIDE = (-10 ** 6, 10 ** 6)  # seconds
INT_TFORMS = ("int64", "int32", "int16", "uint8", "uint16", "uint32", "uint64", "pylist_int", "int_units_ms")
DTYPE_OF = {"float64": np.float64, "fractions": np.float64, "nan_inf": np.float64, "zeros": np.float64, "all_equal": np.float64, "list": np.float64,
            "float32": np.float32, "int64": np.int64, "bigint": np.int64, "int32": np.int32, "int16": np.int16, "int8": np.int8,
            "uint8": np.uint8, "uint16": np.uint16, "uint64": np.uint64, "biguint": np.uint64, "bool": np.bool_}
SMALL_DFORMS = ("int8", "uint8", "bool")          # data planes base + 1000*q do not fit: Tsd only
PE_DFORMS = ("float64", "fractions", "nan_inf", "zeros", "all_equal", "list", "float32", "int64", "bigint", "int32", "int16", "int8", "uint8", "uint16", "uint64", "biguint", "bool")
PC_DFORMS = ("float64", "fractions", "nan_inf", "zeros", "all_equal", "list", "float32", "int64", "int32", "int16", "int8", "uint8", "uint16", "uint64", "bool")


def tforms_for(ticks):
    """the time-argument forms in which the instants `ticks` can be written exactly"""
    out = ["ndarray", "list", "tuple", "series", "pd_index", "tsindex", "x.t", "units_ms", "units_us"]
    a = G.arr(ticks)
    if len(ticks) and np.array_equal(a.astype(np.float32).astype(np.float64), a):
        out.append("float32")
    if all(t % SEC == 0 for t in ticks):
        secs = [t // SEC for t in ticks]
        lo, hi = (min(secs), max(secs)) if secs else (0, 0)
        out += ["int64", "pylist_int", "int_units_ms"]
        if -2 ** 31 <= lo and hi < 2 ** 31:
            out.append("int32")
        if -2 ** 15 <= lo and hi < 2 ** 15:
            out.append("int16")
        if lo >= 0:
            out.append("uint64")
            out += [f for f, bits in (("uint32", 32), ("uint16", 16), ("uint8", 8)) if hi < 2 ** bits]
    return out


def pick_tform(rng, ticks):
    fs = tforms_for(ticks)
    ints = [f for f in fs if f in INT_TFORMS]
    return rng.choice(ints) if ints and rng.random() < 0.6 else rng.choice(fs)


def time_arg(nap, ticks, form):
    """(t, time_units): the instants `ticks` written in the argument form `form`"""
    a = G.arr(ticks)
    if form == "ndarray":
        return a, "s"
    if form == "list":
        return [float(v) for v in a], "s"
    if form == "tuple":
        return tuple(float(v) for v in a), "s"
    if form == "series":
        return pd.Series(a, dtype=np.float64), "s"
    if form == "pd_index":
        return pd.Index(a, dtype=np.float64), "s"
    if form == "tsindex":        # another object's TsIndex
        return nap.Ts(a, time_support=nap.IntervalSet(*WIDE)).index, "s"
    if form == "x.t":            # another object's time array (shared memory)
        return nap.Tsd(a, np.zeros(len(a)), time_support=nap.IntervalSet(*WIDE)).t, "s"
    if form == "float32":
        return a.astype(np.float32), "s"
    if form == "units_ms":
        return np.asarray(ticks, dtype=np.float64) / 1e6, "ms"
    if form == "units_us":
        return np.asarray(ticks, dtype=np.float64) / 1e3, "us"
    if form == "pylist_int":
        return [int(t // SEC) for t in ticks], "s"
    if form == "int_units_ms":
        return np.asarray([t // 10 ** 6 for t in ticks], dtype=np.int64), "ms"
    return np.asarray([t // SEC for t in ticks], dtype=np.dtype(form)), "s"


def gen_vals(rng, n, dform):
    """canonical values (JSON-able): ints, floats, 'nan' / 'inf' / '-inf'"""
    if dform == "fractions":
        return [i + 0.5 for i in range(n)]
    if dform == "nan_inf":
        return [rng.choice(["nan", "nan", "inf", "-inf"]) if rng.random() < 0.55 else i + 0.5 for i in range(n)]
    if dform == "zeros":
        return [0] * n
    if dform == "all_equal":
        return [7] * n
    if dform == "bigint":
        return [(2 ** 53 + 1 + i) * (-1 if i % 3 == 2 else 1) for i in range(n)]      # not representable in float64
    if dform == "biguint":
        return [2 ** 63 + 1 + i for i in range(n)]                                     # beyond int64
    if dform == "bool":
        return [int(i % 2 == 0) for i in range(n)]
    return [3 + i for i in range(n)]


def data_arr(vals, dform):
    f = [float(v) if isinstance(v, str) else v for v in vals]
    if dform == "list":
        return [float(v) for v in f]
    return np.asarray(f, dtype=DTYPE_OF[dform])


def cv(v, nan=None):
    """canonical form of one value of a result"""
    if isinstance(v, (bool, np.bool_, int, np.integer)):
        return int(v)
    f = float(v)
    if f != f:
        return nan
    if f in (float("inf"), float("-inf")):
        return repr(f)
    return int(f) if f == int(f) else f


def cvals(vals, nan=None):
    return [nan if v == "nan" else v for v in vals]


def mk_series(nap, cls, ticks, tform, vals=None, dform="float64", sup=None, cols=None):
    """a Ts / Tsd / TsdFrame / TsdTensor holding the instants `ticks` (and the canonical values) written in the given forms; frames and
    tensors hold the planes base + 1000*q"""
    t, un = time_arg(nap, ticks, tform)
    kw = {"time_units": un}
    if sup is not None:
        kw["time_support"] = sup
    if cls == "Ts":
        return nap.Ts(t, **kw)
    d = data_arr(vals if vals is not None else [0] * len(ticks), dform)
    if cls == "Tsd":
        if tform == "series":        # for the Tsd constructor a pandas Series IS the series: values + time index
            return nap.Tsd(pd.Series(np.asarray(d), index=G.arr(ticks)), **{k: v for k, v in kw.items() if k != "time_units"})
        return nap.Tsd(t, d, **kw)
    base = np.asarray(d)
    if cls == "TsdFrame":
        dd = np.stack([base, base + 1000], axis=1).reshape(len(ticks), 2)
        if tform == "series":        # likewise a DataFrame
            return nap.TsdFrame(pd.DataFrame(dd, index=G.arr(ticks), columns=cols), **{k: v for k, v in kw.items() if k != "time_units"})
        return nap.TsdFrame(t, dd, columns=cols, **kw)
    dd = np.stack([base + 1000 * q for q in range(4)], axis=1).reshape(len(ticks), 2, 2)
    return nap.TsdTensor(t, dd, **kw)


def sforms_for(q, uf):
    """the scalar forms that hold the duration q (ticks) exactly in the unit uf"""
    x = q / uf
    out = ["float", "np.float64"]
    if float(np.float32(x)) == x:
        out.append("np.float32")
    if x == int(x):
        out += ["int", "np.int64"]
        if x < 2 ** 31:
            out.append("np.int32")
        if 0 <= x < 2 ** 16:
            out.append("np.uint16")
    return out


def pick_sform(rng, q, uf):
    fs = sforms_for(q, uf)
    return rng.choice(fs[2:]) if len(fs) > 2 and rng.random() < 0.6 else rng.choice(fs)


def scalar_arg(q, uf, form):
    x = q / uf
    if form == "0d":
        return np.array(x)
    if form == "float":
        return float(x)
    if form == "int":
        return int(x)
    if form in ("np.float64", "np.float32", "np.float16"):
        return getattr(np, form[3:])(x)
    return getattr(np, form[3:])(int(x))


def f32_window_exact(w0, w1, uf):
    """a tuple of np.float32 stays a float32 array through the unit conversion and the rounding to 1e-9 s: the form holds the
    two durations exactly only when that float32 arithmetic is exact (a fact about float32, not about the library)"""
    x = np.array([w0 / uf, w1 / uf], dtype=np.float32)
    if not np.array_equal(x.astype(np.float64), np.array([w0 / uf, w1 / uf])):
        return False
    y = x if uf == 1e9 else x / np.float32(1e9 / uf)
    return np.array_equal(np.around(y, 9).astype(np.float64), np.array([w0 / 1e9, w1 / 1e9]))


UNSIGNED_MM = ("tuple_np.uint8", "tuple_np.uint64")
INVALID_MM = ("list", "ndarray", "0d")      # not in the documented signature (tuple or number): a clean exception or the statement


def mmforms_for(w0, w1, uf):
    x0, x1 = w0 / uf, w1 / uf
    integral = x0 == int(x0) and x1 == int(x1)
    out = ["tuple", "neg_tuple", "tuple_np.float64", "list", "ndarray"]
    if w0 == w1:
        out += ["scalar", "scalar_np.float64", "0d"]
        if float(np.float32(x0)) == x0:
            out.append("scalar_np.float32")
        if integral:
            out += ["scalar_int", "scalar_np.int64", "scalar_np.uint8"] if x0 < 256 else ["scalar_int", "scalar_np.int64"]
    if f32_window_exact(w0, w1, uf):
        out.append("tuple_np.float32")
    if integral:
        out += ["tuple_int", "neg_tuple_int", "tuple_np.int64", "mixed_int_float", "tuple_np.uint64"]
        if x0 < 2 ** 31 and x1 < 2 ** 31:
            out.append("tuple_np.int32")
        if x0 < 256 and x1 < 256:
            out.append("tuple_np.uint8")
    if all(float(np.float16(v)) == v for v in (x0, x1)):
        out.append("tuple_np.float16")
    return out


def pick_mmform(rng, w0, w1, uf):
    fs = mmforms_for(w0, w1, uf)
    r = rng.random()
    if r < 0.25:
        return rng.choice(fs[:2])
    rare = [f for f in fs if f in INVALID_MM]
    if r < 0.32 and rare:
        return rng.choice(rare)
    return rng.choice([f for f in fs if f not in INVALID_MM])


def mm_arg(w0, w1, uf, form):
    x0, x1 = w0 / uf, w1 / uf
    if form == "tuple":
        return (float(x0), float(x1))
    if form == "neg_tuple":
        return (-float(x0), float(x1))
    if form == "scalar":
        return float(x0)
    if form == "scalar_int":
        return int(x0)
    if form.startswith("scalar_np."):
        ty = getattr(np, form[10:])
        return ty(x0) if "float" in form else ty(int(x0))
    if form == "tuple_int":
        return (int(x0), int(x1))
    if form == "neg_tuple_int":
        return (-int(x0), int(x1))
    if form == "mixed_int_float":
        return (int(x0), float(x1))
    if form.startswith("tuple_np."):
        ty = getattr(np, form[9:])
        return (ty(x0), ty(x1)) if "float" in form else (ty(int(x0)), ty(int(x1)))
    if form == "list":
        return [float(x0), float(x1)]
    if form == "ndarray":
        return np.array([x0, x1])
    if form == "0d":
        return np.array(x0)
    raise KeyError(form)


def ep_arg(nap, ep, form):
    """the interval set `ep` (ticks) written in the argument form `form`"""
    s, e = [a for a, _ in ep], [b for _, b in ep]
    if form == "metadata":
        return nap.IntervalSet(G.arr(s), G.arr(e), metadata={"label": ["e%d" % i for i in range(len(ep))], "w": list(range(len(ep)))})
    if form == "lists":
        return nap.IntervalSet(start=[float(v) for v in G.arr(s)], end=[float(v) for v in G.arr(e)])
    if form in ("int_arrays", "uint_arrays"):
        dt = np.int64 if form == "int_arrays" else np.uint64
        return nap.IntervalSet(np.asarray([v // SEC for v in s], dtype=dt), np.asarray([v // SEC for v in e], dtype=dt))
    if form == "units_ms":
        return nap.IntervalSet(np.asarray(s, dtype=np.float64) / 1e6, np.asarray(e, dtype=np.float64) / 1e6, time_units="ms")
    if form == "dataframe":
        return nap.IntervalSet(pd.DataFrame({"start": G.arr(s), "end": G.arr(e)}))
    return mk_ep(nap, ep)


def epforms_for(ep):
    out = ["plain", "plain", "metadata", "lists", "units_ms", "dataframe"]
    if all(v % SEC == 0 for iv in ep for v in iv):
        out += ["int_arrays", "int_arrays"] + (["uint_arrays", "uint_arrays"] if ep[0][0] >= 0 else [])
    return out


def save_load(nap, obj):
    d = tempfile.mkdtemp(prefix="c16_")
    try:
        p = os.path.join(d, "obj.npz")
        obj.save(p)
        return nap.load_file(p)
    finally:
        shutil.rmtree(d, ignore_errors=True)


def support_ticks(obj):
    return [(C.to_ns(s), C.to_ns(e)) for s, e in obj.time_support.values]


def keyrepr(k, keyform):
    return {"str": str(k), "float": float(k), "npint": np.int64(k)}.get(keyform, k)


# ------------------------------------------------------------------ family A: correlograms
def fa_plan(tier, seed):
    rng = random.Random(seed * 16 + 7)
    plan = []
    for c in range(220 if tier == "quick" else 1500):
        lat = rng.choice(["dyadic", "dyadic", "seconds"])
        if lat == "dyadic":
            step, bws = 4 * U, [(V, V), (V, 2 * V), (2 * V, 2 * V), (V, 12 * U), (2 * V, V)]
        else:
            step, bws = SEC, [(SEC, SEC), (SEC, 2 * SEC), (2 * SEC, 2 * SEC), (2 * SEC, 3 * SEC), (SEC, 3 * SEC), (2 * SEC, SEC)]
        off = rng.choice([0, 0, -3 * step, -20 * step, BIG_OFF])
        pts = [off + i * step for i in range(8)]
        sup = [(off - 16 * step, off + 16 * step)]
        nmem = rng.choice([0, 1, 2, 3, 3, 3, 3])
        keyform = rng.choice(["int", "unsorted", "str", "float", "npint", "list"])
        keys = list(range(nmem)) if keyform == "list" else sorted(rng.sample([0, 2, 3, 5, 9, 10, 12, 21, 100], nmem))
        members = []
        for k in keys:
            ticks = sorted(rng.choice(pts) for _ in range(rng.choice([0, 1, 2, 3, 3, 4])))
            m = {"key": k, "ticks": ticks, "cls": rng.choice(["Ts", "Ts", "Tsd"]), "tform": pick_tform(rng, ticks)}
            if m["cls"] == "Tsd":         # (the values of the members and of the event must not matter: NaN / infinite values above all)
                m["dform"] = rng.choice(PE_DFORMS + ("nan_inf",) * 5)
                m["vals"] = gen_vals(rng, len(ticks), m["dform"])
            members.append(m)
        support = rng.choice(["explicit", "explicit", "default", "bypass"])
        if support == "default" and not any(len(set(m["ticks"])) >= 2 for m in members):
            support = "explicit"
        hist = rng.choice(["none"] * 4 + ["restrict", "getitem", "save_load", "twice", "set_info"])
        if hist == "getitem" and nmem == 0:
            hist = "none"
        eps = [[(off + step, off + 5 * step)], [(off, off + 2 * step), (off + 4 * step, off + 7 * step)],
               [(off, off + step), (off + 2 * step, off + 3 * step), (off + 5 * step, off + 7 * step)], [(off - 2 * step, off + 9 * step)]]
        ep = rng.choice(eps) if rng.random() < 0.5 else None
        epform = rng.choice(epforms_for(ep)) if ep else rng.choice(["omitted", "omitted", "none", "empty"])
        if epform == "empty":
            ep = []
        ev = sorted(rng.choice(pts) for _ in range(rng.randint(1, 3)))
        evmode = rng.choice(["explicit", "narrow", "default", "member"])
        if (evmode == "default" and len(set(ev)) < 2) or (evmode == "member" and nmem == 0):
            evmode = "explicit"
        evcls = rng.choice(["Ts", "Tsd"])
        b, w = rng.choice(bws)
        un = rng.choice(["s", "ms", "us"])
        call = rng.choice(["kw", "kw", "positional", "all_kw", "defaults"])
        norm, reverse = rng.random() < 0.5, rng.random() < 0.5
        if call == "defaults":
            un, norm, reverse = "s", True, False
        uf = dict(UNITS)[un]
        spec = {"family": "A", "n": c, "lattice": lat, "step": step, "off": off, "sup": sup, "members": members, "keyform": keyform,
                "support": support, "metadata": rng.random() < 0.3, "hist": hist, "ep": ep, "epform": epform,
                "ep_h": rng.choice(eps[:3]), "sub": rng.sample(keys, max(1, nmem - 1)) if nmem else [],
                "event": {"ticks": ev, "cls": evcls, "tform": pick_tform(rng, ev), "mode": evmode, "dform": rng.choice(PE_DFORMS + ("nan_inf",) * 8),
                          "member": rng.choice(keys) if nmem else None, "narrow": [(off + step, off + 6 * step)]},
                "binsize": b, "windowsize": w, "units": un, "sb": "0d" if rng.random() < 0.03 else pick_sform(rng, b, uf), "sw": "0d" if rng.random() < 0.02 else pick_sform(rng, w, uf),
                "norm": norm, "reverse": reverse, "call": call, "pair": rng.choice(["tuple", "list", "same", "narrow2"]),
                "sup2": [(off - step, off + 6 * step)], "units_upper": call != "defaults" and rng.random() < 0.04}
        spec["event"]["vals"] = gen_vals(rng, len(ev), spec["event"]["dform"])
        plan.append(spec)
    return plan


def fa_group(nap, spec, members, sup, keyform=None):
    """TsGroup of the members (explicit support `sup` in ticks, or None = default) in the key / container / bypass forms of the spec"""
    keyform = keyform or spec["keyform"]
    supo = mk_ep(nap, sup) if sup is not None else None
    objs = [(keyrepr(m["key"], keyform), mk_series(nap, m["cls"], m["ticks"], m["tform"], m.get("vals"), m.get("dform", "float64"), supo)) for m in members]
    if keyform == "unsorted":
        objs = objs[::-1]
    data = [o for _, o in objs] if keyform == "list" else dict(objs)
    kw = {}
    if supo is not None:
        kw["time_support"] = supo
    if spec["support"] == "bypass" and supo is not None:
        kw["bypass_check"] = True       # (the members were built on that support: already restricted)
    if spec["metadata"] and members:
        kw["metadata"] = {"lab": ["m%d" % i for i in range(len(members))]}
    return nap.TsGroup(data, **kw)


def fa_exec(nap, spec, res):
    un, b, w, norm, reverse = spec["units"], spec["binsize"], spec["windowsize"], spec["norm"], spec["reverse"]
    uf = dict(UNITS)[un]
    sup = [tuple(x) for x in spec["sup"]]
    members = spec["members"]
    hist = spec["hist"]
    key0 = {"family": "forms", "call": spec["call"], "units": un, "lattice": spec["lattice"], "hist": hist, "epform": spec["epform"], "keyform": spec["keyform"],
            "support": spec["support"], "norm": norm}
    inp = {"spec": spec, "binsize": b, "windowsize": w}
    for nm, val in (("lattice", spec["lattice"]), ("offset", "0" if spec["off"] == 0 else ("1e5s" if spec["off"] == BIG_OFF else ("straddles_0" if spec["off"] > -10 * spec["step"] else "negative"))),
                    ("keys", spec["keyform"]), ("group_support", spec["support"]), ("history", hist), ("ep", spec["epform"]), ("call", spec["call"]), ("units", un),
                    ("binsize_as", spec["sb"]), ("windowsize_as", spec["sw"]), ("n_members", len(members)), ("event", spec["event"]["mode"] + "/" + spec["event"]["cls"]),
                    ("event_times_as", spec["event"]["tform"]), ("norm", norm), ("group_metadata", spec["metadata"])):
        res.count("formsA_%s=%s" % (nm, val))
    for m in members:
        res.count("formsA_member_times_as=" + m["tform"])
        res.count("formsA_member=" + (m["cls"] + ("/" + m["dform"] if m["cls"] == "Tsd" else "")))
        if not m["ticks"]:
            res.count("formsA_empty_member")
    grp = fa_group(nap, spec, members, None if spec["support"] == "default" else sup)
    gsup = sup if spec["support"] != "default" else support_ticks(grp)
    keys = [m["key"] for m in members]
    gsup0 = gsup                # (the constructor restricted the members to it)
    if hist == "restrict":
        gsup = [tuple(x) for x in spec["ep_h"]]
        grp = grp.restrict(mk_ep(nap, gsup))
    elif hist == "getitem":
        keys = sorted(spec["sub"])
        grp = grp[list(spec["sub"])]
    elif hist == "save_load":
        grp = save_load(nap, grp)
    elif hist == "set_info":
        grp.set_info(extra=np.arange(len(members)))
    trains = {m["key"]: restrict(restrict(m["ticks"], gsup0), gsup) for m in members if m["key"] in keys}
    ep = None if spec["epform"] in ("omitted", "none") else [tuple(x) for x in spec["ep"]]
    epo = None if ep is None else (nap.IntervalSet([], []) if spec["epform"] == "empty" else ep_arg(nap, ep, spec["epform"]))
    ep_given = spec["epform"] != "omitted"
    invalid = "0d" in (spec["sb"], spec["sw"]) or spec["units_upper"]     # outside the documented signature: a clean exception or the statement
    una = un.upper() if spec["units_upper"] else un
    if spec["units_upper"]:
        res.count("formsA_units_in_upper_case")
    cen = o_centres(b, w)
    bsec = b / 1e9

    def invoke(f, lead, names, with_reverse):
        bq, wq = scalar_arg(b, uf, spec["sb"]), scalar_arg(w, uf, spec["sw"])
        if spec["call"] == "positional":
            return f(*(list(lead) + [bq, wq, epo, norm, una] + ([reverse] if with_reverse else [])))
        kw = {"ep": epo} if ep_given else {}
        if spec["call"] == "defaults":
            return f(*lead, bq, wq, **kw)
        kw.update(norm=norm, time_units=una)
        if with_reverse:
            kw["reverse"] = reverse
        if spec["call"] == "all_kw":
            kw.update(dict(zip(names, lead)), binsize=bq, windowsize=wq)
            return f(**kw)
        return f(*lead, bq, wq, **kw)

    def judge(op, f, lead, names, with_reverse, labels, pairs, rate_of, extra_key=None):
        """pairs[label] = (reference train, target train) after every restriction; rate_of[label] = rate of the target"""
        res.evaluations += 1
        key = dict(key0, **(extra_key or {}))
        try:
            df = invoke(f, lead, names, with_reverse)
            if hist == "twice":
                df = invoke(f, lead, names, with_reverse)
        except Exception as ex:
            if invalid and isinstance(ex, CLEAN):
                res.count("formsA_outside_signature(0-d array / upper-case unit)_rejected_cleanly")
                return
            res.violations.append({"key": dict(key, op=op, part="exception", exception=type(ex).__name__), "what": "raised " + type(ex).__name__ + ": " + str(ex)[:100], "input": inp})
            return
        if not labels:
            if df.shape[1] != 0:
                res.violations.append({"key": dict(key, op=op, part="columns"), "what": "no reference/target pair, but the frame has columns", "input": inp, "impl": [str(c_) for c_ in df.columns]})
            return
        expc, scales = {}, {}
        for lab in labels:
            r_, t_ = pairs[lab]
            if not r_:
                expc[lab] = "skip"
            elif norm and not t_:
                expc[lab] = None
            else:
                expc[lab] = o_auto(r_, b, w) if op == "compute_autocorrelogram" else o_hist(r_, t_, b, w)
                scales[lab] = len(r_) * bsec * (rate_of[lab] if norm else 1.0)
        check_frame(res, op, key, inp, df, labels, cen, expc, scales, False)

    def eff_of(base):
        return ep if ep is not None else base

    eff = eff_of(gsup)
    T = tot(eff) / 1e9
    rm = {k: restrict(trains[k], eff) for k in keys}
    rate = {k: (len(rm[k]) / T if T > 0 else float("nan")) for k in keys}
    any_pairs = any(len(rm[k]) > 1 for k in keys)
    # autocorrelogram
    judge("compute_autocorrelogram", nap.compute_autocorrelogram, [grp], ["group"], False, list(keys), {k: (rm[k], rm[k]) for k in keys}, rate)
    # crosscorrelogram of one group
    labels = [((j, i) if reverse else (i, j)) for i, j in itertools.combinations(keys, 2)]
    judge("compute_crosscorrelogram", nap.compute_crosscorrelogram, [grp], ["group"], True, labels, {(i, j): (rm[i], rm[j]) for i in keys for j in keys},
          {(i, j): rate[j] for i in keys for j in keys}, {"reverse": reverse})
    # crosscorrelogram of a pair of groups (tuple / list / the same live group twice / second group on a narrower support)
    pair = spec["pair"]
    res.count("formsA_pair=" + pair)
    if pair == "same":
        g1 = g2 = grp
        k1 = k2 = keys
        r1, r2, T2 = rm, rm, T
    else:
        k1, k2 = keys[:1], keys[1:]
        s1 = gsup if spec["support"] == "default" or hist == "restrict" else sup
        s2 = [tuple(x) for x in spec["sup2"]] if pair == "narrow2" else s1
        sub = dict(spec, support="explicit")
        g1 = fa_group(nap, sub, [m for m in members if m["key"] in k1], s1, keyform="int" if spec["keyform"] in ("list", "unsorted") else None)
        g2 = fa_group(nap, sub, [m for m in members if m["key"] in k2], s2, keyform="int" if spec["keyform"] in ("list", "unsorted") else None)
        e1, e2 = eff_of(s1), eff_of(s2)
        byk = {m["key"]: m["ticks"] for m in members}
        r1 = {k: restrict(restrict(byk[k], s1), e1) for k in k1}
        r2 = {k: restrict(restrict(byk[k], s2), e2) for k in k2}
        T2 = tot(e2) / 1e9
    lead = [[g1, g2]] if pair == "list" else [(g1, g2)]
    labels = [(i, j) for i in k1 for j in k2]
    judge("compute_crosscorrelogram(pair of groups)", lambda *a, **k: nap.compute_crosscorrelogram(*a, **k), lead, ["group"], False, labels,
          {(i, j): (r1[i], r2[j]) for i in k1 for j in k2}, {(i, j): (len(r2[j]) / T2 if T2 > 0 else float("nan")) for i in k1 for j in k2}, {"pair": pair})
    # eventcorrelogram
    evs = spec["event"]
    if evs["mode"] == "member" and evs["member"] in keys:
        evo, ev_sup, evt = grp[evs["member"]], gsup, trains[evs["member"]]
    else:
        es = {"explicit": sup, "narrow": [tuple(x) for x in evs["narrow"]], "default": None}.get(evs["mode"], sup)
        evo = mk_series(nap, evs["cls"], evs["ticks"], evs["tform"], evs["vals"], evs["dform"], mk_ep(nap, es) if es is not None else None)
        ev_sup = es if es is not None else support_ticks(evo)
        evt = restrict(evs["ticks"], ev_sup)
    eeff = eff_of(ev_sup)
    rev = restrict(evt, eeff)
    Te = tot(eeff) / 1e9
    rme = {k: restrict(trains[k], eeff) for k in keys}
    judge("compute_eventcorrelogram", nap.compute_eventcorrelogram, [grp, evo], ["group", "event"], False, list(keys), {k: (rev, rme[k]) for k in keys},
          {k: (len(rme[k]) / Te if Te > 0 else float("nan")) for k in keys}, {"event": evs["mode"]})
    res.case(("fA", spec["n"], str(spec["members"]), b, w, un, spec["call"], hist, spec["epform"]), nontrivial=any_pairs)


# ------------------------------------------------------------------ family B: compute_perievent
def fb_plan(tier, seed):
    rng = random.Random(seed * 16 + 9)
    plan = []
    for c in range(420 if tier == "quick" else 3000):
        lat = rng.choice(["dyadic", "dyadic", "seconds"])
        step = 2 * U if lat == "dyadic" else 2 * SEC
        half = step // 2
        off = rng.choice([0, 0, -7 * half, -40 * half, BIG_OFF])
        wins = [(half * a, half * b_) for a, b_ in ((2, 2), (1, 3), (4, 0), (0, 2), (3, 3), (6, 2), (1, 1), (2, 4))]
        w0, w1 = rng.choice(wins)
        un = rng.choice(["s", "s", "ms", "us"])
        uf = dict(UNITS)[un]
        pts = [off + i * step for i in range(6)]
        halfpts = [off + i * half for i in range(-1, 12)]
        tr = sorted(rng.choice(halfpts) for _ in range(rng.choice([0, 1, 1, 1, 2, 2, 2, 2, 3, 3])))
        xcls = rng.choice(["Ts", "Tsd", "Tsd", "Tsd", "TsGroup"])

        def one(k=None):
            ticks = sorted(rng.choice(pts) for _ in range(rng.choice([0, 1, 2, 3, 4, 4, 5])))
            if rng.random() < 0.5:      # samples exactly on the window edges of the reference times
                ticks = sorted(ticks + [t for t in (r + rng.choice([-w0, w1]) for r in tr) if rng.random() < 0.7])
            cls = rng.choice(["Ts", "Tsd"]) if xcls == "TsGroup" else xcls
            dform = rng.choice(PE_DFORMS)
            return {"key": k, "ticks": ticks, "cls": cls, "tform": pick_tform(rng, ticks), "dform": dform, "vals": gen_vals(rng, len(ticks), dform)}
        keyform = rng.choice(["int", "unsorted", "str", "float", "npint", "list"])
        if xcls == "TsGroup":
            nmem = rng.choice([0, 1, 2, 3])
            keys = list(range(nmem)) if keyform == "list" else sorted(rng.sample([0, 2, 4, 7, 10, 12, 21, 100], nmem))
            xs = [one(k) for k in keys]
            hist = rng.choice(["none", "none", "restrict", "getitem", "save_load", "twice"])
            if hist == "getitem" and not keys:
                hist = "none"
        else:
            xs = [one()]
            hist = rng.choice(["none"] * 3 + ["restrict", "slice", "get", "arith", "npfunc", "save_load", "self_tref", "twice"])
            if xcls == "Ts" and hist in ("arith", "npfunc"):
                hist = "slice"
        lo = min([off] + [t for m in xs for t in m["ticks"]])
        hi = max([off] + [t for m in xs for t in m["ticks"]])
        n0 = len(xs[0]["ticks"]) if xs else 0
        a_ = rng.randint(0, max(0, n0 - 1))
        spec = {"family": "B", "n": c, "lattice": lat, "off": off, "step": step, "xcls": xcls, "xs": xs, "keyform": keyform, "xsup": rng.choice(["wide", "wide", "default"]),
                "sub": rng.sample([m["key"] for m in xs], max(1, len(xs) - 1)) if xcls == "TsGroup" and xs else [],
                "tref": {"ticks": tr, "cls": rng.choice(["Ts", "Ts", "Tsd", "TsdFrame", "TsdTensor"]), "tform": pick_tform(rng, tr), "sup": rng.choice(["wide", "default"])},
                "minmax": [w0, w1], "units": un, "mmform": pick_mmform(rng, w0, w1, uf), "call": rng.choice(["kw", "kw", "positional", "all_kw", "default_unit"]),
                "hist": hist, "ep_h": [(lo, lo + 3 * half), (lo + 5 * half, hi + half)], "slice": [a_, rng.randint(a_, n0)], "get": [lo + half, hi - half]}
        if spec["call"] == "default_unit" and un != "s":
            spec["call"] = "kw"
        spec["units_upper"] = spec["call"] != "default_unit" and rng.random() < 0.04
        if hist not in ("none", "twice", "self_tref") and any(len(set(m["ticks"])) < 2 for m in xs):
            spec["xsup"] = "wide"       # (a series with one distinct timestamp has an EMPTY default time support: every derived object would be empty)
        plan.append(spec)
    return plan


def pe_read(pe, is_ts):
    """[(ref_time, [(lag, value)])] of an aligned group"""
    rt = [C.to_ns(v) for v in pe.get_info("ref_times").values] if len(pe) else []
    got = []
    for i, k in enumerate(pe.keys()):
        m = pe[k]
        lag = [C.to_ns(v) for v in m.t]
        val = [None] * len(lag) if is_ts or not hasattr(m, "values") else [cv(v, nan="nan") for v in m.values]
        got.append((rt[i] if i < len(rt) else None, list(zip(lag, val))))
    return got


def pe_judge(pe, ts, vs, is_ts, tr, w0, w1):
    """None when the aligned group is what the statement says, else (part, what, impl, expected)"""
    exp = [(r, [(l, None if is_ts else v) for l, v in ll]) for r, ll in o_perievent(ts, vs, tr, w0, w1)]
    if list(pe.keys()) != list(range(len(tr))):
        return ("keys", "group members are not numbered in reference order", [int(k) for k in pe.keys()], list(range(len(tr))))
    got = pe_read(pe, is_ts)
    if got != exp:
        return ("lags", "member i is not the lags t - r_i (with values) of the samples with r_i - w0 <= t < r_i + w1, tagged r_i", got, exp)
    if (w0 + w1 > 0) and support_ticks(pe) != [(-w0, w1)]:
        return ("support", "time support of the aligned group is not [-w0, w1]", support_ticks(pe), [(-w0, w1)])
    return None


def apply_hist(nap, x, m, hist, spec):
    """(object, ticks, values) after the history step"""
    ts, vs = list(m["ticks"]), cvals(m["vals"], nan="nan")
    if hist == "restrict":
        ep = [tuple(e) for e in spec["ep_h"] if e[0] < e[1]]
        if G.canonical(ep) and ep:
            keep = [i for i, t in enumerate(ts) if any(s <= t <= e for s, e in ep)]
            return x.restrict(mk_ep(nap, ep)), [ts[i] for i in keep], [vs[i] for i in keep]
    elif hist == "slice":
        a_, b_ = spec["slice"]
        return x[a_:b_], ts[a_:b_], vs[a_:b_]
    elif hist == "get":
        lo, hi = spec["get"]
        if lo <= hi:
            keep = [i for i, t in enumerate(ts) if lo <= t <= hi]
            return x.get(lo / 1e9, hi / 1e9), [ts[i] for i in keep], [vs[i] for i in keep]
    elif hist == "arith":
        return x * 1, ts, vs
    elif hist == "npfunc":
        return np.add(x, 0), ts, vs
    elif hist == "save_load":
        return save_load(nap, x), ts, vs
    return x, ts, vs


def offset_class(off, step):
    return "0" if off == 0 else ("1e5s" if off == BIG_OFF else ("straddles_0" if off > -10 * step else "negative"))


def fb_exec(nap, spec, res, mmform=None):
    """returns the list of violations of this case (also appended to res.violations unless mmform overrides the form: attribution run)"""
    un = spec["units"]
    uf = dict(UNITS)[un]
    w0, w1 = spec["minmax"]
    form = mmform or spec["mmform"]
    hist = spec["hist"]
    wide = nap.IntervalSet(*WIDE)
    out = []
    attribution = mmform is not None
    if not attribution:
        for nm, val in (("lattice", spec["lattice"]), ("offset", offset_class(spec["off"], spec["step"])), ("input", spec["xcls"]), ("minmax_as", form), ("units", un), ("call", spec["call"]),
                        ("history", hist), ("tref", spec["tref"]["cls"]), ("tref_times_as", spec["tref"]["tform"]), ("input_support", spec["xsup"]), ("n_tref", len(spec["tref"]["ticks"]))):
            res.count("formsB_%s=%s" % (nm, val))
        for m in spec["xs"]:
            res.count("formsB_times_as=" + m["tform"])
            res.count("formsB_data=" + (m["dform"] if m["cls"] == "Tsd" else "none(Ts)"))
            if not m["ticks"]:
                res.count("formsB_empty_series")
        if spec["xcls"] == "TsGroup":
            res.count("formsB_group_keys=" + spec["keyform"])
            res.count("formsB_group_members=%d" % len(spec["xs"]))
    xsup = wide if spec["xsup"] == "wide" else None
    trs = spec["tref"]
    tr = list(trs["ticks"])
    key = {"op": "compute_perievent", "family": "forms", "units": un, "input": spec["xcls"], "minmax_form": form, "call": spec["call"], "hist": hist, "tref": trs["cls"]}
    inp = {"spec": spec}
    objs = [mk_series(nap, m["cls"], m["ticks"], m["tform"], m["vals"], m["dform"], xsup) for m in spec["xs"]]
    if spec["xcls"] == "TsGroup":
        pairs = [(keyrepr(m["key"], spec["keyform"]), o) for m, o in zip(spec["xs"], objs)]
        if spec["keyform"] == "unsorted":
            pairs = pairs[::-1]
        x = nap.TsGroup([o for _, o in pairs] if spec["keyform"] == "list" else dict(pairs), time_support=wide)
        eff = {m["key"]: (list(m["ticks"]), cvals(m["vals"], nan="nan"), m["cls"] == "Ts") for m in spec["xs"]}
        if hist == "restrict":
            ep = [tuple(e) for e in spec["ep_h"] if e[0] < e[1]]
            if G.canonical(ep) and ep:
                x = x.restrict(mk_ep(nap, ep))
                eff = {k: ([t for t in ts if G.mem(t, ep)], [v for t, v in zip(ts, vs) if G.mem(t, ep)], it) for k, (ts, vs, it) in eff.items()}
        elif hist == "getitem":
            x = x[list(spec["sub"])]
            eff = {k: eff[k] for k in sorted(spec["sub"])}
        elif hist == "save_load":
            x = save_load(nap, x)        # (the npz format of a TsGroup stores every member as float64 data, NaN for a Ts: the lags are judged)
            eff = {k: (ts, vs, True) for k, (ts, vs, it) in eff.items()}
    else:
        x, ts, vs = apply_hist(nap, objs[0], spec["xs"][0], hist, spec)
        eff = {None: (ts, vs, spec["xcls"] == "Ts")}
    if hist == "self_tref":
        tref, tr = x, list(eff[None][0])
    else:
        tref = mk_series(nap, trs["cls"], tr, trs["tform"], None, "float64", wide if trs["sup"] == "wide" else None)
    mm = mm_arg(w0, w1, uf, form)
    una = un.upper() if spec["units_upper"] else un
    if spec["units_upper"] and not attribution:
        res.count("formsB_units_in_upper_case")
    try:
        for _ in range(2 if hist == "twice" else 1):
            if spec["call"] == "positional":
                pe = nap.compute_perievent(x, tref, mm, una)
            elif spec["call"] == "all_kw":
                pe = nap.compute_perievent(timestamps=x, tref=tref, minmax=mm, time_unit=una)
            elif spec["call"] == "default_unit":
                pe = nap.compute_perievent(x, tref, mm)
            else:
                pe = nap.compute_perievent(x, tref, mm, time_unit=una)
    except Exception as ex:
        if (form in INVALID_MM or spec["units_upper"]) and isinstance(ex, CLEAN):
            if not attribution:
                res.count("formsB_outside_signature(list / ndarray / 0-d minmax, upper-case unit)_rejected_cleanly")
                res.evaluations += 1
            return out
        out.append({"key": dict(key, part="exception", exception=type(ex).__name__), "what": "raised " + type(ex).__name__ + ": " + str(ex)[:100], "input": inp})
        pe = None
    if pe is not None:
        if spec["xcls"] == "TsGroup":
            if not isinstance(pe, dict) or list(pe.keys()) != sorted(eff):
                out.append({"key": dict(key, part="group_keys"), "what": "TsGroup input: the result is not a dict keyed by the members in order", "input": inp,
                            "impl": [str(k) for k in pe.keys()] if isinstance(pe, dict) else str(type(pe)), "expected": sorted(eff)})
            else:
                for k in sorted(eff):
                    ts, vs, it = eff[k]
                    bad = pe_judge(pe[k], ts, vs, it, tr, w0, w1)
                    if bad:
                        out.append({"key": dict(key, part=bad[0]), "what": "TsGroup member %s: %s" % (k, bad[1]), "input": inp, "impl": bad[2], "expected": bad[3]})
                        break
        else:
            ts, vs, it = eff[None]
            bad = pe_judge(pe, ts, vs, it, tr, w0, w1)
            if bad:
                out.append({"key": dict(key, part=bad[0]), "what": bad[1], "input": inp, "impl": bad[2], "expected": bad[3]})
    if attribution:
        return out
    out = attribute_minmax(out, form, un, lambda f: fb_exec(nap, spec, res, mmform=f))
    res.violations.extend(out)
    cut = any(0 < len([t for t in ts if r - w0 <= t < r + w1]) < len(ts) for ts, _, _ in eff.values() for r in tr)
    res.case(("fB", spec["n"], str(spec["xs"]), tuple(tr), w0, w1, un, form, hist), nontrivial=cut)
    return out


def attribute_minmax(viol, form, un, rerun):
    """a failing case whose minmax is a tuple of unsigned numpy integers / np.float16: run the same case with the plain float tuple; when that
    one satisfies the statement the violation is attributed to the form (precise key, one boolean per trigger), otherwise the key stays generic"""
    if not viol or form not in UNSIGNED_MM + ("tuple_np.float16",):
        return viol
    if rerun("tuple"):
        return viol
    trig = "minmax_tuple_of_numpy_unsigned_ints" if form in UNSIGNED_MM else "minmax_tuple_of_numpy_float16"
    return [dict(v, key={"op": v["key"]["op"], "part": v["key"]["part"], trig: True, "units": un}) for v in viol]


# ------------------------------------------------------------------ family C: compute_perievent_continuous
def fc_plan(tier, seed):
    rng = random.Random(seed * 16 + 11)
    plan = []
    while len(plan) < (420 if tier == "quick" else 3000):
        lat = rng.choice(["dyadic", "dyadic", "seconds"])
        step = 2 * U if lat == "dyadic" else 2 * SEC
        half = step // 2
        off = rng.choice([0, 0, -7 * half, -60 * half, BIG_OFF])
        n = rng.randint(2, 14)
        ts = [off + i * step for i in range(n)]
        m = rng.randint(1, min(3, n))
        cuts = sorted(rng.sample(range(0, 2 * n + 1), 2 * m))
        ep = [(off + cuts[2 * i] * half, off + cuts[2 * i + 1] * half) for i in range(m)]
        if not G.canonical(ep):
            continue
        mode = rng.choice(["ep", "ep", "ep", "default", "support", "wide"])
        hist = rng.choice(["none"] * 4 + ["restrict", "slice", "arith", "npfunc", "save_load", "self_tref", "twice"])
        if hist == "restrict":
            mode = "support"                          # the epochs become the time support through x.restrict(ep): the samples between them are dropped by the library
        if mode in ("default", "wide"):
            ep = None
        elif (mode == "support" and hist != "restrict") or (mode == "ep" and rng.random() < 0.4):
            ts = [t for t in ts if G.mem(t, ep)]      # a recording with holes: no sample between the epochs
        if not ts or (ep and not [t for t in ts if G.mem(t, ep)] and mode == "support"):
            continue                                  # (an empty series does not keep the time support it is given)
        if mode == "ep" and hist == "none" and rng.random() < 0.08:
            ts = rng.choice([[], ts[:1], [ts[0], ts[0]]])      # fewer than two sample times
        empty_ep = mode == "ep" and rng.random() < 0.05
        if empty_ep:
            ep = []                                            # an empty IntervalSet passed as ep=: no reference time is inside the epochs
        if mode == "default" and len(ts) < 2:
            continue
        tr = sorted(off + rng.randrange(-1, 2 * n + 1) * half for _ in range(rng.choice([0, 1, 2, 3, 4, 5])))
        k0, k1 = rng.randint(0, 5), rng.randint(0, 5)
        w0, w1 = k0 * step + rng.choice([0, half]), k1 * step + rng.choice([0, half])
        if rng.random() < 0.3:
            w1 = w0
        if w0 + w1 == 0:
            w0 = w1 = step
        un = rng.choice(["s", "s", "ms", "us"])
        uf = dict(UNITS)[un]
        dform = rng.choice(PC_DFORMS)
        cont = "Tsd" if dform in SMALL_DFORMS else rng.choice(["Tsd", "Tsd", "TsdFrame", "TsdTensor"])
        a_ = rng.randint(0, max(0, len(ts) - 1))
        spec = {"family": "C", "n": len(plan), "lattice": lat, "off": off, "step": step, "ts": ts, "dform": dform, "vals": gen_vals(rng, len(ts), dform), "container": cont,
                "tform": pick_tform(rng, ts), "cols": rng.choice([None, ["b", "a"], [7, 3], [1.5, 0.5]]) if cont == "TsdFrame" else None,
                "ep": ep, "mode": mode, "epform": "empty" if empty_ep else (rng.choice(epforms_for(ep)) if ep else rng.choice(["omitted", "none"])),
                "tref": {"ticks": tr, "cls": rng.choice(["Ts", "Ts", "Tsd", "TsdFrame", "TsdTensor"]), "tform": pick_tform(rng, tr)},
                "minmax": [w0, w1], "units": un, "mmform": pick_mmform(rng, w0, w1, uf), "call": rng.choice(["kw", "kw", "positional", "all_kw", "default_unit"]),
                "hist": hist, "slice": [a_, rng.randint(a_ + 1, max(a_ + 1, len(ts)))]}
        if spec["call"] == "default_unit" and un != "s":
            spec["call"] = "kw"
        spec["units_upper"] = spec["call"] != "default_unit" and rng.random() < 0.04
        plan.append(spec)
    return plan


def fc_exec(nap, spec, res, mmform=None):
    un = spec["units"]
    uf = dict(UNITS)[un]
    w0, w1 = spec["minmax"]
    form = mmform or spec["mmform"]
    hist, mode, cont = spec["hist"], spec["mode"], spec["container"]
    attribution = mmform is not None
    ts, vs = list(spec["ts"]), cvals(spec["vals"])
    ep = [tuple(e) for e in spec["ep"]] if spec["ep"] is not None else None
    trs = spec["tref"]
    tr = list(trs["ticks"])
    out = []
    if not attribution:
        for nm, val in (("lattice", spec["lattice"]), ("offset", offset_class(spec["off"], spec["step"])), ("input", cont), ("data", spec["dform"]), ("times_as", spec["tform"]),
                        ("minmax_as", form), ("units", un), ("call", spec["call"]), ("history", hist), ("mode", mode), ("ep_as", spec["epform"]), ("tref", trs["cls"]),
                        ("tref_times_as", trs["tform"]), ("n_tref", len(tr)), ("n_samples", len(ts) if len(ts) < 2 else "2+")):
            res.count("formsC_%s=%s" % (nm, val))
        if spec["cols"]:
            res.count("formsC_frame_columns=%s" % type(spec["cols"][0]).__name__)
    lo_t, hi_t = min(ts + [spec["off"]]), max(ts + [spec["off"]])
    wide_t = [(lo_t - SEC, hi_t + SEC)]
    # the object and its time support
    if mode == "support" and hist != "restrict":
        supo, xsup = ep_arg(nap, ep, "plain"), ep
    elif mode == "default":
        supo, xsup = None, [(ts[0], ts[-1])]
    else:
        supo, xsup = mk_ep(nap, wide_t), wide_t
    x = mk_series(nap, cont, ts, spec["tform"], spec["vals"], spec["dform"], supo, spec["cols"])
    if mode == "support":
        if hist == "restrict":
            x, xsup = x.restrict(mk_ep(nap, ep)), ep
        keep = [i for i, t in enumerate(ts) if G.mem(t, ep)]
        ts, vs = [ts[i] for i in keep], [vs[i] for i in keep]
    if hist == "slice":
        a_, b_ = spec["slice"]
        x, ts, vs = x[a_:b_], ts[a_:b_], vs[a_:b_]
    elif hist == "arith":
        x = x * 1
    elif hist == "npfunc":
        x = np.add(x, 0)
    elif hist == "save_load":
        x = save_load(nap, x)
    eff = ep if mode == "ep" else xsup
    if hist == "self_tref":
        tref, tr = x, list(ts)
    else:
        tref = mk_series(nap, trs["cls"], tr, trs["tform"], None, "float64", nap.IntervalSet(*WIDE))
    key = {"op": "compute_perievent_continuous", "family": "forms", "units": un, "input": cont, "data": spec["dform"], "minmax_form": form, "call": spec["call"], "hist": hist,
           "mode": mode, "tref": trs["cls"]}
    inp = {"spec": spec}
    epo = (nap.IntervalSet([], []) if spec["epform"] == "empty" else ep_arg(nap, ep, spec["epform"])) if mode == "ep" else None
    ep_given = mode == "ep" or spec["epform"] == "none"
    mm = mm_arg(w0, w1, uf, form)
    una = un.upper() if spec["units_upper"] else un
    if spec["units_upper"] and not attribution:
        res.count("formsC_units_in_upper_case")
    pc = None
    try:
        for _ in range(2 if hist == "twice" else 1):
            if spec["call"] == "positional":
                pc = nap.compute_perievent_continuous(x, tref, mm, epo, una)
            elif spec["call"] == "all_kw":
                pc = nap.compute_perievent_continuous(timeseries=x, tref=tref, minmax=mm, time_unit=una, **({"ep": epo} if ep_given else {}))
            elif spec["call"] == "default_unit":
                pc = nap.compute_perievent_continuous(x, tref, mm, **({"ep": epo} if ep_given else {}))
            else:
                pc = nap.compute_perievent_continuous(x, tref, mm, time_unit=una, **({"ep": epo} if ep_given else {}))
    except Exception as ex:
        if (form in INVALID_MM or spec["units_upper"]) and isinstance(ex, CLEAN):
            if not attribution:
                res.count("formsC_outside_signature(list / ndarray / 0-d minmax, upper-case unit)_rejected_cleanly")
                res.evaluations += 1
            return out
        out.append({"key": dict(key, part="exception", exception=type(ex).__name__), "what": "raised " + type(ex).__name__ + ": " + str(ex)[:100], "input": inp})
    if pc is not None:
        got_t = [C.to_ns(v) for v in pc.t]
        arr = cont_planes(np.asarray(pc.values), cont)
        if arr is None:
            out.append({"key": dict(key, part="frame_columns"), "what": cont + " input: the data columns are not aligned identically / wrong shape", "input": inp,
                        "impl": list(np.asarray(pc.values).shape)})
        else:
            got_c = [[cv(v) for v in arr[:, j]] for j in range(arr.shape[1])]
            bad = cont_verdict(ts, vs, tr, eff, w0, w1, got_t, got_c)
            if bad is not None:
                out.append({"key": dict(key, part=bad[0]), "what": bad[1], "input": inp, "impl": [got_t, got_c], "expected": bad[2]})
    if attribution:
        return out
    out = attribute_minmax(out, form, un, lambda f: fc_exec(nap, spec, res, mmform=f))
    res.violations.extend(out)
    inside = [r for r in tr if G.mem(r, eff)]
    res.case(("fC", spec["n"], tuple(ts), tuple(tr), str(eff), w0, w1, un, form, hist, cont, spec["dform"]), nontrivial=bool(inside) and len(ts) > 1)
    return out


def run_forms(res, tier, seed, nap):
    n = {}
    for fam, plan, ex in (("A:correlograms", fa_plan, fa_exec), ("B:compute_perievent", fb_plan, fb_exec), ("C:compute_perievent_continuous", fc_plan, fc_exec)):
        specs = plan(tier, seed)
        n[fam] = len(specs)
        for spec in specs:
            ex(nap, spec, res)
        if specs:
            res.sample({"op": "argument forms " + fam, "spec": specs[0]}, limit=8)
    res.extra["argument_form_cases"] = n


def run(res, tier, seed):
    nap, CG, PF = _nap()
    warnings.simplefilter("ignore")
    np.seterr(all="ignore")
    rng = random.Random(seed * 16 + 3)
    res.rule = ("(1) kernel _cross_correlogram (compiled + .py_func): ALL (<=2 reference, <=3 target events, coincident incl.) on a 9-point dyadic lattice (2^-9 s) x 6 (binsize, windowsize) "
                "pairs incl. even/odd quotients, window shorter than the bin, lags exactly on bin edges [complete in thorough, seeded subsample in quick], + unsorted reference arrays (cursor moving back); "
                "(2) compute_auto/cross/event-correlogram through the public API: 3-member groups (empty members, coincident spikes) on the dyadic half-bin lattice x 5 (b, w) x ep none/1/2/3 epochs "
                "x norm x reverse x units s/ms/us x TsGroup or pair of groups, + random decimal-lattice trains with forced edge lags (float_ambiguous only there); counts recovered as integers; "
                "(3) compute_perievent: ALL (<=4 samples with duplicates, <=2 reference times on the half lattice) x 6 symmetric/asymmetric/one-sided windows incl. samples exactly on either window edge, "
                "Ts/Tsd/TsGroup, units, minmax as tuple/negative tuple/scalar; (4) compute_perievent_continuous + _jitcontinuous_perievent: regular series of 2/3/5/7 samples x epochs (default + <=29 sampled 1- and 2-interval sets with ends on the half lattice) x "
                "<=2 events on the half lattice (midway ties, on samples, outside epochs) x 6 windows (not multiples of the step, one-sided, asymmetric), + random series with 1-3 epochs and holes (epochs as ep= or as the series' own time support, "
                "no sample kept between the epochs), + series whose first two samples do NOT give the sampling step (a lone sample in the first epoch, leading samples outside the epochs at another spacing, a duplicated first sample) "
                "and series of 0/1 sample times; Tsd, TsdFrame and TsdTensor; _perievent_continuous on irregular sampling with duplicate sample times; "
                "(5) probes: ep=None passed explicitly to the four correlogram entry points, the pair of groups passed as a list. "
                "(6) ARGUMENT FORMS, three seeded families of JSON-able specs on exact lattices (dyadic 2^-9 s, or whole seconds for the integer forms), judged by the same statement oracles: "
                "[dtype of the data] Tsd members / events / aligned series hold float64, float32, int64/32/16/8, uint8/16/64, bool, Python-list data, NaN / +inf / -inf, zeros, all-equal values, integers beyond 2^53 and beyond int64 "
                "(correlograms must ignore them, compute_perievent must carry them unchanged, compute_perievent_continuous must place them; TsdFrame/TsdTensor planes base+1000q); "
                "[form of time arguments and scalars] every timestamp array as ndarray, list, tuple, pandas Series / Index (Series-with-index for Tsd, DataFrame for TsdFrame), another object's TsIndex, another object's .t, float32, "
                "int64/32/16 and uint8/16/32/64 arrays, Python-int lists, time_units ms/us (float and int); binsize / windowsize as float, np.float64, np.float32, int, np.int64/32, np.uint16, 0-d array; minmax as tuple, negative-first tuple, scalar, "
                "tuples and scalars of Python ints, np.float64/32/16, np.int64/32, np.uint8/64, mixed (int, float), and list / ndarray / 0-d array (outside the signature: a clean TypeError/ValueError/RuntimeError or the statement); "
                "ep as plain IntervalSet, with metadata, from lists, from int64 / uint64 arrays, from a DataFrame, in ms, empty, omitted, or None passed explicitly; "
                "[positional / keyword / default] every entry point called with keywords, fully positionally, fully by keyword and with norm / reverse / time_units / time_unit left at their defaults; norm x reverse x ep x units combined; time unit in upper case (clean exception or the statement); "
                "[units] s / ms / us for the same instants; [time placement] lattice origin at 0, straddling 0, all-negative, 1e5 s; samples forced onto both window edges; "
                "[degenerate] empty TsGroup, one member, empty members, empty series, empty tref, empty ep, one sample, duplicated timestamps, single-timestamp series with the (empty) default time support; keys unsorted / multi-digit strings / floats / numpy ints / a list of members; "
                "[classes] Ts and Tsd members and events, Ts/Tsd/TsGroup inputs, Ts/Tsd/TsdFrame/TsdTensor reference times, Tsd/TsdFrame(string, integer, float column labels in non-sorted order)/TsdTensor series, pair of groups as tuple / list / the same live group twice / second group on a narrower support, the event being a member of the group, group time support explicit / default (union) / bypass_check=True / with metadata; "
                "[histories] restrict, group[[keys]] in non-sorted order, slice, get, x*1, np.add(x, 0), save + load_file, set_info, the same call twice on one live object, the series used as its own reference times. "
                "`exhaustive` refers to spaces (1) and (3) in the thorough tier; (2) and (4) are seeded samples of their products. Each compared with the extracted model (where its hypotheses hold) AND the brute-force statement. non-trivial = at least one pair in a bin / window cuts the data / a window truncated by an epoch edge")
    res.exhaustive = tier == "thorough"
    run_kernel(res, tier, rng, CG)
    run_public_corr(res, tier, rng, nap)
    run_perievent(res, tier, rng, nap)
    run_continuous(res, tier, rng, nap, PF)
    run_continuous_kernel(res, tier, rng, PF)
    run_forms(res, tier, seed, nap)


def search(res, seed):
    r2 = C.Result()
    run(r2, "thorough", seed)
    return r2.violations[0] if r2.violations else None


def replay(payload):
    nap, CG, PF = _nap()
    warnings.simplefilter("ignore")
    np.seterr(all="ignore")
    v = payload.get("violation") or (payload.get("disagreements") or [{}])[0]
    inp = v.get("input", {})
    op = (v.get("key") or {}).get("op") or v.get("op") or ""
    print("op:", op)
    print("input:", inp)
    if "spec" in inp:
        spec, r = inp["spec"], C.Result()
        {"A": fa_exec, "B": fb_exec, "C": fc_exec}[spec["family"]](nap, spec, r)
        for x in r.violations:
            print("VIOLATION", x["key"], "\n ", x["what"], "\n  impl    ", x.get("impl"), "\n  expected", x.get("expected"))
        print("%d violation(s) on replay" % len(r.violations))
        return 1 if r.violations else 0
    if "t1" in inp:
        t1, t2, b, w = inp["t1"], inp["t2"], inp["binsize"], inp["windowsize"]
        Cv, Bv = CG._cross_correlogram(G.arr(t1), G.arr(t2), b / 1e9, w / 1e9)
        got = [recover(Cv, len(t1) * b / 1e9), [int(round(float(x) * 2e9)) for x in Bv]]
        exp = [o_hist(t1, t2, b, w), [2 * c for c in o_centres(b, w)]]
        print("impl", got, "expected", exp)
        return 0 if got == exp else 1
    if "minmax" in inp and "values" not in inp and "tref" in inp:
        ts, tr, (w0, w1) = inp["ts"], inp["tref"], inp["minmax"]
        big = nap.IntervalSet(-1.0, 1.0)
        x = nap.Tsd(G.arr(ts), np.arange(len(ts)) + 100.0, time_support=big)
        if inp.get("container") == "TsdFrame":
            x = nap.TsdFrame(G.arr(ts), np.arange(2.0 * len(ts)).reshape(len(ts), 2), time_support=big)
        if inp.get("container") == "TsdTensor":
            x = nap.TsdTensor(G.arr(ts), np.arange(4.0 * len(ts)).reshape(len(ts), 2, 2), time_support=big)
        try:
            pe = nap.compute_perievent(x, nap.Ts(G.arr(tr), time_support=big), (w0 / 1e9, w1 / 1e9))
        except Exception as ex:
            print("impl raised", type(ex).__name__, ex)
            return 1
        if "container" in inp:
            print("impl lags", [[C.to_ns(q) for q in pe[i].t] for i in range(len(tr))])
            return 0
        got = [(tr[i], list(zip([C.to_ns(q) for q in pe[i].t], [int(q) for q in pe[i].values]))) for i in range(len(tr))]
        exp = o_perievent(ts, list(range(100, 100 + len(ts))), tr, w0, w1)
        print("impl", got, "expected", exp)
        return 0 if got == exp else 1
    if "values" in inp:
        ts, vs, tr, ep, (w0, w1) = inp["ts"], inp["values"], inp["tref"], inp["ep"], inp["minmax"]
        mode = inp.get("mode", "ep" if ep else "default")
        container = inp.get("input", "Tsd")
        uf = dict(UNITS)[inp.get("units", "s")]
        eff = [tuple(e) for e in ep] if ep else [(ts[0], ts[-1])]
        try:
            x = cont_input(nap, ts, vs, eff, mode, container)
            pc = nap.compute_perievent_continuous(x, nap.Ts(G.arr(tr), time_support=nap.IntervalSet(-1.0, 5.0)), (w0 / uf, w1 / uf), time_unit=inp.get("units", "s"),
                                                  **({"ep": mk_ep(nap, eff)} if mode == "ep" else ({"ep": None} if inp.get("probe") == "explicit_ep_none" else {})))
        except Exception as ex:
            print("impl raised", type(ex).__name__, ex)
            return 1
        arr = cont_planes(np.asarray(pc.values), container)
        if arr is None:
            print("impl: wrong shape / data columns not aligned identically", np.asarray(pc.values).shape)
            return 1
        got_c = [[None if np.isnan(q) else int(q) for q in arr[:, j]] for j in range(arr.shape[1])]
        got_t = [C.to_ns(q) for q in pc.t]
        bad = cont_verdict(ts, vs, tr, eff, w0, w1, got_t, got_c)
        print("impl", got_t, got_c)
        if bad is not None:
            print("VIOLATION part=%s: %s\n expected (any of)" % bad[:2], bad[2])
        return 0 if bad is None else 1
    if "members" in inp:
        keys = sorted(int(k) for k in inp["members"])
        mem = [inp["members"].get(k, inp["members"].get(str(k))) for k in keys]
        b, w, ep, norm, reverse, un = inp["binsize"], inp["windowsize"], inp["ep"], inp["norm"], inp.get("reverse", False), inp.get("units", "s")
        uf = dict(UNITS)[un]
        lat_sup = [tuple(x) for x in inp["group_support"]]
        ep = [tuple(x) for x in ep] if ep else None
        supo = mk_ep(nap, lat_sup)
        grp = nap.TsGroup({k: nap.Ts(G.arr(m), time_support=supo) for k, m in zip(keys, mem)}, time_support=supo)
        epk = {"ep": mk_ep(nap, ep)} if ep else {}
        eff = ep if ep else lat_sup
        rm = [restrict(m, eff) for m in mem]
        T = tot(eff) / 1e9
        bad = 0
        if inp.get("probe"):
            g1 = nap.TsGroup({keys[0]: nap.Ts(G.arr(mem[0]), time_support=supo)}, time_support=supo)
            g2 = nap.TsGroup({k: nap.Ts(G.arr(m), time_support=supo) for k, m in zip(keys[1:], mem[1:])}, time_support=supo)
            evo = nap.Ts(G.arr(inp["event"]), time_support=supo)
            try:
                if inp["probe"] == "groups_as_list":
                    df = nap.compute_crosscorrelogram([g1, g2], b / 1e9, w / 1e9, norm=norm)
                elif "auto" in op:
                    df = nap.compute_autocorrelogram(grp, b / 1e9, w / 1e9, norm=norm, ep=None)
                elif "event" in op:
                    df = nap.compute_eventcorrelogram(grp, evo, b / 1e9, w / 1e9, norm=norm, ep=None)
                elif "pair" in op:
                    df = nap.compute_crosscorrelogram((g1, g2), b / 1e9, w / 1e9, norm=norm, ep=None)
                else:
                    df = nap.compute_crosscorrelogram(grp, b / 1e9, w / 1e9, norm=norm, ep=None)
            except Exception as ex:
                print("impl raised", type(ex).__name__, ex)
                return 1
            print("impl returned a frame of shape", df.shape)
            return 0
        if "auto" in op:
            df = nap.compute_autocorrelogram(grp, b / uf, w / uf, norm=norm, time_units=un, **epk)
            for k, m in zip(keys, rm):
                if m:
                    got = recover(df[k].values, len(m) * b / 1e9 * ((len(m) / T) if norm else 1.0))
                    print("member", k, "impl", got, "expected", o_auto(m, b, w))
                    bad += got != o_auto(m, b, w)
        elif "event" in op:
            ev_sup = [tuple(x) for x in inp.get("event_support", lat_sup)]
            evo = nap.Ts(G.arr(inp["event"]), time_support=mk_ep(nap, ev_sup))
            eeff = ep if ep else ev_sup
            rev = restrict(restrict(inp["event"], ev_sup), eeff)
            df = nap.compute_eventcorrelogram(grp, evo, b / uf, w / uf, norm=norm, time_units=un, **epk)
            for k, m0 in zip(keys, mem):
                m = restrict(m0, eeff)
                if rev and (m or not norm):
                    got = recover(df[k].values, len(rev) * b / 1e9 * ((len(m) / (tot(eeff) / 1e9)) if norm else 1.0))
                    print("member", k, "impl", got, "expected", o_hist(rev, m, b, w))
                    bad += got != o_hist(rev, m, b, w)
        else:
            df = nap.compute_crosscorrelogram(grp, b / uf, w / uf, norm=norm, time_units=un, reverse=reverse, **epk)
            for lab in df.columns:
                a, c2 = keys.index(lab[0]), keys.index(lab[1])
                if rm[a] and (rm[c2] or not norm):
                    got = recover(df[lab].values, len(rm[a]) * b / 1e9 * ((len(rm[c2]) / T) if norm else 1.0))
                    print("pair (reference, target)", lab, "impl", got, "expected", o_hist(rm[a], rm[c2], b, w))
                    bad += got != o_hist(rm[a], rm[c2], b, w)
        print("row labels", [C.to_ns(x) for x in df.index.values], "expected", o_centres(b, w))
        bad += [C.to_ns(x) for x in df.index.values] != o_centres(b, w)
        return 1 if bad else 0
    if "t" in inp and "binsize" in inp:
        sup = nap.IntervalSet(-1.0, 1.0)
        grp = nap.TsGroup({0: nap.Ts(G.arr(inp["t"]), time_support=sup)}, time_support=sup)
        df = nap.compute_autocorrelogram(grp, inp["binsize"] / 1e9, inp["windowsize"] / 1e9, norm=False)
        got = [[C.to_ns(x) for x in df.index.values], recover(df[0].values, len(inp["t"]) * inp["binsize"] / 1e9)]
        exp = [o_centres(inp["binsize"], inp["windowsize"]), o_auto(inp["t"], inp["binsize"], inp["windowsize"])]
        print("impl", got, "expected", exp)
        return 0 if got == exp else 1
    return 1
