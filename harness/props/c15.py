"""C15 compiled kernels stay inside their arrays and read only assigned variables."""
import json
import os
import subprocess

import common as C

LEVEL = "proof"
DRIVERS = ["jitdriver"]
TRUSTED = ["translator tools/py2jit.py (fail-closed, Python ast -> coq/Gen/Kernels.v, regenerated from /repo on every run; a mistranslation shows up in the three-way execution)",
           "coq/Jit/Lang.v, Interp.v (checked interpreter: every array access bounds-checked, every variable read checked for assignment; floats idealised as exact rationals + NaN; type "
           "confusion resolved leniently - numba's type inference rejects ill-typed kernels at compile time), Safety.v (wp calculus, wp_sound/run_sound proved once)",
           "coq/Inv/<kernel>.v: public-call precondition Pre_<kernel> (array-length relations only, as the wrappers guarantee them) and loop invariants",
           "numba's compilation of the kernel text is covered only by the compiled = bounds-checked compiled = .py_func = Jit.Interp correspondence"]
ASSUMPTIONS = ["the public-call preconditions Pre_<kernel> are read off the wrappers by hand (lengths of paired arrays equal; counts produced by jitrestrict_with_count, whose contract is proved); "
               "they are exercised by the bounds-checked public degenerate calls",
               "_overlap_split's writes are guarded by the kernel's own test n <= N since d86eb2b (safety no longer depends on the value of N nor on float progress); trailing data axes of "
               "_jitperievent_trigger_average are collapsed in the model"]

PROVED = {"jitrestrict": "k_jitrestrict_safe", "jitrestrict_with_count": "k_jitrestrict_with_count_safe", "jitin_interval": "k_jitin_interval_safe", "jitunion_isets": "k_jitunion_isets_safe",
          "_jitfix_iset": "k__jitfix_iset_safe", "jitintersect": "k_jitintersect_safe", "jitunion": "k_jitunion_safe", "jitdiff": "k_jitdiff_safe", "jitremove_nan": "k_jitremove_nan_safe",
          "jitthreshold": "k_jitthreshold_safe", "jitcount": "k_jitcount_safe", "_jitbin_array": "k__jitbin_array_safe", "jitvaluefrom": "k_jitvaluefrom_safe",
          "_cross_correlogram": "k__cross_correlogram_safe", "_jitcontinuous_perievent": "k__jitcontinuous_perievent_safe",
          "_jitperievent_trigger_average": "k__jitperievent_trigger_average_safe", "_overlap_split": "k__overlap_split_safe"}


def worker(n, seed, bc, public):
    out = os.path.join(C.CACHE, "c15_%s.json" % ("bc" if bc else "plain"))
    env = dict(os.environ)
    env["NUMBA_CACHE_DIR"] = os.path.join(C.HOME, ".cache", "numba-bc" if bc else "numba-jit")
    env["PYTHONPATH"] = C.REPO
    if bc:
        env["NUMBA_BOUNDSCHECK"] = "1"
    else:
        env.pop("NUMBA_BOUNDSCHECK", None)
    cmd = ["/venv/bin/python", "-W", "ignore", os.path.join(C.HOME, "harness", "c15_worker.py"), out, str(n), str(seed)] + (["public"] if public else [])
    p = subprocess.run(cmd, env=env, stdout=subprocess.PIPE, stderr=subprocess.STDOUT, text=True, timeout=3000)
    if p.returncode != 0 or not os.path.exists(out):
        raise RuntimeError("c15 worker failed: " + p.stdout[-800:])
    return json.load(open(out))


def public_interpreted():
    """the degenerate and precondition-probing public calls with every numba dispatcher replaced by its .py_func (own process)"""
    out = os.path.join(C.CACHE, "c15_public_pyfunc.json")
    env = dict(os.environ)
    env["NUMBA_CACHE_DIR"] = os.path.join(C.HOME, ".cache", "numba-jit")
    env["PYTHONPATH"] = C.REPO
    env.pop("NUMBA_BOUNDSCHECK", None)
    if os.path.exists(out):
        os.remove(out)
    p = subprocess.run(["/venv/bin/python", "-W", "ignore", os.path.join(C.HOME, "harness", "c15_public.py"), out, "pyfunc"], env=env, stdout=subprocess.PIPE,
                       stderr=subprocess.STDOUT, text=True, timeout=1500)
    if p.returncode != 0 or not os.path.exists(out):
        raise RuntimeError("c15 interpreted public calls failed: " + p.stdout[-800:])
    return json.load(open(out))


def run(res, tier, seed):
    n = 250 if tier == "quick" else 2500
    res.rule = ("for each of the translated kernels: %d distinct seeded argument tuples satisfying the public-call precondition, sizes 0-4 per array on a binary lattice (empty series, single "
                "sample, duplicates, empty IntervalSet, epochs before/after/between the samples), executed FOUR ways: compiled, compiled with NUMBA_BOUNDSCHECK=1 (own cache), .py_func, and the "
                "translated Jit.Lang term in the extracted checked interpreter; all four must agree and none may report an out-of-bounds access or an unassigned read; plus ~37 degenerate PUBLIC "
                "calls under bounds checking, and those plus 10 precondition probes (method / mode strings the wrappers must reject before a kernel sees them) with every kernel replaced "
                "by its interpreted twin, where an unassigned local or an index past the end raises. non-trivial = a case with at least one array of size 0 or 1; distinct = (kernel, arguments)" % n)
    meta = json.load(open(os.path.join(C.COQ, "Gen", "kernels.json")))
    pyf = public_interpreted()
    plain = worker(n, seed, False, False)
    bc = worker(n, seed, True, True)
    not_proved, hashes = [], {}
    for k in meta["kernels"]:
        name = k["name"]
        hashes[name] = k["hash"][:16]
        if name not in PROVED or not k.get("translated", False):
            not_proved.append(name + ("" if k.get("translated", False) else " (not translated)"))
    for mode, rep in (("plain", plain), ("boundscheck", bc)):
        for name, kr in rep["kernels"].items():
            if not kr.get("translated"):
                continue
            res.evaluations += kr["cases"]
            res.count("%s:%s" % (mode, name), kr["cases"])
            if mode == "plain":
                for i in range(kr["cases"]):
                    res.keys.add((name, i)) if i < kr.get("degenerate", 0) else None
                res.sample({"kernel": name, "case": kr.get("sample", ""), "source_hash": kr.get("hash")}, limit=17)
            for r in kr["records"]:
                inp = {"kernel": name, "args": r["args"], "model_line": r["model_line"], "mode": mode}
                if r["unsafe"]:
                    res.violations.append({"key": {"op": name, "part": "out_of_bounds_or_unassigned"},
                                           "what": "kernel %s reads out of bounds / an unassigned variable on an input the public API can pass: model %s, py_func %s" % (name, r["model"], r["pyfunc"][0]),
                                           "input": inp, "impl": r["pyfunc"], "model": r["model"]})
                elif r["problems"]:
                    res.disagreements.append({"op": name, "input": inp, "problems": r["problems"], "model": r["model"], "pyfunc": r["pyfunc"], "compiled": r["compiled"]})
    for pc in bc["public"]:
        res.evaluations += 1
        res.count("public:" + pc["outcome"].split()[0])
        if pc["outcome"] in ("IndexError", "UnboundLocalError"):
            res.violations.append({"key": {"op": "public", "part": "IndexError_under_boundscheck", "call": pc["call"]},
                                   "what": "public call %s raises %s when the kernels are compiled with bounds checking: %s" % (pc["call"], pc["outcome"], pc.get("msg")), "input": {"call": pc["call"]}})
    for pc in pyf["public"]:
        res.evaluations += 1
        res.count("public_interpreted:" + pc["outcome"].split()[0])
        if pc["outcome"] in ("IndexError", "UnboundLocalError"):
            res.violations.append({"key": {"op": "public", "part": "unsafe_when_interpreted", "call": pc["call"], "exception": pc["outcome"]},
                                   "what": "public call %s: with every kernel replaced by its interpreted twin (.py_func) the call raises %s: %s - a kernel is entered outside the "
                                           "precondition its safety theorem assumes" % (pc["call"], pc["outcome"], pc.get("msg")), "input": {"call": pc["call"], "mode": "py_func"}})
    res.extra["kernel_source_hashes"] = hashes
    res.extra["proved_safe"] = sorted(PROVED)
    res.extra["checked_not_proved"] = not_proved
    res.extra["public_calls_under_boundscheck"] = bc["public"]
    res.extra["public_calls_interpreted"] = pyf["public"]


def search(res, seed):
    r2 = C.Result()
    run(r2, "thorough", seed)
    return r2.violations[0] if r2.violations else None


def replay(payload):
    v = payload.get("violation") or (payload.get("disagreements") or [{}])[0]
    inp = v.get("input", {})
    print("replay:", inp)
    if "model_line" in inp:
        p = subprocess.run([os.path.join(C.OCAML, "jitdriver")], input=inp["model_line"] + "\n", stdout=subprocess.PIPE, text=True)
        print("checked interpreter on the translated kernel:", p.stdout.strip())
        return 1 if p.stdout.startswith("ERR") else 0
    return 1
