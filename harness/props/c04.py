"""C04 every time series reachable through the API is well formed."""
import random
import warnings

import numpy as np

import common as C
import gen as G
import history as H

LEVEL = "proof"
TRUSTED = ["model: coq/Model/Store.v (state machine over a store; every operation returns through mk_ts / mk_ts_sup / mk_iset as the wrappers do) built from the kernel models; "
           "theorems: Proofs/StoreProofs.v (step_WF, run_WF)",
           "C04_group_members is stated on the group model coq/Model/Group.v with the proofs of Proofs/GroupProofs.v; that model is tied to the implementation by C12's check, not by this one"]
ASSUMPTIONS = ["data values are abstracted away in the model (threshold/dropna take the kept mask as an argument): the clause 'one data row per timestamp' and, for objects other than group "
               "members, the equality 'rate = n / duration' are enforced by the oracle on the implementation only (the store model has no rows and no rate field; the theorems give "
               "'a non-empty well-formed series has a support of positive duration' (C04_rate_defined) and, on the group model, the group clause and the members' rate (C04_group_members))",
               "starting series (the two Tsd every history begins with) span a positive duration (the property's hypothesis); every LATER object - empty, one-sample, duplicate-timestamp, "
               "support-less - is fed to the operations as it comes",
               "operations not in the model (listed in coverage.ops_unmodelled) are exercised on the implementation with the well-formedness oracle only",
               "an exception produces no object and is therefore outside C04's statement: exceptions of unmodelled calls are counted per call (distribution exception:<family>/<call>) and the "
               "other calls of the same operation are still checked; an exception of a MODELLED operation is a disagreement with the model",
               "IntervalSet([], []).time_span() raises IndexError while the model returns the empty set: the call is not made on an empty set (counted as skipped:time_span_of_empty_set)",
               "the order of a TsGroup's keys is C12's clause and is not part of this oracle",
               "argument forms: a numpy float32 SCALAR given as an instant (get, bin_average, find_support) is rounded by TsIndex.format_timestamps in float32 arithmetic (a few ns off even when "
               "the value is exact in float32); such scalars are passed only to calls whose result is checked by the well-formedness oracle alone (no model / reference comparison); float32 "
               "ARRAYS are converted to float64 first by every constructor and are compared with the model; count(bin_size=<numpy integer / float32>) raises TypeError (documented: float or int)",
               "argument forms: unit changes (ms / us) and integer / float32 time arrays are generated only for instants on the dyadic lattice 2^-9 s below 2^20 s, where the scaling and the "
               "library's division are exact, so that 'the same instants' is decidable; off-lattice objects of the store are passed in seconds only",
               "reference comparison (distribution form_reference_compared): a call in a drawn form whose most-common-form twin is known is required to produce the same timestamps and support; "
               "a difference is reported as a disagreement (correspondence), never as a violation of C04's statement"]

FORM_HID0 = 10 ** 6        # history ids of the argument-form histories (disjoint from the canonical ones)


def _nap():
    import pynapple as nap
    return nap


def run(res, tier, seed):
    nap = _nap()
    warnings.simplefilter("ignore")
    nh = 500 if tier == "quick" else 5000
    length = 12 if tier == "quick" else 40
    nf = 350 if tier == "quick" else 1200
    flength = 12 if tier == "quick" else 30
    res.rule = ("histories: %d seeded random operation sequences of length %d over a store of live objects (16 modelled operation kinds: constructors incl. malformed interval input, "
                "restrict, get, count, value_from, threshold, dropna - also on empty series -, support, union/intersect/set_diff, time_span, drop_short, merge_close) executed on the "
                "implementation and on the extracted state machine, abstract states (timestamps, support) compared after EVERY step; %d unmodelled operation families (each a list of "
                "separately guarded public calls) interleaved on the implementation. Their input is ANY series of the store - Ts, Tsd, TsdFrame or TsdTensor, results of earlier "
                "operations included, of any length (empty, one sample, duplicates) and any support (empty, one or several intervals) - half of the time re-cast to another of the four "
                "classes through the public constructor; one family builds timestamps and support edges off the lattice (edges on, 1 ns, 0.5 us and 1 us away from samples; touching intervals); "
                "groups are built with an explicit and with the default (union) support. The well-formedness statement (sorted, one row per timestamp, inside a canonical support, "
                "rate = n / duration, non-empty group members on the group support) is evaluated on every object produced (count: objects_checked). "
                "non-trivial = a step whose result has >= 1 sample or interval; distinct = (history id, step)" % (nh, length, len(set(H.UNMODELLED))))
    res.rule += (" || ARGUMENT FORMS: %d further histories of length %d in which every call is made with its arguments in drawn forms (second generator derived from the seed), the modelled "
                 "operations still compared with the extracted model after every step, %d form families interleaved with the %d others. "
                 "(1) data dtype: float64 / float32 / int64 / int32 / int16 / int8 / uint8..uint64 / bool, rows of NaN, +inf, -inf, both infinities in one row, zeros, all-equal, data as a Python list, for the "
                 "receiver of every operation and the operands (threshold masks in integer / bool dtypes, dropna on rows holding infinities, convolve of integer signals with fractional / float32 / 2-d / bool kernels, "
                 "Python and numpy scalar operands of every arithmetic operator). "
                 "(2) time arguments: ndarray, strided view, list, tuple, pandas Index / Series (Tsd(Series), TsdFrame(DataFrame)), the TsIndex of another live object, float32 and integer arrays (signed, unsigned, 8..64 bit, "
                 "for timestamps AND for interval starts / ends, unsorted included), Python / numpy scalars (int instead of float, numpy integers, float64; float32 without reference). "
                 "(3) every public parameter positionally and by keyword (the cut between positional and keyword arguments is drawn), optional parameters at the default, at an explicit None and at every other value, "
                 "flags combined (count dtype x unit x ep, convolve trim x ep, smooth windowsize x norm x size_factor x unit, merge_group reset_index x reset_time_support x ignore_metadata with THREE operands, "
                 "dropna update_time_support, value_from mode, interpolate left x right, TsGroup time_support x time_units x bypass_check x metadata); strings in another letter case must raise or give a well-formed object. "
                 "(4) units s / ms / us for every unit-accepting call (constructors, IntervalSet, get, get_slice, count, bin_average, smooth, drop_short/long, merge_close, split, perievent, TsGroup raw members, group count / get). "
                 "(5) placement: whole histories translated to negative times, across 0 and by 1e5 s; a family re-runs the core operations on translated copies and compares the result translated back. "
                 "(6) degenerate: empty group in the three units and every operation on it, empty series of the four classes, groups with an empty member, keys strings / floats / numpy integers / unsorted / not 0..n-1, "
                 "groups from lists, one-member groups, interval sets with 0 / 1 / many intervals and metadata. "
                 "(7) classes: the receiver of every family and of every modelled operation is re-cast to Ts / Tsd / TsdFrame / TsdTensor; TsdFrame columns strings, integers not 0..n-1, unsorted, floats, with metadata; "
                 "IntervalSets with metadata, from DataFrame, two-column array, pairs, Series. "
                 "(8) multi-step: drawn chains of 2-4 operations (restrict / slice / get / arithmetic / numpy / count / bin_average / dropna / convolve / interpolate / value_from / concatenate) with every intermediate object "
                 "checked, save + load_file then the operations, the same live object as both operands, operands sharing memory, TsGroup(bypass_check=True) on members that carry the support. "
                 "Distribution: form:<label> counts every drawn form" % (nf, flength, len(set(H.FORM_FAMILIES)), len(set(H.UNMODELLED))))
    opk = {}

    def batch(hids, blen, unm, forms):
        lines, runs = [], []
        for hid in hids:
            # every 5th history runs with the two warning-suppression flags of nap_config SET: they are documented to silence warnings only (seed C04-7: the
            # sorting flag also skipped the sort); well-formedness and the model comparison must be the same as without them
            flags = hid % 5 == 3
            old_flags = (nap.nap_config.suppress_time_index_sorting_warnings, nap.nap_config.suppress_conversion_warnings)
            if flags:
                nap.nap_config.suppress_time_index_sorting_warnings = True
                nap.nap_config.suppress_conversion_warnings = True
                res.count("history_under_suppress_warning_flags")
            try:
                r = H.run_history(nap, seed, hid, blen, unm, forms=forms)
            finally:
                nap.nap_config.suppress_time_index_sorting_warnings, nap.nap_config.suppress_conversion_warnings = old_flags
            runs.append(r)
            lines.append("history\t" + "\t".join(r["codes"]))
            for c in r["codes"]:
                opk[c.split()[0]] = opk.get(c.split()[0], 0) + 1
            for u in r["unmodelled"]:
                res.count("unmodelled=" + u)
            for i in r["unmodelled_inputs"]:
                if i:
                    res.count("unmodelled_input_class=" + i["cls"])
                    res.count("unmodelled_input_len=" + i["len"])
                    res.count("unmodelled_input_support_intervals=" + i["support"])
                    if i["dup"]:
                        res.count("unmodelled_input_with_duplicate_timestamps")
            for sk in r["skipped"]:
                res.count("skipped:" + sk)
            for f in r["forms"]:
                res.count("form:" + f)
            res.count("objects_checked", r["n_checked"])
            if forms:
                res.count("objects_checked_in_form_histories", r["n_checked"])
                res.count("form_reference_compared", r["n_ref"])
        out = C.run_model(lines)
        for hid, r, mo in zip(hids, runs, out):
            inp = {"history": r["codes"], "seed": [seed, hid], "forms": bool(forms), "length": blen}
            mods = [H.norm_abs(x) for x in mo.split("|")] if mo else []
            for step, a in enumerate(r["abstracts"]):
                res.case((hid, step), nontrivial=len(a.split()) > 2)
                if step < len(mods) and mods[step] != a:
                    res.disagreements.append({"op": r["codes"][step], "input": dict(inp, history=r["codes"][: step + 1]), "impl": a, "model": mods[step],
                                              "forms_drawn": r["forms"][-40:] if forms else None})
                    break
            for (label, w, code), k in zip(r["wf"], r["wf_keys"]):
                # key: the call (op = the library function / sub-call, family = the operation family of the history, variant), the clause of the statement that fails, the class
                # of the result, and the precise trigger of the known zero-span quirk: the RESULT is a non-empty series whose timestamps all coincide under an EMPTY support
                # (zero_span_default_support) and the INPUT of the call already had coinciding timestamps (zero_span_input; None for modelled operations);
                # argument_forms tells that the call was made in a history whose arguments are given in drawn forms
                key = dict(k)
                key["part"] = "well-formed"
                key["argument_forms"] = bool(forms)
                res.violations.append({"key": key, "what": "an object reachable through the API is not well formed (%s, a %s): %s" % (label, k["result"], w),
                                       "input": dict(inp, at=label)})
            for label, e in r["exc"]:
                # an exception produces no object: outside C04's statement (well-formedness of what IS produced); counted for the record, per call
                res.count("exception:" + label.split(":", 1)[-1])
                if label.startswith("op"):
                    res.disagreements.append({"op": label, "what": "a modelled operation raised on the implementation: " + e, "input": inp})
            for label, got, want in r["form_diff"]:
                # the same call in another FORM of its arguments gives other timestamps / another support than in the most common form
                res.disagreements.append({"op": label, "what": "a call with its arguments in another accepted form (unit, dtype, container, keyword / positional) differs from the same call in the "
                                          "most common form", "input": dict(inp, at=label), "impl": got, "reference_form": want})
            if hid % FORM_HID0 < 2:
                res.sample({"history": r["codes"], "states": r["abstracts"][:6], "forms": r["forms"][:30]} if forms else {"history": r["codes"], "states": r["abstracts"][:6]})

    batch(list(range(nh)), length, 0.5, False)
    batch([FORM_HID0 + i for i in range(nf)], flength, 0.6, True)
    for k, v in opk.items():
        res.count("op=" + k, v)
    res.extra["ops_modelled"] = sorted(opk)
    res.extra["ops_unmodelled"] = H.UNMODELLED
    res.extra["form_families"] = H.FORM_FAMILIES
    res.traces = nh + nf


def search(res, seed):
    r2 = C.Result()
    run(r2, "thorough", seed)
    return r2.violations[0] if r2.violations else None


def replay(payload):
    nap = _nap()
    warnings.simplefilter("ignore")
    v = payload.get("violation") or (payload.get("disagreements") or [{}])[0]
    inp = v.get("input", {})
    seed, hid = inp.get("seed", [0, 0])
    n = len(inp.get("history", [])) or 12
    forms = bool(inp.get("forms", hid >= FORM_HID0))
    if hid % 5 == 3:          # as in run(): this history ran with the warning-suppression flags set
        nap.nap_config.suppress_time_index_sorting_warnings = True
        nap.nap_config.suppress_conversion_warnings = True
    r = H.run_history(nap, seed, hid, inp.get("length") or max(n, 12), 0.6 if forms else 0.5, forms=forms)
    print("history", r["codes"])
    print("reference-form differences:", r["form_diff"])
    print("well-formedness failures:", r["wf"])
    print("well-formedness failure keys:", r["wf_keys"])
    print("exceptions (no object produced; only those of modelled operations count):", r["exc"])
    return 1 if r["wf"] or r["form_diff"] or any(label.startswith("op") for label, _ in r["exc"]) else 0
