"""C04 every time series reachable through the API is well formed."""
import random
import warnings

import numpy as np

import common as C
import gen as G
import history as H

LEVEL = "proof"
TRUSTED = ["model: coq/Model/Store.v (state machine over a store; every operation returns through mk_ts / mk_ts_sup / mk_iset as the wrappers do) built from the kernel models; "
           "theorems: Proofs/StoreProofs.v (step_WF, run_WF)"]
ASSUMPTIONS = ["data values are abstracted away in the model (threshold/dropna take the kept mask as an argument)",
               "starting series span a positive duration (the property's hypothesis)",
               "operations not in the model (listed in coverage.ops_unmodelled) are exercised on the implementation with the well-formedness oracle only"]


def _nap():
    import pynapple as nap
    return nap


def run(res, tier, seed):
    nap = _nap()
    warnings.simplefilter("ignore")
    nh = 500 if tier == "quick" else 5000
    length = 12 if tier == "quick" else 40
    res.rule = ("histories: %d seeded random operation sequences of length %d over a store of live objects (16 modelled operation kinds: constructors incl. malformed interval input, "
                "restrict, get, count, value_from, threshold, dropna, support, union/intersect/set_diff, time_span, drop_short, merge_close) executed on the implementation and on the "
                "extracted state machine, abstract states (timestamps, support) compared after EVERY step; 25 unmodelled operation kinds interleaved on the implementation; the "
                "well-formedness statement (sorted, one row per timestamp, inside a canonical support, rate = n / duration, group members on the group support) evaluated on every "
                "object produced. non-trivial = a step whose result has >= 1 sample or interval; distinct = (history id, step)" % (nh, length))
    lines, runs = [], []
    opk = {}
    for hid in range(nh):
        r = H.run_history(nap, seed, hid, length, 0.5)
        runs.append(r)
        lines.append("history\t" + "\t".join(r["codes"]))
        for c in r["codes"]:
            opk[c.split()[0]] = opk.get(c.split()[0], 0) + 1
        for u in r["unmodelled"]:
            res.count("unmodelled=" + u)
    out = C.run_model(lines)
    for hid, (r, mo) in enumerate(zip(runs, out)):
        mods = [H.norm_abs(x) for x in mo.split("|")] if mo else []
        for step, a in enumerate(r["abstracts"]):
            res.case((hid, step), nontrivial=len(a.split()) > 2)
            if step < len(mods) and mods[step] != a:
                res.disagreements.append({"op": r["codes"][step], "input": {"history": r["codes"][: step + 1], "seed": [seed, hid]}, "impl": a, "model": mods[step]})
                break
        for label, w, code in r["wf"]:
            res.violations.append({"key": {"op": label.split(":")[-1], "part": "well-formed", "zero_span_default_support": w.startswith("zero-span")},
                                   "what": "an object reachable through the API is not well formed: " + w,
                                   "input": {"history": r["codes"], "seed": [seed, hid], "at": label}})
        for label, e in r["exc"]:
            # an exception produces no object: outside C04's statement (well-formedness of what IS produced); counted for the record
            res.count("exception:" + label.split(":")[-1])
            if label.startswith("op"):
                res.disagreements.append({"op": label, "what": "a modelled operation raised on the implementation: " + e,
                                          "input": {"history": r["codes"], "seed": [seed, hid]}})
        if hid < 2:
            res.sample({"history": r["codes"], "states": r["abstracts"][:6]})
    for k, v in opk.items():
        res.count("op=" + k, v)
    res.extra["ops_modelled"] = sorted(opk)
    res.extra["ops_unmodelled"] = H.UNMODELLED
    res.traces = nh


def search(res, seed):
    r2 = C.Result()
    run(r2, "thorough", seed)
    return r2.violations[0] if r2.violations else None


def replay(payload):
    nap = _nap()
    warnings.simplefilter("ignore")
    v = payload.get("violation") or (payload.get("disagreements") or [{}])[0]
    inp = v.get("input", {})
    seed, hid = inp.get("seed", [0, 0])
    n = len(inp.get("history", [])) or 12
    r = H.run_history(nap, seed, hid, max(n, 12), 0.5)
    print("history", r["codes"])
    print("well-formedness failures:", r["wf"])
    print("exceptions:", r["exc"])
    return 1 if r["wf"] or r["exc"] else 0
