"""C04 every time series reachable through the API is well formed."""
import random
import warnings

import numpy as np

import common as C
import gen as G
import history as H

LEVEL = "proof"
TRUSTED = ["model: coq/Model/Store.v (state machine over a store; every operation returns through mk_ts / mk_ts_sup / mk_iset as the wrappers do) built from the kernel models; "
           "theorems: Proofs/StoreProofs.v (step_WF, run_WF)",
           "C04_group_members is stated on the group model coq/Model/Group.v with the proofs of Proofs/GroupProofs.v; that model is tied to the implementation by C12's check, not by this one"]
ASSUMPTIONS = ["data values are abstracted away in the model (threshold/dropna take the kept mask as an argument): the clause 'one data row per timestamp' and, for objects other than group "
               "members, the equality 'rate = n / duration' are enforced by the oracle on the implementation only (the store model has no rows and no rate field; the theorems give "
               "'a non-empty well-formed series has a support of positive duration' (C04_rate_defined) and, on the group model, the group clause and the members' rate (C04_group_members))",
               "starting series (the two Tsd every history begins with) span a positive duration (the property's hypothesis); every LATER object - empty, one-sample, duplicate-timestamp, "
               "support-less - is fed to the operations as it comes",
               "operations not in the model (listed in coverage.ops_unmodelled) are exercised on the implementation with the well-formedness oracle only",
               "an exception produces no object and is therefore outside C04's statement: exceptions of unmodelled calls are counted per call (distribution exception:<family>/<call>) and the "
               "other calls of the same operation are still checked; an exception of a MODELLED operation is a disagreement with the model",
               "IntervalSet([], []).time_span() raises IndexError while the model returns the empty set: the call is not made on an empty set (counted as skipped:time_span_of_empty_set)",
               "the order of a TsGroup's keys is C12's clause and is not part of this oracle"]


def _nap():
    import pynapple as nap
    return nap


def run(res, tier, seed):
    nap = _nap()
    warnings.simplefilter("ignore")
    nh = 500 if tier == "quick" else 5000
    length = 12 if tier == "quick" else 40
    res.rule = ("histories: %d seeded random operation sequences of length %d over a store of live objects (16 modelled operation kinds: constructors incl. malformed interval input, "
                "restrict, get, count, value_from, threshold, dropna - also on empty series -, support, union/intersect/set_diff, time_span, drop_short, merge_close) executed on the "
                "implementation and on the extracted state machine, abstract states (timestamps, support) compared after EVERY step; %d unmodelled operation families (each a list of "
                "separately guarded public calls) interleaved on the implementation. Their input is ANY series of the store - Ts, Tsd, TsdFrame or TsdTensor, results of earlier "
                "operations included, of any length (empty, one sample, duplicates) and any support (empty, one or several intervals) - half of the time re-cast to another of the four "
                "classes through the public constructor; one family builds timestamps and support edges off the lattice (edges on, 1 ns, 0.5 us and 1 us away from samples; touching intervals); "
                "groups are built with an explicit and with the default (union) support. The well-formedness statement (sorted, one row per timestamp, inside a canonical support, "
                "rate = n / duration, non-empty group members on the group support) is evaluated on every object produced (count: objects_checked). "
                "non-trivial = a step whose result has >= 1 sample or interval; distinct = (history id, step)" % (nh, length, len(set(H.UNMODELLED))))
    lines, runs = [], []
    opk = {}
    for hid in range(nh):
        r = H.run_history(nap, seed, hid, length, 0.5)
        runs.append(r)
        lines.append("history\t" + "\t".join(r["codes"]))
        for c in r["codes"]:
            opk[c.split()[0]] = opk.get(c.split()[0], 0) + 1
        for u in r["unmodelled"]:
            res.count("unmodelled=" + u)
        for i in r["unmodelled_inputs"]:
            if i:
                res.count("unmodelled_input_class=" + i["cls"])
                res.count("unmodelled_input_len=" + i["len"])
                res.count("unmodelled_input_support_intervals=" + i["support"])
                if i["dup"]:
                    res.count("unmodelled_input_with_duplicate_timestamps")
        for sk in r["skipped"]:
            res.count("skipped:" + sk)
        res.count("objects_checked", r["n_checked"])
    out = C.run_model(lines)
    for hid, (r, mo) in enumerate(zip(runs, out)):
        mods = [H.norm_abs(x) for x in mo.split("|")] if mo else []
        for step, a in enumerate(r["abstracts"]):
            res.case((hid, step), nontrivial=len(a.split()) > 2)
            if step < len(mods) and mods[step] != a:
                res.disagreements.append({"op": r["codes"][step], "input": {"history": r["codes"][: step + 1], "seed": [seed, hid]}, "impl": a, "model": mods[step]})
                break
        for (label, w, code), k in zip(r["wf"], r["wf_keys"]):
            # key: the call (op = the library function / sub-call, family = the operation family of the history, variant), the clause of the statement that fails, the class
            # of the result, and the precise trigger of the known zero-span quirk: the RESULT is a non-empty series whose timestamps all coincide under an EMPTY support
            # (zero_span_default_support) and the INPUT of the call already had coinciding timestamps (zero_span_input; None for modelled operations)
            key = dict(k)
            key["part"] = "well-formed"
            res.violations.append({"key": key, "what": "an object reachable through the API is not well formed (%s, a %s): %s" % (label, k["result"], w),
                                   "input": {"history": r["codes"], "seed": [seed, hid], "at": label}})
        for label, e in r["exc"]:
            # an exception produces no object: outside C04's statement (well-formedness of what IS produced); counted for the record, per call
            res.count("exception:" + label.split(":", 1)[-1])
            if label.startswith("op"):
                res.disagreements.append({"op": label, "what": "a modelled operation raised on the implementation: " + e,
                                          "input": {"history": r["codes"], "seed": [seed, hid]}})
        if hid < 2:
            res.sample({"history": r["codes"], "states": r["abstracts"][:6]})
    for k, v in opk.items():
        res.count("op=" + k, v)
    res.extra["ops_modelled"] = sorted(opk)
    res.extra["ops_unmodelled"] = H.UNMODELLED
    res.traces = nh


def search(res, seed):
    r2 = C.Result()
    run(r2, "thorough", seed)
    return r2.violations[0] if r2.violations else None


def replay(payload):
    nap = _nap()
    warnings.simplefilter("ignore")
    v = payload.get("violation") or (payload.get("disagreements") or [{}])[0]
    inp = v.get("input", {})
    seed, hid = inp.get("seed", [0, 0])
    n = len(inp.get("history", [])) or 12
    r = H.run_history(nap, seed, hid, max(n, 12), 0.5)
    print("history", r["codes"])
    print("well-formedness failures:", r["wf"])
    print("well-formedness failure keys:", r["wf_keys"])
    print("exceptions (no object produced; only those of modelled operations count):", r["exc"])
    return 1 if r["wf"] or any(label.startswith("op") for label, _ in r["exc"]) else 0
