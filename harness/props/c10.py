"""C10 operations never modify their arguments; containers reject in-place writes."""
import os
import random
import shutil
import warnings

import numpy as np
import pandas as pd

import common as C
import gen as G
import history as H

LEVEL = "proof"
DRIVERS = []
TRUSTED = ["heap frame theorems coq/Proofs/HeapProofs.v are RELATIVE to effect summaries (every operation writes only what it allocates); the summaries are validated on every run by deep "
           "snapshots of every live object and every caller-supplied array around every call of every history (this file)",
           "translator tools/gen_sites.py -> coq/Gen/Sites.v: guard table and in-place-site table with target provenance, checked by forallb/vm_compute (Proofs/SitesChecks.v)"]
ASSUMPTIONS = ["'reject assignment' is read at the container API (ep[0,0]=x, ep.start=x, tsd.index[0]=x, tsd.rate=x, ...); the raw ndarrays handed out by .values/.start/.t are writable NumPy "
               "arrays (documented NumPy aliasing, observation in DESIGN.md section 8)",
               "Tsd(t, d) built without a time_support keeps the caller's array d (documented): item assignment on the series is then visible in d"]


def _nap():
    import pynapple as nap
    return nap


def expect_raises(res, label, f):
    res.evaluations += 1
    try:
        f()
    except (RuntimeError, AttributeError, TypeError, ValueError, IndexError, KeyError):
        return
    res.violations.append({"key": {"op": label, "part": "accepted_write"}, "what": "an assignment that must be rejected was accepted: " + label, "input": {"case": label}})


def run(res, tier, seed):
    nap = _nap()
    warnings.simplefilter("ignore")
    nh = 120 if tier == "quick" else 1500
    length = 12 if tier == "quick" else 30
    res.rule = ("(a) %d seeded histories (length %d) of 16 modelled + 25 unmodelled public operations with a deep snapshot of EVERY live object (timestamps, values, support, columns, keys, "
                "metadata) before and after EVERY call, so that aliasing created by earlier results is exposed; (b) caller-supplied arrays/kernels/frames snapshotted around constructors, "
                "convolve/smooth/filters, correlograms, tuning curves, decoding, perievent, spectrum, randomisation, save; (c) every container write that must be rejected; (d) item "
                "assignment / set_info / metadata copies are local to the addressed object. non-trivial = a call with >= 1 live object; distinct = (history, step)" % (nh, length))
    # (a) histories with snapshots
    for hid in range(nh):
        r = H.run_history(nap, seed + 77, hid, length, 0.7, with_snapshots=True)
        for step in range(len(r["codes"])):
            res.case(("hist", hid, step), nontrivial=True)
        for u in r["unmodelled"]:
            res.count("unmodelled=" + u)
            res.evaluations += 1
        for label, idx in r["snap"]:
            res.violations.append({"key": {"op": label.split(":")[-1], "part": "argument_modified"}, "what": "a live object changed across a call that is not a mutator (%s, object #%d)" % (label, idx),
                                   "input": {"history": r["codes"], "seed": [seed + 77, hid], "at": label}})
        if hid == 0:
            res.sample({"history": r["codes"][:8], "unmodelled": r["unmodelled"][:5]})
    # (b) caller-supplied arrays
    rng = random.Random(seed * 31 + 4)
    scratch = os.path.join(C.CACHE, "c10_scratch")
    os.makedirs(scratch, exist_ok=True)
    try:
        for rep in range(6 if tier == "quick" else 60):
            n = rng.randint(20, 60)
            t = np.sort(np.array(rng.sample(range(0, 4000), n), dtype=float) / 100.0)
            d = np.arange(n, dtype=float) + 1
            d2 = np.arange(2 * n, dtype=float).reshape(n, 2)
            s = np.array([0.0, 15.0, 30.0]); e = np.array([10.0, 25.0, 40.0])
            kern = np.array([1.0, 2.0, 1.0])
            kern2 = np.array([[1.0, 0.5], [2.0, 1.0], [1.0, 0.5]])
            tc = pd.DataFrame(np.array([[1.0, 3.0], [5.0, 2.0], [2.0, 7.0]]), index=np.array([0.5, 1.5, 2.5]), columns=[0, 1])
            feat_v = np.mod(np.arange(n), 3).astype(float) + 0.5
            dct = {0: t.copy(), 1: t[::2].copy()}
            cut = np.array([2.0, 8.0])
            caller = {"t": t, "d": d, "d2": d2, "s": s, "e": e, "kern": kern, "kern2": kern2, "tc": tc, "feat_v": feat_v, "dct0": dct[0], "dct1": dct[1], "cut": cut}
            before = {k: (v.copy(deep=True) if isinstance(v, pd.DataFrame) else v.copy()) for k, v in caller.items()}
            ep = nap.IntervalSet(s, e)
            x = nap.Tsd(t, d, time_support=ep)
            fr = nap.TsdFrame(t, d2, time_support=ep, columns=["a", "b"])
            g = nap.TsGroup(dct, time_support=ep)
            feat = nap.Tsd(t, feat_v, time_support=ep)
            reg = nap.Tsd(np.arange(0, 40, 0.01), np.sin(np.arange(4000) / 9.0))
            live = [ep, x, fr, g, feat, reg]
            snaps = [H.snapshot(nap, o) for o in live]
            calls = {
                "convolve": lambda: (x.convolve(kern), fr.convolve(kern2), x.convolve(kern, ep=ep, trim="left")),
                "smooth": lambda: x.smooth(0.5, size_factor=5),
                "filters": lambda: (nap.apply_lowpass_filter(reg, 5.0, mode="sinc"), nap.apply_highpass_filter(reg, 5.0, mode="sinc"), nap.apply_bandpass_filter(reg, cut, mode="sinc"),
                                    nap.apply_bandstop_filter(reg, cut, mode="sinc"), nap.apply_lowpass_filter(reg, 5.0, mode="butter"), nap.apply_bandpass_filter(reg, cut, mode="butter"),
                                    nap.get_filter_frequency_response(cut, 100.0, "bandpass", "sinc"), nap.get_filter_frequency_response(cut, 100.0, "bandpass", "butter")),
                "correlograms": lambda: (nap.compute_autocorrelogram(g, 0.5, 2.0), nap.compute_crosscorrelogram(g, 0.5, 2.0), nap.compute_eventcorrelogram(g, nap.Ts(t[::3]), 0.5, 2.0)),
                "tuning": lambda: (nap.compute_1d_tuning_curves(g, feat, 3), nap.compute_discrete_tuning_curves(g, {"a": ep}), nap.compute_1d_tuning_curves_continuous(fr, feat, 3)),
                "decode": lambda: nap.decode_1d(tc, g, ep, 1.0),
                "perievent": lambda: (nap.compute_perievent(x, nap.Ts(t[::4]), minmax=(-1.0, 1.0)), nap.compute_perievent_continuous(reg, nap.Ts(t[::4]), minmax=(-0.05, 0.05))),
                "spectrum": lambda: (nap.compute_fft(reg), nap.compute_power_spectral_density(reg), nap.compute_mean_power_spectral_density(reg, 5.0)),
                "randomize": lambda: (nap.shift_timestamps(g, 0.0, 5.0), nap.jitter_timestamps(g, 0.1), nap.resample_timestamps(g), nap.shuffle_ts_intervals(g)),
                "set_ops": lambda: (ep.union(ep), ep.intersect(ep), ep.set_diff(ep), ep.split(3.0), ep.merge_close_intervals(6.0), ep.drop_short_intervals(1.0), ep.in_interval(x)),
                "queries": lambda: (x.restrict(ep), x.count(1.0, ep), x.bin_average(1.0), x.value_from(feat, ep), x.interpolate(feat, ep), x.threshold(5.0), x.dropna(), x.get(3.0, 20.0),
                                    g.restrict(ep), g.count(1.0), g.value_from(feat), g.to_tsd(), g[[1]], fr[["b"]], fr.loc["a"], np.sqrt(x), x * 2 + fr[:, 0].values, np.concatenate((x.get(0, 9), x.get(15, 24)))),
                "save": lambda: (x.save(os.path.join(scratch, "x.npz")), fr.save(os.path.join(scratch, "fr.npz")), g.save(os.path.join(scratch, "g.npz")), ep.save(os.path.join(scratch, "ep.npz"))),
            }
            st = np.random.get_state()
            np.random.seed(rng.randrange(2**31))
            try:
                for name, f in calls.items():
                    res.case(("caller", rep, name), nontrivial=True)
                    try:
                        f()
                    except Exception as ex:
                        res.count("exception:" + name)
                    for k, v in caller.items():
                        same = v.equals(before[k]) if isinstance(v, pd.DataFrame) else np.array_equal(v, before[k], equal_nan=True)
                        if not same:
                            res.violations.append({"key": {"op": name, "part": "caller_array_modified", "array": k}, "what": "a caller-supplied array was modified by " + name,
                                                   "input": {"call": name, "array": k}})
                            caller[k][...] = before[k] if not isinstance(v, pd.DataFrame) else v
                    for o, sn in zip(live, snaps):
                        if not H.snap_equal(sn, H.snapshot(nap, o)):
                            res.violations.append({"key": {"op": name, "part": "argument_modified"}, "what": "an argument object was modified by " + name,
                                                   "input": {"call": name, "object": type(o).__name__}})
            finally:
                np.random.set_state(st)
        # (c) rejected writes
        ep = nap.IntervalSet([0.0, 10.0], [5.0, 15.0], metadata={"lab": [1, 2]})
        x = nap.Tsd(np.arange(10.0), np.arange(10.0))
        fr = nap.TsdFrame(np.arange(10.0), np.arange(20.0).reshape(10, 2), columns=["a", "b"], metadata={"m": [1, 2]})
        ts = nap.Ts(np.arange(10.0))
        g = nap.TsGroup({0: ts, 1: nap.Ts(np.arange(5.0))}, metadata={"lab": [1, 2]})

        def set_(o, name, v):
            return lambda: setattr(o, name, v)
        rej = {
            "ep[0,0]=x": lambda: ep.__setitem__((0, 0), 3.0), "ep[0]=x": lambda: ep.__setitem__(0, (1.0, 2.0)), "ep['start']=x": lambda: ep.__setitem__("start", np.array([1.0, 11.0])),
            "ep['end']=x": lambda: ep.__setitem__("end", np.array([6.0, 16.0])),
            "ep.start=x": set_(ep, "start", np.array([1.0, 2.0])), "ep.end=x": set_(ep, "end", np.array([1.0, 2.0])), "ep.values=x": set_(ep, "values", np.zeros((2, 2))),
            "ep.index=x": set_(ep, "index", np.array([5, 6])), "ep.columns=x": set_(ep, "columns", ["a", "b"]),
            "tsd.index[0]=x": lambda: x.index.__setitem__(0, 5.0), "tsd.index=x": set_(x, "index", np.arange(10.0)), "tsd.rate=x": set_(x, "rate", 3.0),
            "tsd.time_support=x": set_(x, "time_support", ep), "tsd.values=x": set_(x, "values", np.zeros(10)), "tsd.t=x": set_(x, "t", np.zeros(10)),
            "ts.index=x": set_(ts, "index", np.arange(10.0)), "ts.time_support=x": set_(ts, "time_support", ep), "ts.rate=x": set_(ts, "rate", 1.0),
            "frame.columns=x": set_(fr, "columns", ["c", "d"]), "frame.time_support=x": set_(fr, "time_support", ep), "frame.index=x": set_(fr, "index", np.arange(10.0)),
            "frame.rate=x": set_(fr, "rate", 1.0), "frame.values=x": set_(fr, "values", np.zeros((10, 2))),
            "group.time_support=x": set_(g, "time_support", ep), "group.index=x": set_(g, "index", np.array([4, 5])), "group.rate=x": set_(g, "rate", np.array([1.0, 2.0])),
            "group.data=x": set_(g, "data", {}), "group[0]=x": lambda: g.__setitem__(0, ts), "group['rate']=x": lambda: g.__setitem__("rate", [1.0, 2.0]),
        }
        for label, f in rej.items():
            expect_raises(res, label, f)
        # nothing changed through the rejected writes
        if ep.values.tolist() != [[0.0, 5.0], [10.0, 15.0]] or list(x.t) != list(np.arange(10.0)) or list(fr.columns) != ["a", "b"] or list(g.keys()) != [0, 1]:
            res.violations.append({"key": {"op": "rejected_write", "part": "state_changed"}, "what": "a rejected write nevertheless changed the object", "input": {}})
        # (d) sanctioned mutators are local
        ep2 = nap.IntervalSet([0.0, 20.0], [9.0, 29.0])
        base = nap.Tsd(np.arange(30.0), np.arange(30.0), time_support=nap.IntervalSet(0.0, 29.0))
        derived = [base.restrict(ep2), base.get(2.0, 20.0), base[3:9], base * 1.0, base.bin_average(2.0), base.value_from(base)]
        snaps = [H.snapshot(nap, o) for o in [base] + derived]
        for k, dobj in enumerate(derived):
            res.evaluations += 1
            s_before = [H.snapshot(nap, o) for o in [base] + derived]
            dobj[0] = -99.0
            for j, o in enumerate([base] + derived):
                if o is dobj:
                    continue
                if not H.snap_equal(s_before[j], H.snapshot(nap, o)):
                    res.violations.append({"key": {"op": "setitem", "part": "visible_through_other_object"}, "what": "item assignment on a derived series changed another object",
                                           "input": {"derived": k, "other": j}})
        # item assignment into a member of a SELECTED group must not be visible in the parent group
        gt = nap.TsGroup({0: nap.Tsd(np.arange(6.0), np.arange(6.0) + 1), 2: nap.Tsd(np.arange(6.0) + 0.5, np.arange(6.0) + 10), 5: nap.Tsd(np.arange(4.0), np.arange(4.0) + 20)},
                         time_support=nap.IntervalSet(0.0, 10.0), metadata={"cat": [1, 1, 2]})
        sels = {"keys": lambda: gt[[0, 2]], "mask": lambda: gt[np.array([True, False, True])], "getby_threshold": lambda: gt.getby_threshold("rate", 0.0),
                "getby_category": lambda: gt.getby_category("cat")[1], "restrict": lambda: gt.restrict(nap.IntervalSet(0.0, 10.0)), "get": lambda: gt.get(0.0, 9.0)}
        for sname, f in sels.items():
            res.evaluations += 1
            before = H.snapshot(nap, gt)
            sub = f()
            k0 = list(sub.keys())[0]
            sub[k0][1] = -12345.0
            if not H.snap_equal(before, H.snapshot(nap, gt)):
                res.violations.append({"key": {"op": "setitem", "part": "visible_through_parent_group", "selection": sname},
                                       "what": "item assignment into a member of a selected/derived TsGroup changed the parent group's member", "input": {"selection": sname}})
                gt = nap.TsGroup({0: nap.Tsd(np.arange(6.0), np.arange(6.0) + 1), 2: nap.Tsd(np.arange(6.0) + 0.5, np.arange(6.0) + 10), 5: nap.Tsd(np.arange(4.0), np.arange(4.0) + 20)},
                                 time_support=nap.IntervalSet(0.0, 10.0), metadata={"cat": [1, 1, 2]})
        m = fr.metadata
        m["m"] = [7, 8]
        if list(fr.metadata["m"]) != [1, 2]:
            res.violations.append({"key": {"op": "metadata", "part": "copy"}, "what": "the metadata property does not return a copy", "input": {}})
        g2 = g[[0, 1]]
        g2.set_info(extra=[5, 6])
        if "extra" in g.metadata.columns:
            res.violations.append({"key": {"op": "set_info", "part": "visible_through_other_object"}, "what": "set_info on a selected group changed the original group", "input": {}})
        fr2 = fr[["a", "b"]]
        fr2.set_info(z=[1, 2])
        if "z" in fr.metadata.columns:
            res.violations.append({"key": {"op": "set_info", "part": "visible_through_other_object"}, "what": "set_info on a derived frame changed the original frame", "input": {}})
        ep3 = ep[[0, 1]]
        ep3.set_info(w=[1, 2])
        if "w" in ep.metadata.columns:
            res.violations.append({"key": {"op": "set_info", "part": "visible_through_other_object"}, "what": "set_info on a derived IntervalSet changed the original", "input": {}})
        res.evaluations += 4
    finally:
        shutil.rmtree(scratch, ignore_errors=True)


def search(res, seed):
    r2 = C.Result()
    run(r2, "thorough", seed)
    return r2.violations[0] if r2.violations else None


def replay(payload):
    nap = _nap()
    warnings.simplefilter("ignore")
    v = payload.get("violation") or {}
    inp = v.get("input", {})
    if "seed" in inp:
        seed, hid = inp["seed"]
        r = H.run_history(nap, seed, hid, max(12, len(inp.get("history", []))), 0.7, with_snapshots=True)
        print("history", r["codes"])
        print("snapshot failures:", r["snap"])
        return 1 if r["snap"] else 0
    r = C.Result()
    run(r, "quick", 0)
    hits = [x for x in r.violations if x["key"] == v.get("key")]
    print("violations with the same key on this tree:", hits[:3])
    return 1 if hits else 0
