"""C10 operations never modify their arguments; containers reject in-place writes."""
import os
import random
import shutil
import warnings

import numpy as np
import pandas as pd

import common as C
import gen as G
import history as H

LEVEL = "proof"
DRIVERS = []
TRUSTED = ["heap frame theorems coq/Proofs/HeapProofs.v are RELATIVE to effect summaries (every operation writes only what it allocates); the summaries are validated on every run by deep "
           "snapshots of every live object and every caller-supplied array around every call of every history (this file)",
           "translator tools/gen_sites.py -> coq/Gen/Sites.v: guard table (__setattr__/__setitem__ only: deletion and the inherited dict mutators of TsGroup have no row; they are "
           "exercised by part (c) of this file) and in-place-site table with target provenance, checked by forallb/vm_compute (Proofs/SitesChecks.v)"]
ASSUMPTIONS = ["'reject assignment' is read at the container API: attribute assignment AND deletion of the public reserved attributes, item assignment into IntervalSet / time index / TsGroup "
               "keys, and every inherited dict mutator of TsGroup (del, pop, popitem, clear, |=, update, setdefault); the raw ndarrays / dict handed out by .values/.start/.t/.index of a "
               "TsGroup/.data are writable Python objects (documented NumPy aliasing, observation in DESIGN.md section 8) and are not covered",
               "Tsd(t, d) built without a time_support keeps the caller's array d (documented): item assignment on the series is then visible in d",
               "'only on the object addressed': an object that IS the addressed one (same Python object reached through another name, e.g. the IntervalSet returned by .time_support, or "
               "TsGroup.merge_group(g) returning g) is not 'another object', and the series returned by g[k] is the member of g itself (g shows the write); every other live object must be "
               "unchanged, in particular a second group obtained from g by a selection"]

REJECT = (RuntimeError, AttributeError, TypeError, ValueError, IndexError, KeyError)


def _nap():
    import pynapple as nap
    return nap


def state(nap, o):
    """deep snapshot (history.snapshot + the redundant views of keys / index / rate) that survives a broken object"""
    try:
        s = H.snapshot(nap, o)
        if isinstance(o, nap.TsGroup):
            return s + (tuple(o.data.keys()), np.array(o.index, copy=True), tuple(o._metadata.index), len(o))
        if isinstance(o, nap.IntervalSet):
            return s + (np.array(o.index, copy=True), tuple(o.columns), np.array(o.start, copy=True), np.array(o.end, copy=True))
        return s + (np.array([o.rate], dtype=float), np.array(o.index.values, copy=True))
    except Exception as ex:
        return ("BROKEN", type(ex).__name__)


def is_series(nap, o):
    return isinstance(o, (nap.Tsd, nap.TsdFrame, nap.TsdTensor))


# ------------------------------------------------------------------------------------------------------
# (c) writes that must be rejected
def fresh(nap):
    ep = nap.IntervalSet([0.0, 10.0], [5.0, 15.0], metadata={"lab": [1, 2]})
    return {"ep": ep,
            "tsd": nap.Tsd(np.arange(10.0), np.arange(10.0)),
            "ts": nap.Ts(np.arange(10.0)),
            "frame": nap.TsdFrame(np.arange(10.0), np.arange(20.0).reshape(10, 2), columns=["a", "b"], metadata={"m": [1, 2]}),
            "tensor": nap.TsdTensor(np.arange(10.0), np.arange(40.0).reshape(10, 2, 2)),
            "group": nap.TsGroup({0: nap.Ts(np.arange(10.0)), 1: nap.Ts(np.arange(5.0)), 4: nap.Ts(np.arange(3.0))}, metadata={"lab": [1, 2, 3]}),
            "other_ep": nap.IntervalSet(0.0, 100.0)}


def rejected_writes(nap):
    """list of (label, container, kind, f(objs)); kind: assign (attribute), item, delete (attribute), dict_api (inherited UserDict mutators)"""
    out = []

    def A(c, name, v):
        out.append(("%s.%s=x" % (c, name), c, "assign", lambda o: setattr(o[c], name, v(o) if callable(v) else v)))

    def D(c, name):
        out.append(("del %s.%s" % (c, name), c, "delete", lambda o: delattr(o[c], name)))

    def I(label, c, f, kind="item"):
        out.append((label, c, kind, f))
    oep = lambda o: o["other_ep"]
    for name, v in (("start", np.array([1.0, 2.0])), ("end", np.array([1.0, 2.0])), ("values", np.zeros((2, 2))), ("index", np.array([5, 6])), ("columns", ["a", "b"]),
                    ("shape", (2, 2)), ("starts", None), ("ends", None), ("metadata", pd.DataFrame(index=[0, 1])), ("metadata_index", np.array([5, 6])), ("nap_class", "x")):
        A("ep", name, v)
    for c, n in (("tsd", 10), ("ts", 10), ("frame", 10), ("tensor", 10)):
        for name, v in (("index", np.arange(float(n))), ("rate", 3.0), ("time_support", oep), ("t", np.zeros(n)), ("shape", (n,)), ("nap_class", "x")):
            A(c, name, v)
    A("tsd", "values", np.zeros(10)); A("tsd", "d", np.zeros(10))
    A("frame", "values", np.zeros((10, 2))); A("frame", "d", np.zeros((10, 2))); A("frame", "columns", ["c", "d"])
    A("frame", "metadata", pd.DataFrame(index=["a", "b"])); A("frame", "metadata_index", ["c", "d"])
    A("tensor", "values", np.zeros((10, 2, 2))); A("tensor", "d", np.zeros((10, 2, 2)))
    for name, v in (("time_support", oep), ("index", np.array([4, 5, 6])), ("rate", np.array([1.0, 2.0, 3.0])), ("rates", np.array([1.0, 2.0, 3.0])), ("data", {}),
                    ("metadata", pd.DataFrame(index=[0, 1, 4])), ("metadata_index", np.array([4, 5, 6])), ("nap_class", "x")):
        A("group", name, v)
    I("ep[0,0]=x", "ep", lambda o: o["ep"].__setitem__((0, 0), 3.0))
    I("ep[0]=x", "ep", lambda o: o["ep"].__setitem__(0, (1.0, 2.0)))
    I("ep['start']=x", "ep", lambda o: o["ep"].__setitem__("start", np.array([1.0, 11.0])))
    I("ep['end']=x", "ep", lambda o: o["ep"].__setitem__("end", np.array([6.0, 16.0])))
    I("ep.loc[0]=x", "ep", lambda o: o["ep"].loc.__setitem__(0, (1.0, 2.0)))
    I("del ep[0]", "ep", lambda o: o["ep"].__delitem__(0))
    for c in ("tsd", "ts", "frame", "tensor"):
        I("%s.index[0]=x" % c, c, (lambda c: lambda o: o[c].index.__setitem__(0, 5.0))(c))
        I("%s.index[:]=x" % c, c, (lambda c: lambda o: o[c].index.__setitem__(slice(None), 5.0))(c))
    I("group[0]=x", "group", lambda o: o["group"].__setitem__(0, o["ts"]))
    I("group[7]=x", "group", lambda o: o["group"].__setitem__(7, o["ts"]))
    I("group['rate']=x", "group", lambda o: o["group"].__setitem__("rate", [1.0, 2.0, 3.0]))
    I("group.set_info(rate=x)", "group", lambda o: o["group"].set_info(rate=[1.0, 2.0, 3.0]))
    # the dict interface TsGroup inherits from UserDict: every mutator changes the KEYS
    I("del group[0]", "group", lambda o: o["group"].__delitem__(0), "dict_api")
    I("group.pop(0)", "group", lambda o: o["group"].pop(0), "dict_api")
    I("group.popitem()", "group", lambda o: o["group"].popitem(), "dict_api")
    I("group.clear()", "group", lambda o: o["group"].clear(), "dict_api")
    I("group|={7:ts}", "group", lambda o: o["group"].__ior__({7: o["ts"]}), "dict_api")
    I("group|=group", "group", lambda o: o["group"].__ior__(nap.TsGroup({7: o["ts"]})), "dict_api")
    I("group.update({7:ts})", "group", lambda o: o["group"].update({7: o["ts"]}), "dict_api")
    I("group.update({0:ts})", "group", lambda o: o["group"].update({0: o["ts"]}), "dict_api")
    I("group.setdefault(7,ts)", "group", lambda o: o["group"].setdefault(7, o["ts"]), "dict_api")
    for c, names in (("ep", ("values", "index", "columns")), ("tsd", ("index", "values", "time_support", "rate")), ("ts", ("index", "time_support", "rate")),
                     ("frame", ("index", "values", "time_support", "rate", "columns")), ("tensor", ("index", "values", "time_support", "rate")),
                     ("group", ("data", "index", "time_support"))):
        for name in names:
            D(c, name)
    return out


def check_rejected(res, nap):
    for label, c, kind, f in rejected_writes(nap):
        o = fresh(nap)
        before = {k: state(nap, v) for k, v in o.items()}
        res.case(("reject", label), nontrivial=True)
        res.count("reject_kind=" + kind)
        raised = False
        try:
            f(o)
        except REJECT:
            raised = True
        changed = sorted(k for k, v in o.items() if not H.snap_equal(before[k], state(nap, v)))
        if not raised:
            res.violations.append({"key": {"op": label, "part": "accepted_write", "kind": kind, "container": c, "state_changed": bool(changed)},
                                   "what": "a write that must be rejected was accepted: %s (objects changed: %s)" % (label, changed or "none"), "input": {"case": label, "changed": changed}})
        elif changed:
            res.violations.append({"key": {"op": label, "part": "state_changed_by_rejected_write", "kind": kind, "container": c},
                                   "what": "%s raised, but only after changing %s" % (label, changed), "input": {"case": label, "changed": changed}})


# ------------------------------------------------------------------------------------------------------
# (d) sanctioned mutators are local
def derivations(nap):
    ep2 = nap.IntervalSet([0.0, 20.0], [9.0, 29.0])
    feat = nap.Tsd(np.arange(0.0, 30.0, 0.5), np.arange(60.0))
    idx = [5, 1, 7]
    mask = np.arange(30) % 2 == 0
    k3 = np.array([1.0, 2.0, 1.0])
    common = {"restrict": lambda p: p.restrict(ep2), "restrict_own_support": lambda p: p.restrict(p.time_support), "get": lambda p: p.get(2.0, 20.0), "[3:9]": lambda p: p[3:9],
              "[:]": lambda p: p[:], "[::2]": lambda p: p[::2], "[::-1]": lambda p: p[::-1], "[mask]": lambda p: p[mask], "[list]": lambda p: p[idx], "*1.0": lambda p: p * 1.0,
              "bin_average": lambda p: p.bin_average(2.0), "copy": lambda p: p.copy(), "np.copy": lambda p: np.copy(p), "np.positive": lambda p: np.positive(p), "np.squeeze": lambda p: np.squeeze(p),
              "np.real": lambda p: np.real(p), "astype": lambda p: p.astype(float), "dropna": lambda p: p.dropna(), "np.nan_to_num": lambda p: np.nan_to_num(p),
              "np.split[0]": lambda p: np.split(p, 2)[0], "np.array_split[1]": lambda p: np.array_split(p, 2)[1], "np.clip": lambda p: np.clip(p, -1e9, 1e9),
              "[get_slice]": lambda p: p[p.get_slice(0, 29)], "interpolate": lambda p: p.interpolate(feat), "convolve": lambda p: p.convolve(k3), "smooth": lambda p: p.smooth(1.0, size_factor=3),
              "np.concatenate": lambda p: np.concatenate((p[0:10], p[10:30])), "np.moveaxis(0,0)": lambda p: np.moveaxis(p, 0, 0), "np.swapaxes(0,0)": lambda p: np.swapaxes(p, 0, 0)}
    tsd = dict(common)
    tsd.update({"value_from": lambda p: p.value_from(p), "np.reshape": lambda p: np.reshape(p, (30,)), "np.ravel": lambda p: np.ravel(p), "np.expand_dims": lambda p: np.expand_dims(p, 1),
                "np.transpose": lambda p: np.transpose(p), "[:,None]": lambda p: p[:, None], "np.atleast_1d": lambda p: np.atleast_1d(p), "threshold": lambda p: p.threshold(-1.0),
                "[bool Tsd]": lambda p: p[p > -1.0], "np.flip": lambda p: np.flip(p)})
    frame = dict(common)
    frame.update({"[:,0]": lambda p: p[:, 0], "[:,0:1]": lambda p: p[:, 0:1], "['a']": lambda p: p["a"], "[['a','b']]": lambda p: p[["a", "b"]], "[['b','a']]": lambda p: p[["b", "a"]],
                  ".loc['a']": lambda p: p.loc["a"], ".loc[['a']]": lambda p: p.loc[["a"]], "np.reshape": lambda p: np.reshape(p, (30, 2)), "np.reshape3": lambda p: np.reshape(p, (30, 2, 1)),
                  "np.expand_dims": lambda p: np.expand_dims(p, 2), "np.swapaxes(1,1)": lambda p: np.swapaxes(p, 1, 1), "np.flip(1)": lambda p: np.flip(p, 1), "[:,[0,1]]": lambda p: p[:, [0, 1]],
                  "[:,::-1]": lambda p: p[:, ::-1], "np.hsplit[0]": lambda p: np.hsplit(p, 2)[0], "[:,bool]": lambda p: p[:, np.array([True, True])], "value_from": lambda p: feat.value_from(p),
                  "groupby_apply": lambda p: p.groupby_apply("m", lambda z: z)[1]})
    tensor = dict(common)
    tensor.update({"[:,0]": lambda p: p[:, 0], "[:,0,0]": lambda p: p[:, 0, 0], "[:,:,0:1]": lambda p: p[:, :, 0:1], "np.reshape": lambda p: np.reshape(p, (30, 4)),
                   "np.reshape3": lambda p: np.reshape(p, (30, 4, 1)), "np.swapaxes(1,2)": lambda p: np.swapaxes(p, 1, 2), "np.transpose(0,2,1)": lambda p: np.transpose(p, (0, 2, 1)),
                   "np.moveaxis(1,2)": lambda p: np.moveaxis(p, 1, 2), "np.sum(.,2)": lambda p: np.sum(p, 2)})
    sup = nap.IntervalSet(0.0, 29.0)
    parents = {"Tsd": lambda: nap.Tsd(np.arange(30.0), np.arange(30.0), time_support=sup),
               "TsdFrame": lambda: nap.TsdFrame(np.arange(30.0), np.arange(60.0).reshape(30, 2), time_support=sup, columns=["a", "b"], metadata={"m": [1, 2]}),
               "TsdTensor": lambda: nap.TsdTensor(np.arange(30.0), np.arange(120.0).reshape(30, 2, 2), time_support=sup)}
    return parents, {"Tsd": tsd, "TsdFrame": frame, "TsdTensor": tensor}


def check_setitem_local(res, nap):
    parents, forms = derivations(nap)
    for cls, mk in parents.items():
        base = mk()
        names, derived = [], []
        for name, f in forms[cls].items():
            try:
                dobj = f(base)
            except Exception:
                res.count("exception:derive:%s:%s" % (cls, name))
                res.disagreements.append({"op": "derive", "what": "harness: the derivation %s of a %s raised, its locality check is vacuous" % (name, cls)})
                continue
            if not is_series(nap, dobj) or not len(dobj):
                res.count("derivation_returns_no_series:%s:%s" % (cls, name))
                continue
            names.append(name); derived.append(dobj)
        objs = [base] + derived
        for k, dobj in enumerate(derived):
            res.case(("setitem_local", cls, names[k]), nontrivial=True)
            s_before = [state(nap, o) for o in objs]
            dobj[0] = -99.0
            for j, o in enumerate(objs):
                if o is dobj:
                    continue
                if not H.snap_equal(s_before[j], state(nap, o)):
                    other = "parent" if j == 0 else "sibling:" + names[j - 1]
                    res.violations.append({"key": {"op": "setitem", "part": "visible_through_other_object", "parent": cls, "derivation": names[k], "other_is_parent": j == 0},
                                           "what": "item assignment on %s(%s) changed another object (%s)" % (names[k], cls, other),
                                           "input": {"parent": cls, "derivation": names[k], "other": other}})
        # the other direction: a write into the parent must not reach the derived object
        base2 = mk()
        for name, f in forms[cls].items():
            try:
                dobj = f(base2)
            except Exception:
                continue
            if not is_series(nap, dobj) or not len(dobj):
                continue
            res.evaluations += 1
            sb = state(nap, dobj)
            base2[:] = base2.values * 0 - 7.0
            if not H.snap_equal(sb, state(nap, dobj)):
                res.violations.append({"key": {"op": "setitem", "part": "visible_through_other_object", "parent": cls, "derivation": name, "other_is_parent": False, "write_into": "parent"},
                                       "what": "item assignment on a %s changed the object derived from it by %s" % (cls, name), "input": {"parent": cls, "derivation": name}})
            base2 = mk()


def check_group_members_local(res, nap):
    def mk():
        return nap.TsGroup({0: nap.Tsd(np.arange(6.0), np.arange(6.0) + 1), 2: nap.Tsd(np.arange(6.0) + 0.5, np.arange(6.0) + 10), 5: nap.Tsd(np.arange(4.0), np.arange(4.0) + 20)},
                           time_support=nap.IntervalSet(0.0, 10.0), metadata={"cat": [1, 1, 2]})
    other = nap.TsGroup({9: nap.Tsd(np.arange(5.0), np.arange(5.0))}, time_support=nap.IntervalSet(0.0, 10.0), metadata={"cat": [3]})
    sels = {"keys": lambda g: g[[0, 2]], "mask": lambda g: g[np.array([True, False, True])], "getby_threshold": lambda g: g.getby_threshold("rate", 0.0),
            "getby_category": lambda g: g.getby_category("cat")[1], "getby_intervals": lambda g: g.getby_intervals("rate", np.array([0.0, 100.0]))[0][0],
            "restrict": lambda g: g.restrict(nap.IntervalSet(0.0, 10.0)), "get": lambda g: g.get(0.0, 9.0), "groupby_apply": lambda g: g.groupby_apply("cat", lambda z: z)[1],
            "merge": lambda g: g.merge(other), "merge_group": lambda g: nap.TsGroup.merge_group(g, other), "value_from": lambda g: g.value_from(nap.Tsd(np.arange(10.0), np.arange(10.0))),
            "TsGroup(dict(g))": lambda g: nap.TsGroup(dict(g.items()), time_support=g.time_support)}
    for sname, f in sels.items():
        gt = mk()
        res.case(("member_local", sname), nontrivial=True)
        before = state(nap, gt)
        try:
            sub = f(gt)
            k0 = list(sub.keys())[0]
            sub[k0][1] = -12345.0
        except Exception:
            res.count("exception:selection:" + sname)
            res.disagreements.append({"op": "selection", "what": "harness: the group selection %s raised, its locality check is vacuous" % sname})
            continue
        if not H.snap_equal(before, state(nap, gt)):
            res.violations.append({"key": {"op": "setitem", "part": "visible_through_parent_group", "selection": sname},
                                   "what": "item assignment into a member of a selected/derived TsGroup changed the parent group's member", "input": {"selection": sname}})
        gt = mk()
        before = state(nap, gt)
        sub = f(gt)
        if isinstance(sub, nap.TsGroup):
            sub.set_info(extra=list(range(len(sub))))
            if not H.snap_equal(before, state(nap, gt)):
                res.violations.append({"key": {"op": "set_info", "part": "visible_through_other_object", "container": "TsGroup", "derivation": sname},
                                       "what": "set_info on a group derived by %s changed the original group" % sname, "input": {"selection": sname}})


def check_set_info_local(res, nap):
    o = fresh(nap)
    fr, ep = o["frame"], o["ep"]
    m = fr.metadata
    m["m"] = [7, 8]
    if list(fr.metadata["m"]) != [1, 2]:
        res.violations.append({"key": {"op": "metadata", "part": "copy"}, "what": "the metadata property does not return a copy", "input": {}})
    for cname, parent, forms in (
            ("TsdFrame", fr, {"[['a','b']]": lambda p: p[["a", "b"]], "[0:5]": lambda p: p[0:5], "restrict": lambda p: p.restrict(p.time_support), "get": lambda p: p.get(0, 5), "copy": lambda p: p.copy(),
                              "*1": lambda p: p * 1, "bin_average": lambda p: p.bin_average(2.0), "[:,[0,1]]": lambda p: p[:, [0, 1]], "np.abs": lambda p: np.abs(p),
                              "groupby_apply": lambda p: p.groupby_apply("m", lambda z: z)[1], "dropna": lambda p: p.dropna(), "smooth": lambda p: p.smooth(1.0, size_factor=3)}),
            ("IntervalSet", ep, {"[[0,1]]": lambda p: p[[0, 1]], "[0:2]": lambda p: p[0:2], "intersect": lambda p: p.intersect(p), "drop_short": lambda p: p.drop_short_intervals(0.1),
                                 "drop_long": lambda p: p.drop_long_intervals(100.0), "[mask]": lambda p: p[np.array([True, True])], "groupby_apply": lambda p: p.groupby_apply("lab", lambda z: z)[1],
                                 "split": lambda p: p.split(5.0), "union_empty": lambda p: p.union(nap.IntervalSet([], [])),
                                 "merge_close": lambda p: p.merge_close_intervals(0.1), "set_diff_empty": lambda p: p.set_diff(nap.IntervalSet([], []))})):
        for name, f in forms.items():
            res.case(("set_info_local", cname, name), nontrivial=True)
            before = state(nap, parent)
            try:
                dobj = f(parent)
                dobj.set_info(zz=list(range(len(dobj.metadata_index))))
                if "lab" in dobj.metadata_columns or "m" in dobj.metadata_columns:
                    col = "lab" if "lab" in dobj.metadata_columns else "m"
                    dobj.set_info(**{col: [77] * len(dobj.metadata_index)})
            except Exception:
                res.count("exception:set_info_derive:%s:%s" % (cname, name))
                res.disagreements.append({"op": "set_info", "what": "harness: set_info after the derivation %s of %s raised, its locality check is vacuous" % (name, cname)})
                continue
            if not H.snap_equal(before, state(nap, parent)):
                res.violations.append({"key": {"op": "set_info", "part": "visible_through_other_object", "container": cname, "derivation": name},
                                       "what": "set_info on a %s derived by %s changed the original" % (cname, name), "input": {"container": cname, "derivation": name}})


# ------------------------------------------------------------------------------------------------------
# (e) histories with mutators and with frames / tensors / groups as operands
EXTRA = ["make_frame", "make_tensor", "frame_ops", "frame_ops", "tensor_ops", "tensor_ops", "group_ops", "group_ops", "group_analyses", "group_analyses", "trial_tensors", "ep_ops"]


def apply_extra(R, name, rng):
    """operations on live TsdFrame / TsdTensor / TsGroup / IntervalSet operands; returns the list of results"""
    nap = R.nap
    live = R.objs + R.extra
    series = [o for o in live if isinstance(o, (nap.Tsd, nap.Ts)) and len(o) >= 2 and len(o.time_support)]
    frames = [o for o in live if isinstance(o, nap.TsdFrame) and len(o) >= 2 and o.shape[1] >= 1]
    tensors = [o for o in live if isinstance(o, nap.TsdTensor) and len(o) >= 2]
    groups = [o for o in live if isinstance(o, nap.TsGroup) and len(o) >= 2]
    eps = [o for o in live if isinstance(o, nap.IntervalSet) and len(o)]
    if not series:
        return []
    x = rng.choice(series)
    ep = rng.choice(eps) if eps else x.time_support
    b = (rng.choice([1, 2, 3]) * 2 * H.U2) / 1e9
    k3 = np.array([1.0, 2.0, 1.0])
    if name == "make_frame":
        v = np.arange(len(x), dtype=float)
        return [nap.TsdFrame(np.asarray(x.t), np.stack([v, v * 2 + 1], 1), time_support=x.time_support, columns=["a", "b"], metadata={"m": [1, 2]})]
    if name == "make_tensor":
        return [nap.TsdTensor(np.asarray(x.t), np.arange(4 * len(x), dtype=float).reshape(len(x), 2, 2), time_support=x.time_support)]
    if name == "frame_ops":
        if not frames:
            return []
        fr = rng.choice(frames)
        outs = [fr.restrict(ep), fr.bin_average(b, ep), fr[:, 0], fr[0:3], fr.get(float(fr.t[0]), float(fr.t[-1])), fr.dropna(), fr.interpolate(x, ep), np.sum(fr, 1), fr * 2 + 1,
                fr.convolve(k3), fr.count(b, ep), np.cumsum(fr, 0), fr[::-1], fr.copy(), fr.value_from(fr)]
        if np.all(np.diff(fr.t) > 0):
            outs.append(np.concatenate((fr[0:1], fr[1:]), 0))
        fr.as_dataframe(); fr.as_units("ms"); fr.metadata; fr.to_numpy(); fr.times("us")
        if "m" in fr.metadata_columns:
            outs += list(fr.groupby_apply("m", lambda z: z).values())
            fr.groupby("m"); fr.get_info("m")
        if fr.shape[1] >= 2:
            outs += [fr[:, [1, 0]], fr.loc[fr.columns[0]], np.hstack((fr, fr)) if False else fr[:, 1:]]
        return outs
    if name == "tensor_ops":
        if not tensors:
            return []
        te = rng.choice(tensors)
        return [te.restrict(ep), te.bin_average(b, ep), te[:, 0], te[:, 0, -1], te[0:3], np.mean(te, tuple(range(1, te.ndim))), np.sum(te, 1), te * 2, te.convolve(k3), te.count(b, ep), te.dropna(),
                te.get(float(te.t[0]), float(te.t[-1])), te.copy(), te.interpolate(x, ep), np.reshape(te, (len(te), -1)), np.swapaxes(te, 1, 2), te[::-1]]
    if name == "group_ops":
        if not groups:
            return []
        g = rng.choice(groups)
        outs = [g.count(b, ep), g.count(b), g.restrict(ep), g.value_from(x if isinstance(x, nap.Tsd) else nap.Tsd(np.asarray(x.t), np.arange(len(x), dtype=float), time_support=x.time_support)),
                g.to_tsd(), g.get(float(x.t[0]), float(x.t[-1])), g[g.rate >= 0], g[list(g.keys())[:1]], g.getby_threshold("rate", 0.0, ">="), g.trial_count(ep, b)]
        g.rates; g.metadata; g.keys(); g.values(); g.items(); g.get_info("rate"); g["rate"]
        cols = [c for c in g.metadata_columns if c != "rate"]
        if cols:
            c = cols[0]
            outs += [g.to_tsd(c)] + list(g.getby_category(c).values()) + list(g.groupby_apply(c, lambda z: z).values())
            g.groupby(c)
        outs += g.getby_intervals("rate", np.array([0.0, float(np.max(g.rate)) + 1.0]))[0]
        new_key = max(g.keys()) + 1
        extra = nap.TsGroup({new_key: nap.Ts(np.asarray(x.t))}, time_support=g.time_support, metadata={c: [g.metadata[c].iloc[0]] for c in cols})
        outs += [g.merge(extra), nap.TsGroup.merge_group(g, extra)]
        return outs
    if name == "group_analyses":
        if not groups:
            return []
        g = rng.choice(groups)
        xd = x if isinstance(x, nap.Tsd) else nap.Tsd(np.asarray(x.t), np.arange(len(x), dtype=float), time_support=x.time_support)
        feat = nap.Tsd(np.asarray(xd.t), (np.arange(len(xd)) % 3).astype(float) + 0.5, time_support=xd.time_support)
        feat2 = nap.TsdFrame(np.asarray(xd.t), np.stack([(np.arange(len(xd)) % 3).astype(float), (np.arange(len(xd)) % 2).astype(float)], 1), time_support=xd.time_support)
        R.extra += [feat, feat2]       # live from now on: snapshots of later calls cover them
        w = 2 * H.U2 / 1e9
        tc1 = nap.compute_1d_tuning_curves(g, feat, 3)
        tc2, xy = nap.compute_2d_tuning_curves(g, feat2, 2)
        outs = [nap.compute_event_trigger_average(g, xd, w, (w, w)), nap.compute_perievent(g, nap.Ts(np.asarray(x.t)[::2]), (-w, w))[list(g.keys())[0]],
                nap.build_tensor(g, ep, b) is None, nap.warp_tensor(g, ep, 3) is None]
        nap.compute_1d_mutual_info(tc1, feat); nap.compute_2d_mutual_info(tc2, feat2)
        nap.compute_autocorrelogram(g, w, 4 * w); nap.compute_crosscorrelogram(g, w, 4 * w); nap.compute_eventcorrelogram(g, nap.Ts(np.asarray(x.t)), w, 4 * w)
        nap.compute_discrete_tuning_curves(g, {"a": ep, "b": x.time_support})
        outs += [nap.decode_1d(tc1, g, ep, b)[0], nap.decode_2d(tc2, g, ep, b, xy)[0]]
        return outs
    if name == "trial_tensors":
        outs = []
        cand = frames + tensors + [o for o in series if isinstance(o, nap.Tsd)]
        if not cand:
            return []
        y = rng.choice(cand)
        y.to_trial_tensor(ep); nap.build_tensor(y, ep); nap.warp_tensor(y, ep, 3)
        y.trial_count(ep, b) if hasattr(y, "trial_count") else None
        if isinstance(y, nap.Tsd):
            lab = nap.Tsd(np.asarray(y.t), (np.arange(len(y)) % 3).astype(float), time_support=y.time_support)
            outs += [lab.to_tsgroup()]
        return outs
    if name == "ep_ops":
        e2 = rng.choice(eps) if eps else ep
        ep.get_intervals_center(); ep.time_span(); ep.as_units("ms"); ep.as_dataframe(); ep.tot_length(); ep.metadata; np.asarray(ep)
        outs = [ep[0], ep[[0]], ep.loc[[0]], ep.drop_long_intervals(b), ep.intersect(e2), ep.union(e2), ep.set_diff(e2), ep.split(b), ep.copy() if hasattr(ep, "copy") else ep[:]]
        return outs
    return []


def mutate(R, rng):
    """one sanctioned mutation of a random live object. returns (kind, target object, objects allowed to change, the object written into) or None"""
    nap = R.nap
    live = R.objs + R.extra
    cands = []
    for o in live:
        if is_series(nap, o) and len(o) >= 1:
            cands.append(("setitem", o))
            if len(o) >= 3:
                cands.append(("setitem_slice", o))
        if isinstance(o, nap.TsdFrame) and o.shape[1] >= 1:
            cands.append(("set_info", o)); cands.append(("setitem_column", o))
        if isinstance(o, nap.IntervalSet) and len(o):
            cands.append(("set_info", o))
        if isinstance(o, nap.TsGroup) and len(o):
            cands.append(("set_info", o))
            if any(isinstance(m, nap.Tsd) and len(m) for m in o.values()):
                cands.append(("member_setitem", o))
    if not cands:
        return None
    kind, o = rng.choice(cands)
    v = float(rng.choice([-99.0, 1e6, 0.25]))
    if kind == "setitem":
        o[rng.randrange(len(o))] = v
    elif kind == "setitem_slice":
        o[1:3] = v
    elif kind == "setitem_column":
        if rng.random() < 0.5 or not isinstance(o.columns[0], str):
            o[:, 0] = v
        else:
            o[o.columns[0]] = np.full(len(o), v)
    elif kind == "set_info":
        n = len(o.metadata_index)
        o.set_info(**{rng.choice(["zz", "yy"]): [rng.randrange(100) for _ in range(n)]})
    elif kind == "member_setitem":
        m = rng.choice([m for m in o.values() if isinstance(m, nap.Tsd) and len(m)])
        m[rng.randrange(len(m))] = v
        return kind, o, [o, m], m
    return kind, o, [o], o


def run_mut_history(nap, seed, hid, length):
    rng = random.Random(seed * 1000003 + hid)
    ops = H.gen_history(rng, length)
    R = H.Real(nap)
    fails, mfails, exc, done = [], [], [], []

    def live():
        return R.objs + R.extra

    def guard(label, f):
        objs = live()
        before = [state(nap, o) for o in objs]
        try:
            out = f()
        except Exception as ex:
            exc.append((label, type(ex).__name__ + ": " + str(ex)[:150]))
            out = None
        for i, o in enumerate(objs):
            if not H.snap_equal(before[i], state(nap, o)):
                fails.append((label, i, type(o).__name__))
        return out

    def keep(outs):
        for y in outs or []:
            if isinstance(y, (nap.Ts, nap.Tsd, nap.TsdFrame, nap.TsdTensor, nap.TsGroup, nap.IntervalSet)):
                R.extra.append(y)

    for step, op in enumerate(ops):
        r = guard("op%d:%s" % (step, op[0]), lambda: H.apply_real(R, op, rng))
        if r is None:
            break
        R.objs.append(r[0])
        done.append(op[0])
        if step < 2:
            continue
        if rng.random() < 0.5:
            name = rng.choice(H.UNMODELLED)
            keep(guard("unmodelled:" + name, lambda: H.apply_unmodelled(R, name, rng)))
            done.append(name)
        if rng.random() < 0.7:
            name = rng.choice(EXTRA)
            keep(guard("extra:" + name, lambda: apply_extra(R, name, rng)))
            done.append("extra:" + name)
        if rng.random() < 0.5:
            objs = live()
            before = [state(nap, o) for o in objs]
            try:
                m = mutate(R, rng)
            except Exception as ex:
                exc.append(("mutate", type(ex).__name__ + ": " + str(ex)[:150]))
                m = None
            if m is None:
                continue
            kind, target, allowed, written = m
            done.append("mutate:" + kind)
            # a series handed out by g[k] IS the member of g: the one group holding the target by identity changes with it.  Two groups holding
            # the same member object is sharing introduced by an earlier operation (a selection that did not copy): the second one is reported.
            holders = [o for o in objs if isinstance(o, nap.TsGroup) and any(mm is written for mm in o.data.values())]
            if len(holders) == 1:
                allowed = allowed + holders
            changed_target = False
            for i, o in enumerate(objs):
                same = H.snap_equal(before[i], state(nap, o))
                if any(o is a for a in allowed):
                    changed_target = changed_target or not same
                    continue
                if not same:
                    owner = isinstance(o, nap.TsGroup) and any(mm is written for mm in o.data.values())
                    mfails.append((kind, type(target).__name__, type(o).__name__, i, bool(owner)))
    return {"fails": fails, "mfails": mfails, "exc": exc, "done": done, "n_live": len(live())}


# ------------------------------------------------------------------------------------------------------
def run(res, tier, seed):
    nap = _nap()
    warnings.simplefilter("ignore")
    nh = 120 if tier == "quick" else 1500
    length = 12 if tier == "quick" else 30
    nm, mlength = (nh, length) if tier == "quick" else (400, 18)      # the cost of a mutating history grows with the square of its length (every live object is snapshotted around every call)
    res.rule = ("(a) %d seeded histories (length %d) of 16 modelled + 25 unmodelled public operations with a deep snapshot of EVERY live object (timestamps, values, support, columns, keys, "
                "metadata) before and after EVERY call, so that aliasing created by earlier results is exposed; (b) caller-supplied arrays/kernels/frames/dicts snapshotted around constructors, "
                "convolve/smooth/filters, correlograms, 1d/2d tuning curves, mutual information, 1d/2d decoding, perievent, event-triggered average, spectrum, wavelets, trial tensors, "
                "randomisation, group selection/merge, TsdTensor operations, save (a call that raises in every repetition is reported as a broken check); (c) every container write that must "
                "be rejected, each on fresh objects with a deep state comparison: attribute assignment and attribute deletion of the reserved attributes of IntervalSet/Ts/Tsd/TsdFrame/"
                "TsdTensor/TsGroup, item assignment into IntervalSet / time index / TsGroup keys, and the inherited dict mutators of TsGroup (del, pop, popitem, clear, |=, update, setdefault); "
                "(d) item assignment / set_info are local to the addressed object for ~40 derivations of each of Tsd, TsdFrame, TsdTensor (both directions), 12 group derivations, 12 frame and "
                "11 IntervalSet derivations; (e) %d further histories (length %d) in which TsdFrame/TsdTensor/TsGroup results are operands of later operations and random sanctioned mutations "
                "(item assignment, column assignment, set_info, assignment into a group member) are interleaved: after a mutation every OTHER live object must be unchanged, around every "
                "other call every live object must be unchanged. non-trivial = a call with >= 1 live object; distinct = (history, step) or (check, case)" % (nh, length, nm, mlength))
    # (a) histories with snapshots
    for hid in range(nh):
        r = H.run_history(nap, seed + 77, hid, length, 0.7, with_snapshots=True)
        for step in range(len(r["codes"])):
            res.case(("hist", hid, step), nontrivial=True)
        for u in r["unmodelled"]:
            res.count("unmodelled=" + u)
            res.evaluations += 1
        for label, idx in r["snap"]:
            res.violations.append({"key": {"op": label.split(":")[-1], "part": "argument_modified"}, "what": "a live object changed across a call that is not a mutator (%s, object #%d)" % (label, idx),
                                   "input": {"history": r["codes"], "seed": [seed + 77, hid], "at": label}})
        if hid == 0:
            res.sample({"history": r["codes"][:8], "unmodelled": r["unmodelled"][:5]})
    # (e) histories with mutators and frame / tensor / group operands
    exc_by_op, done_by_op = {}, {}
    for hid in range(nm):
        r = run_mut_history(nap, seed + 177, hid, mlength)
        for k, name in enumerate(r["done"]):
            res.case(("mhist", hid, k), nontrivial=True)
            done_by_op[name] = done_by_op.get(name, 0) + 1
            if name.startswith(("extra:", "mutate:")):
                res.count(name)
        for label, msg in r["exc"]:
            exc_by_op[label.split(":", 1)[-1] if not label.startswith("op") else label.split(":")[-1]] = msg
            res.count("mhist_exception:" + label.split(":", 1)[-1])
        for label, idx, cls in r["fails"]:
            res.violations.append({"key": {"op": label.split(":")[-1], "part": "argument_modified", "object": cls, "history": "with_mutators"},
                                   "what": "a live %s changed across a call that is not a mutator (%s, object #%d)" % (cls, label, idx), "input": {"mut_seed": [seed + 177, hid, mlength], "at": label}})
        for kind, tcls, ocls, idx, owner in r["mfails"]:
            res.violations.append({"key": {"op": kind, "part": "visible_through_other_object", "target": tcls, "other": ocls, "other_is_group_holding_target": owner, "history": "with_mutators"},
                                   "what": "%s on a live %s changed another live object (%s #%d)" % (kind, tcls, ocls, idx), "input": {"mut_seed": [seed + 177, hid, mlength], "mutation": kind}})
        if hid == 0:
            res.sample({"mutating_history": r["done"][:14]})
    for name in EXTRA + ["mutate:setitem", "mutate:set_info", "mutate:setitem_column", "mutate:setitem_slice"]:
        key = name if name.startswith("mutate:") else "extra:" + name
        n_exc = res.dist.get("mhist_exception:" + name, 0)
        if done_by_op.get(key, 0) - n_exc < 5:
            res.disagreements.append({"op": key, "what": "harness: this operation completed fewer than 5 times over the mutating histories; its frame check is vacuous",
                                      "done": done_by_op.get(key, 0), "exceptions": n_exc, "last_exception": exc_by_op.get(name)})
    # (b) caller-supplied arrays
    rng = random.Random(seed * 31 + 4)
    scratch = os.path.join(C.CACHE, "c10_scratch")
    os.makedirs(scratch, exist_ok=True)
    try:
        nrep = 6 if tier == "quick" else 60
        raised = {}
        for rep in range(nrep):
            n = rng.randint(20, 60)
            t = np.sort(np.array(rng.sample(range(0, 4000), n), dtype=float) / 100.0)
            d = np.arange(n, dtype=float) + 1
            d2 = np.arange(2 * n, dtype=float).reshape(n, 2)
            d3 = np.arange(4 * n, dtype=float).reshape(n, 2, 2)
            s = np.array([0.0, 15.0, 30.0]); e = np.array([10.0, 25.0, 40.0])
            kern = np.array([1.0, 2.0, 1.0])
            kern2 = np.array([[1.0, 0.5], [2.0, 1.0], [1.0, 0.5]])
            tc = pd.DataFrame(np.array([[1.0, 3.0], [5.0, 2.0], [2.0, 7.0]]), index=np.array([0.5, 1.5, 2.5]), columns=[0, 1])
            feat_v = np.mod(np.arange(n), 3).astype(float) + 0.5
            feat2_v = np.stack([np.mod(np.arange(n), 3).astype(float), np.mod(np.arange(n), 2).astype(float)], 1)
            dct = {0: t.copy(), 1: t[::2].copy()}
            cut = np.array([2.0, 8.0])
            freqs = np.array([2.0, 5.0, 10.0])
            minmax = np.array([0.0, 2.0, 0.0, 1.0])
            bins = np.array([0.0, 5.0, 100.0])
            tc2 = {0: np.array([[1.0, 2.0], [3.0, 4.0]]), 1: np.array([[2.0, 1.0], [0.5, 3.0]])}
            xy = [np.array([0.5, 1.5]), np.array([0.25, 0.75])]
            caller = {"t": t, "d": d, "d2": d2, "d3": d3, "s": s, "e": e, "kern": kern, "kern2": kern2, "tc": tc, "feat_v": feat_v, "feat2_v": feat2_v, "dct0": dct[0], "dct1": dct[1], "cut": cut,
                      "freqs": freqs, "minmax": minmax, "bins": bins, "tc2_0": tc2[0], "tc2_1": tc2[1], "xy0": xy[0], "xy1": xy[1]}
            before = {k: (v.copy(deep=True) if isinstance(v, pd.DataFrame) else v.copy()) for k, v in caller.items()}
            ep = nap.IntervalSet(s, e, metadata={"lab": ["a", "b", "a"]})
            x = nap.Tsd(t, d, time_support=ep)
            fr = nap.TsdFrame(t, d2, time_support=ep, columns=["a", "b"], metadata={"m": [1, 2]})
            te = nap.TsdTensor(t, d3, time_support=ep)
            g = nap.TsGroup(dct, time_support=ep, metadata={"cat": [1, 2]})
            g2 = nap.TsGroup({7: nap.Ts(t[::3])}, time_support=ep, metadata={"cat": [4]})
            feat = nap.Tsd(t, feat_v, time_support=ep)
            feat2 = nap.TsdFrame(t, feat2_v, time_support=ep)
            reg = nap.Tsd(np.arange(0, 40, 0.01), np.sin(np.arange(4000) / 9.0))
            regf = nap.TsdFrame(np.arange(0, 40, 0.01), np.stack([np.sin(np.arange(4000) / 9.0), np.cos(np.arange(4000) / 5.0)], 1))
            ev = nap.Ts(t[::4])
            live = [ep, x, fr, te, g, g2, feat, feat2, reg, regf, ev]
            snaps = [state(nap, o) for o in live]
            sv = lambda name: os.path.join(scratch, name)
            calls = {
                "constructors": lambda: (nap.Ts(t), nap.Tsd(t, d), nap.TsdFrame(t, d2), nap.TsdTensor(t, d3), nap.IntervalSet(s, e), nap.IntervalSet(np.stack([s, e], 1)), nap.TsGroup(dct),
                                         nap.Tsd(t[::-1], d), nap.TsdFrame(t[::-1], d2, time_support=ep), nap.IntervalSet(e, s + 20.0), nap.TsGroup({0: x, 1: feat}), nap.TsGroup({0: x, 1: feat}, bypass_check=True)),
                "convolve": lambda: (x.convolve(kern), fr.convolve(kern2), x.convolve(kern, ep=ep, trim="left"), te.convolve(kern)),
                "smooth": lambda: (x.smooth(0.5, size_factor=5), fr.smooth(0.5, size_factor=5), te.smooth(0.5, size_factor=5)),
                "filters": lambda: (nap.apply_lowpass_filter(reg, 5.0, mode="sinc"), nap.apply_highpass_filter(reg, 5.0, mode="sinc"), nap.apply_bandpass_filter(reg, cut, mode="sinc"),
                                    nap.apply_bandstop_filter(reg, cut, mode="sinc"), nap.apply_lowpass_filter(reg, 5.0, mode="butter"), nap.apply_bandpass_filter(reg, cut, mode="butter"),
                                    nap.get_filter_frequency_response(cut, 100.0, "bandpass", "sinc"), nap.get_filter_frequency_response(cut, 100.0, "bandpass", "butter"),
                                    nap.apply_lowpass_filter(regf, 5.0, mode="sinc"), nap.apply_bandpass_filter(regf, cut, mode="butter"),
                                    nap.apply_bandpass_filter(reg, cut, fs=100.0, mode="sinc", transition_bandwidth=0.1)),
                "correlograms": lambda: (nap.compute_autocorrelogram(g, 0.5, 2.0), nap.compute_crosscorrelogram(g, 0.5, 2.0), nap.compute_eventcorrelogram(g, nap.Ts(t[::3]), 0.5, 2.0),
                                         nap.compute_crosscorrelogram((g, g), 0.5, 2.0), nap.compute_autocorrelogram(g, 0.5, 2.0, ep=ep, norm=False), nap.compute_crosscorrelogram(g, 0.5, 2.0, reverse=True)),
                "tuning": lambda: (nap.compute_1d_tuning_curves(g, feat, 3), nap.compute_discrete_tuning_curves(g, {"a": ep}), nap.compute_1d_tuning_curves_continuous(fr, feat, 3),
                                   nap.compute_2d_tuning_curves(g, feat2, 2, ep=ep, minmax=minmax), nap.compute_2d_tuning_curves_continuous(fr, feat2, 2),
                                   nap.compute_1d_tuning_curves(g, feat, 3, minmax=minmax[:2])),
                "mutual_info": lambda: (nap.compute_1d_mutual_info(tc, feat, ep), nap.compute_2d_mutual_info(tc2, feat2, ep), nap.compute_1d_mutual_info(tc.values, feat, minmax=minmax[:2], bitssec=True)),
                "decode": lambda: (nap.decode_1d(tc, g, ep, 1.0), nap.decode_1d(tc, g, ep, 1.0, feature=feat), nap.decode_1d(tc, g.count(1.0, ep), ep, 1.0), nap.decode_1d(tc, {0: g[0], 1: g[1]}, ep, 1.0)),
                "decode_2d": lambda: (nap.decode_2d(tc2, g, ep, 1.0, xy), nap.decode_2d(tc2, g, ep, 1.0, xy, features=feat2), nap.decode_2d(tc2, g.count(1.0, ep), ep, 1.0, xy)),
                "perievent": lambda: (nap.compute_perievent(x, ev, minmax=(-1.0, 1.0)), nap.compute_perievent_continuous(reg, ev, minmax=(-0.05, 0.05)), nap.compute_perievent(g, ev, (-1.0, 1.0)),
                                      nap.compute_perievent_continuous(regf, ev, (-0.05, 0.05), ep=ep)),
                "eta": lambda: (nap.compute_event_trigger_average(g, reg, 0.05, (0.1, 0.1), ep), nap.compute_event_trigger_average(g, regf, 0.05, (0.1, 0.1))),
                "spectrum": lambda: (nap.compute_fft(reg), nap.compute_power_spectral_density(reg), nap.compute_mean_power_spectral_density(reg, 5.0), nap.compute_fft(regf, norm=True),
                                     nap.compute_power_spectral_density(regf, full_range=True), nap.compute_mean_power_spectral_density(regf, 5.0, ep=nap.IntervalSet(0, 40))),
                "wavelets": lambda: (nap.compute_wavelet_transform(reg, freqs, fs=100.0), nap.compute_wavelet_transform(regf, freqs, fs=100.0), nap.generate_morlet_filterbank(freqs, 100.0)),
                "trial_tensors": lambda: (nap.build_tensor(g, ep, 1.0), nap.build_tensor(x, ep), nap.build_tensor(fr, ep, 1.0), nap.build_tensor(te, ep), nap.warp_tensor(g, ep, 5), nap.warp_tensor(fr, ep, 5),
                                          x.to_trial_tensor(ep), fr.to_trial_tensor(ep), te.to_trial_tensor(ep), g.trial_count(ep, 1.0), g[0].trial_count(ep, 1.0)),
                "randomize": lambda: (nap.shift_timestamps(g, 0.0, 5.0), nap.jitter_timestamps(g, 0.1), nap.resample_timestamps(g), nap.shuffle_ts_intervals(g),
                                      nap.shift_timestamps(g[0], 0.0, 5.0), nap.jitter_timestamps(g[0], 0.1, keep_tsupport=True), nap.resample_timestamps(g[0]), nap.shuffle_ts_intervals(g[0])),
                "set_ops": lambda: (ep.union(ep), ep.intersect(ep), ep.set_diff(ep), ep.split(3.0), ep.merge_close_intervals(6.0), ep.drop_short_intervals(1.0), ep.in_interval(x),
                                    ep.get_intervals_center(), ep.get_intervals_center(0.3), ep.time_span(), ep.as_units("ms"), ep.as_dataframe(), ep.tot_length(), ep.drop_long_intervals(5.0),
                                    np.asarray(ep), ep[0], ep[[0, 2]], ep.loc[[0, 1]], ep["lab"], ep.starts, ep.ends, ep.groupby("lab"), ep.groupby_apply("lab", lambda z: z.tot_length())),
                "queries": lambda: (x.restrict(ep), x.count(1.0, ep), x.bin_average(1.0), x.value_from(feat, ep), x.interpolate(feat, ep), x.threshold(5.0), x.dropna(), x.get(3.0, 20.0),
                                    g.restrict(ep), g.count(1.0), g.value_from(feat), g.to_tsd(), g[[1]], fr[["b"]], fr.loc["a"], np.sqrt(x), x * 2 + fr[:, 0].values, np.concatenate((x.get(0, 9), x.get(15, 24))),
                                    x.as_series(), x.as_units("us"), x.to_numpy(), x.find_support(1.0), x.threshold(5.0, "below"), x.copy(), np.nan_to_num(x), np.clip(x, 2.0, 8.0), np.diff(x),
                                    x[x > 5.0], x.get_slice(3, 9), x.times("ms"), x.start_time("us"), x.end_time("ms")),
                "frame_tensor": lambda: (fr.restrict(ep), fr.bin_average(1.0), fr.interpolate(feat), fr.dropna(), fr.as_dataframe(), fr.as_units("ms"), np.sum(fr, 1), np.cumsum(fr, 0), fr > 5.0,
                                         fr[fr[:, 0].values > 5.0], fr.get_info("m"), fr["m"], fr.groupby("m"), fr.groupby_apply("m", np.mean), te.restrict(ep), te.bin_average(1.0), te.count(1.0),
                                         te.interpolate(feat), te[:, 0], te[:, 0, 1], np.sum(te, 1), np.mean(te, (1, 2)), te * 2, te.dropna(), te.get(3, 9), te.copy(), te.as_array(),
                                         np.concatenate((fr.get(0, 9), fr.get(15, 24)), 0), np.hstack((fr, fr)), np.split(te, 2) if len(te) % 2 == 0 else np.array_split(te, 2)),
                "groups": lambda: (g.to_tsd("cat"), g.to_tsd(np.array([1.0, 2.0])), g.getby_threshold("rate", 0.1), g.getby_intervals("rate", bins), g.getby_category("cat"), g.groupby("cat"),
                                   g.groupby_apply("cat", lambda z: len(z)), g.merge(g2), nap.TsGroup.merge_group(g, g2), nap.TsGroup.merge_group(g, g2, reset_index=True, ignore_metadata=True),
                                   g.count(), g.count(ep=ep), g.get(3, 9), g[g.rate > 0.1], g.rates, g.metadata, g.get_info("cat"), g["cat"], list(g.keys()), list(g.values()), list(g.items()),
                                   nap.Tsd(t, np.mod(np.arange(n), 3).astype(float)).to_tsgroup()),
                "save": lambda: (x.save(sv("x.npz")), fr.save(sv("fr.npz")), g.save(sv("g.npz")), ep.save(sv("ep.npz")), te.save(sv("te.npz")), nap.Ts(t).save(sv("ts.npz")),
                                 nap.load_file(sv("x.npz")), nap.load_file(sv("fr.npz")), nap.load_file(sv("g.npz")), nap.load_file(sv("ep.npz")), nap.load_file(sv("te.npz"))),
            }
            st = np.random.get_state()
            np.random.seed(rng.randrange(2**31))
            try:
                for name, f in calls.items():
                    res.case(("caller", rep, name), nontrivial=True)
                    try:
                        f()
                    except Exception as ex:
                        res.count("exception:" + name)
                        raised.setdefault(name, []).append(type(ex).__name__ + ": " + str(ex)[:200])
                    for k, v in caller.items():
                        same = v.equals(before[k]) if isinstance(v, pd.DataFrame) else np.array_equal(v, before[k], equal_nan=True)
                        if not same:
                            res.violations.append({"key": {"op": name, "part": "caller_array_modified", "array": k}, "what": "a caller-supplied array was modified by " + name,
                                                   "input": {"call": name, "array": k}})
                            if isinstance(v, pd.DataFrame):
                                caller[k].iloc[:, :] = before[k].values
                            else:
                                caller[k][...] = before[k]
                    for i, (o, sn) in enumerate(zip(live, snaps)):
                        if not H.snap_equal(sn, state(nap, o)):
                            res.violations.append({"key": {"op": name, "part": "argument_modified", "object": type(o).__name__}, "what": "an argument object was modified by " + name,
                                                   "input": {"call": name, "object": type(o).__name__}})
                            snaps[i] = state(nap, o)
            finally:
                np.random.set_state(st)
        for name, msgs in raised.items():
            # a call that raises stops before its later operations: the frame check around it is (partly) vacuous
            res.disagreements.append({"op": name, "what": "harness: the call group '%s' raised in %d of %d repetitions; the operations after the raising one were never run under snapshots"
                                      % (name, len(msgs), nrep), "first": msgs[0]})
        # (c) rejected writes
        check_rejected(res, nap)
        # (d) sanctioned mutators are local
        check_setitem_local(res, nap)
        check_group_members_local(res, nap)
        check_set_info_local(res, nap)
    finally:
        shutil.rmtree(scratch, ignore_errors=True)


def search(res, seed):
    r2 = C.Result()
    run(r2, "thorough", seed)
    return r2.violations[0] if r2.violations else None


def replay(payload):
    nap = _nap()
    warnings.simplefilter("ignore")
    v = payload.get("violation") or {}
    inp = v.get("input", {})
    if "seed" in inp:
        seed, hid = inp["seed"]
        r = H.run_history(nap, seed, hid, max(12, len(inp.get("history", []))), 0.7, with_snapshots=True)
        print("history", r["codes"])
        print("snapshot failures:", r["snap"])
        return 1 if r["snap"] else 0
    if "mut_seed" in inp:
        seed, hid, length = inp["mut_seed"]
        r = run_mut_history(nap, seed, hid, length)
        print("history", r["done"])
        print("objects changed across a non-mutating call:", r["fails"])
        print("objects other than the target changed by a mutation:", r["mfails"])
        return 1 if (r["fails"] or r["mfails"]) else 0
    if "case" in inp:
        r = C.Result()
        check_rejected(r, nap)
        hits = [x for x in r.violations if x["key"] == v.get("key")]
        print("rejected-write case", inp["case"], "->", [h["what"] for h in hits] or "rejected, state unchanged")
        return 1 if hits else 0
    r = C.Result()
    run(r, "quick", 0)
    hits = [x for x in r.violations if x["key"] == v.get("key")]
    print("violations with the same key on this tree:", hits[:3])
    return 1 if hits else 0
