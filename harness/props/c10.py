"""C10 operations never modify their arguments; containers reject in-place writes."""
import inspect
import json
import os
import random
import shutil
import warnings

import numpy as np
import pandas as pd

import common as C
import gen as G
import history as H

LEVEL = "proof"
DRIVERS = []
TRUSTED = ["heap frame theorems coq/Proofs/HeapProofs.v are RELATIVE to effect summaries (every operation writes only what it allocates); the summaries are validated on every run by deep "
           "snapshots of every live object and every caller-supplied array around every call of every history (this file)",
           "translator tools/gen_sites.py -> coq/Gen/Sites.v: guard table (__setattr__/__setitem__ only: deletion and the inherited dict mutators of TsGroup have no row; they are "
           "exercised by part (c) of this file) and in-place-site table with target provenance, checked by forallb/vm_compute (Proofs/SitesChecks.v)"]
ASSUMPTIONS = ["'reject assignment' is read at the container API: attribute assignment AND deletion of the public reserved attributes, item assignment into IntervalSet / time index / TsGroup "
               "keys, and every inherited dict mutator of TsGroup (del, pop, popitem, clear, |=, update, setdefault); the raw ndarrays / dict handed out by .values/.start/.t/.index of a "
               "TsGroup/.data are writable Python objects (documented NumPy aliasing, observation in DESIGN.md section 8) and are not covered",
               "Tsd(t, d) built without a time_support keeps the caller's array d (documented): item assignment on the series is then visible in d",
               "'only on the object addressed': an object that IS the addressed one (same Python object reached through another name, e.g. the IntervalSet returned by .time_support, or "
               "TsGroup.merge_group(g) returning g) is not 'another object', and the series returned by g[k] is the member of g itself (g shows the write); every other live object must be "
               "unchanged, in particular a second group obtained from g by a selection",
               "augmented assignment is an assignment: `x.index += v` (and -=, *=, /=) on the time index of a container, `x += v` on an alias of a series / IntervalSet, `x.rate += v` must leave every "
               "object unchanged (raising, or rebinding the name to a new object); the same on the raw ndarrays handed out by .t / .values / .start (`x.t += 1`) is the documented NumPy back door and is "
               "not generated",
               "NumPy calls that ARE in-place writers by their own contract (np.put, np.place, np.putmask, np.copyto, np.fill_diagonal, out=<the object's own array>, copy=False) are writes to data values "
               "requested by the caller, like item assignment: the statement does not make them queries or transformations and they are not generated; np.add(x, v, out=<caller array>) is generated "
               "(x and every other object must be unchanged)",
               "part (f) bounds, per tier, the data dtypes / scalar types that reach the numba kernels behind bin_average, threshold, count(dtype=) and the perievent averages (every new combination is a "
               "compiled specialisation: quick = float64 data only, thorough = float64/float32/int64/uint8); every other operation sees all eleven dtypes in both tiers"]

REJECT = (RuntimeError, AttributeError, TypeError, ValueError, IndexError, KeyError)


def _nap():
    import pynapple as nap
    return nap


def state(nap, o):
    """deep snapshot that survives a broken object: timestamps, values (with dtype), support, column labels, keys, member identity and member states, index, rate and the whole metadata
    frame (labels, index, every column) - everything history.snapshot plus the redundant views of keys / index / rate hold, as plain arrays (no pandas deep copies: 4x faster).
    Compared with fs_equal (exact, NaN equals NaN, also in object columns)."""
    return fstate(nap, o)


def is_series(nap, o):
    return isinstance(o, (nap.Tsd, nap.TsdFrame, nap.TsdTensor))


# ------------------------------------------------------------------------------------------------------
# (c) writes that must be rejected
def fresh(nap):
    ep = nap.IntervalSet([0.0, 10.0], [5.0, 15.0], metadata={"lab": [1, 2]})
    return {"ep": ep,
            "tsd": nap.Tsd(np.arange(10.0), np.arange(10.0)),
            "ts": nap.Ts(np.arange(10.0)),
            "frame": nap.TsdFrame(np.arange(10.0), np.arange(20.0).reshape(10, 2), columns=["a", "b"], metadata={"m": [1, 2]}),
            "tensor": nap.TsdTensor(np.arange(10.0), np.arange(40.0).reshape(10, 2, 2)),
            "group": nap.TsGroup({0: nap.Ts(np.arange(10.0)), 1: nap.Ts(np.arange(5.0)), 4: nap.Ts(np.arange(3.0))}, metadata={"lab": [1, 2, 3]}),
            "other_ep": nap.IntervalSet(0.0, 100.0)}


def rejected_writes(nap):
    """list of (label, container, kind, f(objs)); kind: assign (attribute), item, delete (attribute), dict_api (inherited UserDict mutators)"""
    out = []

    def A(c, name, v):
        out.append(("%s.%s=x" % (c, name), c, "assign", lambda o: setattr(o[c], name, v(o) if callable(v) else v)))

    def D(c, name):
        out.append(("del %s.%s" % (c, name), c, "delete", lambda o: delattr(o[c], name)))

    def I(label, c, f, kind="item"):
        out.append((label, c, kind, f))
    oep = lambda o: o["other_ep"]
    for name, v in (("start", np.array([1.0, 2.0])), ("end", np.array([1.0, 2.0])), ("values", np.zeros((2, 2))), ("index", np.array([5, 6])), ("columns", ["a", "b"]),
                    ("shape", (2, 2)), ("starts", None), ("ends", None), ("metadata", pd.DataFrame(index=[0, 1])), ("metadata_index", np.array([5, 6])), ("nap_class", "x")):
        A("ep", name, v)
    for c, n in (("tsd", 10), ("ts", 10), ("frame", 10), ("tensor", 10)):
        for name, v in (("index", np.arange(float(n))), ("rate", 3.0), ("time_support", oep), ("t", np.zeros(n)), ("shape", (n,)), ("nap_class", "x")):
            A(c, name, v)
    A("tsd", "values", np.zeros(10)); A("tsd", "d", np.zeros(10))
    A("frame", "values", np.zeros((10, 2))); A("frame", "d", np.zeros((10, 2))); A("frame", "columns", ["c", "d"])
    A("frame", "metadata", pd.DataFrame(index=["a", "b"])); A("frame", "metadata_index", ["c", "d"])
    A("tensor", "values", np.zeros((10, 2, 2))); A("tensor", "d", np.zeros((10, 2, 2)))
    for name, v in (("time_support", oep), ("index", np.array([4, 5, 6])), ("rate", np.array([1.0, 2.0, 3.0])), ("rates", np.array([1.0, 2.0, 3.0])), ("data", {}),
                    ("metadata", pd.DataFrame(index=[0, 1, 4])), ("metadata_index", np.array([4, 5, 6])), ("nap_class", "x")):
        A("group", name, v)
    I("ep[0,0]=x", "ep", lambda o: o["ep"].__setitem__((0, 0), 3.0))
    I("ep[0]=x", "ep", lambda o: o["ep"].__setitem__(0, (1.0, 2.0)))
    I("ep['start']=x", "ep", lambda o: o["ep"].__setitem__("start", np.array([1.0, 11.0])))
    I("ep['end']=x", "ep", lambda o: o["ep"].__setitem__("end", np.array([6.0, 16.0])))
    I("ep.loc[0]=x", "ep", lambda o: o["ep"].loc.__setitem__(0, (1.0, 2.0)))
    I("del ep[0]", "ep", lambda o: o["ep"].__delitem__(0))
    for c in ("tsd", "ts", "frame", "tensor"):
        I("%s.index[0]=x" % c, c, (lambda c: lambda o: o[c].index.__setitem__(0, 5.0))(c))
        I("%s.index[:]=x" % c, c, (lambda c: lambda o: o[c].index.__setitem__(slice(None), 5.0))(c))
    I("group[0]=x", "group", lambda o: o["group"].__setitem__(0, o["ts"]))
    I("group[7]=x", "group", lambda o: o["group"].__setitem__(7, o["ts"]))
    I("group['rate']=x", "group", lambda o: o["group"].__setitem__("rate", [1.0, 2.0, 3.0]))
    I("group.set_info(rate=x)", "group", lambda o: o["group"].set_info(rate=[1.0, 2.0, 3.0]))
    # the dict interface TsGroup inherits from UserDict: every mutator changes the KEYS
    I("del group[0]", "group", lambda o: o["group"].__delitem__(0), "dict_api")
    I("group.pop(0)", "group", lambda o: o["group"].pop(0), "dict_api")
    I("group.popitem()", "group", lambda o: o["group"].popitem(), "dict_api")
    I("group.clear()", "group", lambda o: o["group"].clear(), "dict_api")
    I("group|={7:ts}", "group", lambda o: o["group"].__ior__({7: o["ts"]}), "dict_api")
    I("group|=group", "group", lambda o: o["group"].__ior__(nap.TsGroup({7: o["ts"]})), "dict_api")
    I("group.update({7:ts})", "group", lambda o: o["group"].update({7: o["ts"]}), "dict_api")
    I("group.update({0:ts})", "group", lambda o: o["group"].update({0: o["ts"]}), "dict_api")
    I("group.setdefault(7,ts)", "group", lambda o: o["group"].setdefault(7, o["ts"]), "dict_api")
    for c, names in (("ep", ("values", "index", "columns")), ("tsd", ("index", "values", "time_support", "rate")), ("ts", ("index", "time_support", "rate")),
                     ("frame", ("index", "values", "time_support", "rate", "columns")), ("tensor", ("index", "values", "time_support", "rate")),
                     ("group", ("data", "index", "time_support"))):
        for name in names:
            D(c, name)
    return out


def check_rejected(res, nap):
    for label, c, kind, f in rejected_writes(nap):
        o = fresh(nap)
        before = {k: state(nap, v) for k, v in o.items()}
        res.case(("reject", label), nontrivial=True)
        res.count("reject_kind=" + kind)
        raised = False
        try:
            f(o)
        except REJECT:
            raised = True
        changed = sorted(k for k, v in o.items() if not fs_equal(before[k], state(nap, v)))
        if not raised:
            res.violations.append({"key": {"op": label, "part": "accepted_write", "kind": kind, "container": c, "state_changed": bool(changed)},
                                   "what": "a write that must be rejected was accepted: %s (objects changed: %s)" % (label, changed or "none"), "input": {"case": label, "changed": changed}})
        elif changed:
            res.violations.append({"key": {"op": label, "part": "state_changed_by_rejected_write", "kind": kind, "container": c},
                                   "what": "%s raised, but only after changing %s" % (label, changed), "input": {"case": label, "changed": changed}})


# ------------------------------------------------------------------------------------------------------
# (d) sanctioned mutators are local
def derivations(nap):
    ep2 = nap.IntervalSet([0.0, 20.0], [9.0, 29.0])
    feat = nap.Tsd(np.arange(0.0, 30.0, 0.5), np.arange(60.0))
    idx = [5, 1, 7]
    mask = np.arange(30) % 2 == 0
    k3 = np.array([1.0, 2.0, 1.0])
    common = {"restrict": lambda p: p.restrict(ep2), "restrict_own_support": lambda p: p.restrict(p.time_support), "get": lambda p: p.get(2.0, 20.0), "[3:9]": lambda p: p[3:9],
              "[:]": lambda p: p[:], "[::2]": lambda p: p[::2], "[::-1]": lambda p: p[::-1], "[mask]": lambda p: p[mask], "[list]": lambda p: p[idx], "*1.0": lambda p: p * 1.0,
              "bin_average": lambda p: p.bin_average(2.0), "copy": lambda p: p.copy(), "np.copy": lambda p: np.copy(p), "np.positive": lambda p: np.positive(p), "np.squeeze": lambda p: np.squeeze(p),
              "np.real": lambda p: np.real(p), "astype": lambda p: p.astype(float), "dropna": lambda p: p.dropna(), "np.nan_to_num": lambda p: np.nan_to_num(p),
              "np.split[0]": lambda p: np.split(p, 2)[0], "np.array_split[1]": lambda p: np.array_split(p, 2)[1], "np.clip": lambda p: np.clip(p, -1e9, 1e9),
              "[get_slice]": lambda p: p[p.get_slice(0, 29)], "interpolate": lambda p: p.interpolate(feat), "convolve": lambda p: p.convolve(k3), "smooth": lambda p: p.smooth(1.0, size_factor=3),
              "np.concatenate": lambda p: np.concatenate((p[0:10], p[10:30])), "np.moveaxis(0,0)": lambda p: np.moveaxis(p, 0, 0), "np.swapaxes(0,0)": lambda p: np.swapaxes(p, 0, 0)}
    tsd = dict(common)
    tsd.update({"value_from": lambda p: p.value_from(p), "np.reshape": lambda p: np.reshape(p, (30,)), "np.ravel": lambda p: np.ravel(p), "np.expand_dims": lambda p: np.expand_dims(p, 1),
                "np.transpose": lambda p: np.transpose(p), "[:,None]": lambda p: p[:, None], "np.atleast_1d": lambda p: np.atleast_1d(p), "threshold": lambda p: p.threshold(-1.0),
                "[bool Tsd]": lambda p: p[p > -1.0], "np.flip": lambda p: np.flip(p)})
    frame = dict(common)
    frame.update({"[:,0]": lambda p: p[:, 0], "[:,0:1]": lambda p: p[:, 0:1], "['a']": lambda p: p["a"], "[['a','b']]": lambda p: p[["a", "b"]], "[['b','a']]": lambda p: p[["b", "a"]],
                  ".loc['a']": lambda p: p.loc["a"], ".loc[['a']]": lambda p: p.loc[["a"]], "np.reshape": lambda p: np.reshape(p, (30, 2)), "np.reshape3": lambda p: np.reshape(p, (30, 2, 1)),
                  "np.expand_dims": lambda p: np.expand_dims(p, 2), "np.swapaxes(1,1)": lambda p: np.swapaxes(p, 1, 1), "np.flip(1)": lambda p: np.flip(p, 1), "[:,[0,1]]": lambda p: p[:, [0, 1]],
                  "[:,::-1]": lambda p: p[:, ::-1], "np.hsplit[0]": lambda p: np.hsplit(p, 2)[0], "[:,bool]": lambda p: p[:, np.array([True, True])], "value_from": lambda p: feat.value_from(p),
                  "groupby_apply": lambda p: p.groupby_apply("m", lambda z: z)[1]})
    tensor = dict(common)
    tensor.update({"[:,0]": lambda p: p[:, 0], "[:,0,0]": lambda p: p[:, 0, 0], "[:,:,0:1]": lambda p: p[:, :, 0:1], "np.reshape": lambda p: np.reshape(p, (30, 4)),
                   "np.reshape3": lambda p: np.reshape(p, (30, 4, 1)), "np.swapaxes(1,2)": lambda p: np.swapaxes(p, 1, 2), "np.transpose(0,2,1)": lambda p: np.transpose(p, (0, 2, 1)),
                   "np.moveaxis(1,2)": lambda p: np.moveaxis(p, 1, 2), "np.sum(.,2)": lambda p: np.sum(p, 2)})
    sup = nap.IntervalSet(0.0, 29.0)
    parents = {"Tsd": lambda: nap.Tsd(np.arange(30.0), np.arange(30.0), time_support=sup),
               "TsdFrame": lambda: nap.TsdFrame(np.arange(30.0), np.arange(60.0).reshape(30, 2), time_support=sup, columns=["a", "b"], metadata={"m": [1, 2]}),
               "TsdTensor": lambda: nap.TsdTensor(np.arange(30.0), np.arange(120.0).reshape(30, 2, 2), time_support=sup)}
    return parents, {"Tsd": tsd, "TsdFrame": frame, "TsdTensor": tensor}


def check_setitem_local(res, nap):
    parents, forms = derivations(nap)
    for cls, mk in parents.items():
        base = mk()
        names, derived = [], []
        for name, f in forms[cls].items():
            try:
                dobj = f(base)
            except Exception:
                res.count("exception:derive:%s:%s" % (cls, name))
                res.disagreements.append({"op": "derive", "what": "harness: the derivation %s of a %s raised, its locality check is vacuous" % (name, cls)})
                continue
            if not is_series(nap, dobj) or not len(dobj):
                res.count("derivation_returns_no_series:%s:%s" % (cls, name))
                continue
            names.append(name); derived.append(dobj)
        objs = [base] + derived
        for k, dobj in enumerate(derived):
            res.case(("setitem_local", cls, names[k]), nontrivial=True)
            s_before = [state(nap, o) for o in objs]
            dobj[0] = -99.0
            for j, o in enumerate(objs):
                if o is dobj:
                    continue
                if not fs_equal(s_before[j], state(nap, o)):
                    other = "parent" if j == 0 else "sibling:" + names[j - 1]
                    res.violations.append({"key": {"op": "setitem", "part": "visible_through_other_object", "parent": cls, "derivation": names[k], "other_is_parent": j == 0},
                                           "what": "item assignment on %s(%s) changed another object (%s)" % (names[k], cls, other),
                                           "input": {"parent": cls, "derivation": names[k], "other": other}})
        # the other direction: a write into the parent must not reach the derived object
        base2 = mk()
        for name, f in forms[cls].items():
            try:
                dobj = f(base2)
            except Exception:
                continue
            if not is_series(nap, dobj) or not len(dobj):
                continue
            res.evaluations += 1
            sb = state(nap, dobj)
            base2[:] = base2.values * 0 - 7.0
            if not fs_equal(sb, state(nap, dobj)):
                res.violations.append({"key": {"op": "setitem", "part": "visible_through_other_object", "parent": cls, "derivation": name, "other_is_parent": False, "write_into": "parent"},
                                       "what": "item assignment on a %s changed the object derived from it by %s" % (cls, name), "input": {"parent": cls, "derivation": name}})
            base2 = mk()


def check_group_members_local(res, nap):
    def mk():
        return nap.TsGroup({0: nap.Tsd(np.arange(6.0), np.arange(6.0) + 1), 2: nap.Tsd(np.arange(6.0) + 0.5, np.arange(6.0) + 10), 5: nap.Tsd(np.arange(4.0), np.arange(4.0) + 20)},
                           time_support=nap.IntervalSet(0.0, 10.0), metadata={"cat": [1, 1, 2]})
    other = nap.TsGroup({9: nap.Tsd(np.arange(5.0), np.arange(5.0))}, time_support=nap.IntervalSet(0.0, 10.0), metadata={"cat": [3]})
    sels = {"keys": lambda g: g[[0, 2]], "mask": lambda g: g[np.array([True, False, True])], "getby_threshold": lambda g: g.getby_threshold("rate", 0.0),
            "getby_category": lambda g: g.getby_category("cat")[1], "getby_intervals": lambda g: g.getby_intervals("rate", np.array([0.0, 100.0]))[0][0],
            "restrict": lambda g: g.restrict(nap.IntervalSet(0.0, 10.0)), "get": lambda g: g.get(0.0, 9.0), "groupby_apply": lambda g: g.groupby_apply("cat", lambda z: z)[1],
            "merge": lambda g: g.merge(other), "merge_group": lambda g: nap.TsGroup.merge_group(g, other), "value_from": lambda g: g.value_from(nap.Tsd(np.arange(10.0), np.arange(10.0))),
            "TsGroup(dict(g))": lambda g: nap.TsGroup(dict(g.items()), time_support=g.time_support)}
    for sname, f in sels.items():
        gt = mk()
        res.case(("member_local", sname), nontrivial=True)
        before = state(nap, gt)
        try:
            sub = f(gt)
            k0 = list(sub.keys())[0]
            sub[k0][1] = -12345.0
        except Exception:
            res.count("exception:selection:" + sname)
            res.disagreements.append({"op": "selection", "what": "harness: the group selection %s raised, its locality check is vacuous" % sname})
            continue
        if not fs_equal(before, state(nap, gt)):
            res.violations.append({"key": {"op": "setitem", "part": "visible_through_parent_group", "selection": sname},
                                   "what": "item assignment into a member of a selected/derived TsGroup changed the parent group's member", "input": {"selection": sname}})
        gt = mk()
        before = state(nap, gt)
        sub = f(gt)
        if isinstance(sub, nap.TsGroup):
            sub.set_info(extra=list(range(len(sub))))
            if not fs_equal(before, state(nap, gt)):
                res.violations.append({"key": {"op": "set_info", "part": "visible_through_other_object", "container": "TsGroup", "derivation": sname},
                                       "what": "set_info on a group derived by %s changed the original group" % sname, "input": {"selection": sname}})


def check_set_info_local(res, nap):
    o = fresh(nap)
    fr, ep = o["frame"], o["ep"]
    m = fr.metadata
    m["m"] = [7, 8]
    if list(fr.metadata["m"]) != [1, 2]:
        res.violations.append({"key": {"op": "metadata", "part": "copy"}, "what": "the metadata property does not return a copy", "input": {}})
    for cname, parent, forms in (
            ("TsdFrame", fr, {"[['a','b']]": lambda p: p[["a", "b"]], "[0:5]": lambda p: p[0:5], "restrict": lambda p: p.restrict(p.time_support), "get": lambda p: p.get(0, 5), "copy": lambda p: p.copy(),
                              "*1": lambda p: p * 1, "bin_average": lambda p: p.bin_average(2.0), "[:,[0,1]]": lambda p: p[:, [0, 1]], "np.abs": lambda p: np.abs(p),
                              "groupby_apply": lambda p: p.groupby_apply("m", lambda z: z)[1], "dropna": lambda p: p.dropna(), "smooth": lambda p: p.smooth(1.0, size_factor=3)}),
            ("IntervalSet", ep, {"[[0,1]]": lambda p: p[[0, 1]], "[0:2]": lambda p: p[0:2], "intersect": lambda p: p.intersect(p), "drop_short": lambda p: p.drop_short_intervals(0.1),
                                 "drop_long": lambda p: p.drop_long_intervals(100.0), "[mask]": lambda p: p[np.array([True, True])], "groupby_apply": lambda p: p.groupby_apply("lab", lambda z: z)[1],
                                 "split": lambda p: p.split(5.0), "union_empty": lambda p: p.union(nap.IntervalSet([], [])),
                                 "merge_close": lambda p: p.merge_close_intervals(0.1), "set_diff_empty": lambda p: p.set_diff(nap.IntervalSet([], []))})):
        for name, f in forms.items():
            res.case(("set_info_local", cname, name), nontrivial=True)
            before = state(nap, parent)
            try:
                dobj = f(parent)
                dobj.set_info(zz=list(range(len(dobj.metadata_index))))
                if "lab" in dobj.metadata_columns or "m" in dobj.metadata_columns:
                    col = "lab" if "lab" in dobj.metadata_columns else "m"
                    dobj.set_info(**{col: [77] * len(dobj.metadata_index)})
            except Exception:
                res.count("exception:set_info_derive:%s:%s" % (cname, name))
                res.disagreements.append({"op": "set_info", "what": "harness: set_info after the derivation %s of %s raised, its locality check is vacuous" % (name, cname)})
                continue
            if not fs_equal(before, state(nap, parent)):
                res.violations.append({"key": {"op": "set_info", "part": "visible_through_other_object", "container": cname, "derivation": name},
                                       "what": "set_info on a %s derived by %s changed the original" % (cname, name), "input": {"container": cname, "derivation": name}})


# ------------------------------------------------------------------------------------------------------
# (e) histories with mutators and with frames / tensors / groups as operands
EXTRA = ["make_frame", "make_tensor", "frame_ops", "frame_ops", "tensor_ops", "tensor_ops", "group_ops", "group_ops", "group_analyses", "group_analyses", "trial_tensors", "ep_ops"]


def apply_extra(R, name, rng):
    """operations on live TsdFrame / TsdTensor / TsGroup / IntervalSet operands; returns the list of results"""
    nap = R.nap
    live = R.objs + R.extra
    series = [o for o in live if isinstance(o, (nap.Tsd, nap.Ts)) and len(o) >= 2 and len(o.time_support)]
    frames = [o for o in live if isinstance(o, nap.TsdFrame) and len(o) >= 2 and o.shape[1] >= 1]
    tensors = [o for o in live if isinstance(o, nap.TsdTensor) and len(o) >= 2]
    groups = [o for o in live if isinstance(o, nap.TsGroup) and len(o) >= 2]
    eps = [o for o in live if isinstance(o, nap.IntervalSet) and len(o)]
    if not series:
        return []
    x = rng.choice(series)
    ep = rng.choice(eps) if eps else x.time_support
    b = (rng.choice([1, 2, 3]) * 2 * H.U2) / 1e9
    k3 = np.array([1.0, 2.0, 1.0])
    if name == "make_frame":
        v = np.arange(len(x), dtype=float)
        return [nap.TsdFrame(np.asarray(x.t), np.stack([v, v * 2 + 1], 1), time_support=x.time_support, columns=["a", "b"], metadata={"m": [1, 2]})]
    if name == "make_tensor":
        return [nap.TsdTensor(np.asarray(x.t), np.arange(4 * len(x), dtype=float).reshape(len(x), 2, 2), time_support=x.time_support)]
    if name == "frame_ops":
        if not frames:
            return []
        fr = rng.choice(frames)
        outs = [fr.restrict(ep), fr.bin_average(b, ep), fr[:, 0], fr[0:3], fr.get(float(fr.t[0]), float(fr.t[-1])), fr.dropna(), fr.interpolate(x, ep), np.sum(fr, 1), fr * 2 + 1,
                fr.convolve(k3), fr.count(b, ep), np.cumsum(fr, 0), fr[::-1], fr.copy(), fr.value_from(fr)]
        if np.all(np.diff(fr.t) > 0):
            outs.append(np.concatenate((fr[0:1], fr[1:]), 0))
        fr.as_dataframe(); fr.as_units("ms"); fr.metadata; fr.to_numpy(); fr.times("us")
        if "m" in fr.metadata_columns:
            outs += list(fr.groupby_apply("m", lambda z: z).values())
            fr.groupby("m"); fr.get_info("m")
        if fr.shape[1] >= 2:
            outs += [fr[:, [1, 0]], fr.loc[fr.columns[0]], np.hstack((fr, fr)) if False else fr[:, 1:]]
        return outs
    if name == "tensor_ops":
        if not tensors:
            return []
        te = rng.choice(tensors)
        return [te.restrict(ep), te.bin_average(b, ep), te[:, 0], te[:, 0, -1], te[0:3], np.mean(te, tuple(range(1, te.ndim))), np.sum(te, 1), te * 2, te.convolve(k3), te.count(b, ep), te.dropna(),
                te.get(float(te.t[0]), float(te.t[-1])), te.copy(), te.interpolate(x, ep), np.reshape(te, (len(te), -1)), np.swapaxes(te, 1, 2), te[::-1]]
    if name == "group_ops":
        if not groups:
            return []
        g = rng.choice(groups)
        outs = [g.count(b, ep), g.count(b), g.restrict(ep), g.value_from(x if isinstance(x, nap.Tsd) else nap.Tsd(np.asarray(x.t), np.arange(len(x), dtype=float), time_support=x.time_support)),
                g.to_tsd(), g.get(float(x.t[0]), float(x.t[-1])), g[g.rate >= 0], g[list(g.keys())[:1]], g.getby_threshold("rate", 0.0, ">="), g.trial_count(ep, b)]
        g.rates; g.metadata; g.keys(); g.values(); g.items(); g.get_info("rate"); g["rate"]
        cols = [c for c in g.metadata_columns if c != "rate"]
        if cols:
            c = cols[0]
            outs += [g.to_tsd(c)] + list(g.getby_category(c).values()) + list(g.groupby_apply(c, lambda z: z).values())
            g.groupby(c)
        outs += g.getby_intervals("rate", np.array([0.0, float(np.max(g.rate)) + 1.0]))[0]
        new_key = max(g.keys()) + 1
        extra = nap.TsGroup({new_key: nap.Ts(np.asarray(x.t))}, time_support=g.time_support, metadata={c: [g.metadata[c].iloc[0]] for c in cols})
        outs += [g.merge(extra), nap.TsGroup.merge_group(g, extra)]
        return outs
    if name == "group_analyses":
        if not groups:
            return []
        g = rng.choice(groups)
        xd = x if isinstance(x, nap.Tsd) else nap.Tsd(np.asarray(x.t), np.arange(len(x), dtype=float), time_support=x.time_support)
        feat = nap.Tsd(np.asarray(xd.t), (np.arange(len(xd)) % 3).astype(float) + 0.5, time_support=xd.time_support)
        feat2 = nap.TsdFrame(np.asarray(xd.t), np.stack([(np.arange(len(xd)) % 3).astype(float), (np.arange(len(xd)) % 2).astype(float)], 1), time_support=xd.time_support)
        R.extra += [feat, feat2]       # live from now on: snapshots of later calls cover them
        w = 2 * H.U2 / 1e9
        tc1 = nap.compute_1d_tuning_curves(g, feat, 3)
        tc2, xy = nap.compute_2d_tuning_curves(g, feat2, 2)
        outs = [nap.compute_event_trigger_average(g, xd, w, (w, w)), nap.compute_perievent(g, nap.Ts(np.asarray(x.t)[::2]), (-w, w))[list(g.keys())[0]],
                nap.build_tensor(g, ep, b) is None, nap.warp_tensor(g, ep, 3) is None]
        nap.compute_1d_mutual_info(tc1, feat); nap.compute_2d_mutual_info(tc2, feat2)
        nap.compute_autocorrelogram(g, w, 4 * w); nap.compute_crosscorrelogram(g, w, 4 * w); nap.compute_eventcorrelogram(g, nap.Ts(np.asarray(x.t)), w, 4 * w)
        nap.compute_discrete_tuning_curves(g, {"a": ep, "b": x.time_support})
        outs += [nap.decode_1d(tc1, g, ep, b)[0], nap.decode_2d(tc2, g, ep, b, xy)[0]]
        return outs
    if name == "trial_tensors":
        outs = []
        cand = frames + tensors + [o for o in series if isinstance(o, nap.Tsd)]
        if not cand:
            return []
        y = rng.choice(cand)
        y.to_trial_tensor(ep); nap.build_tensor(y, ep); nap.warp_tensor(y, ep, 3)
        y.trial_count(ep, b) if hasattr(y, "trial_count") else None
        if isinstance(y, nap.Tsd):
            lab = nap.Tsd(np.asarray(y.t), (np.arange(len(y)) % 3).astype(float), time_support=y.time_support)
            outs += [lab.to_tsgroup()]
        return outs
    if name == "ep_ops":
        e2 = rng.choice(eps) if eps else ep
        ep.get_intervals_center(); ep.time_span(); ep.as_units("ms"); ep.as_dataframe(); ep.tot_length(); ep.metadata; np.asarray(ep)
        outs = [ep[0], ep[[0]], ep.loc[[0]], ep.drop_long_intervals(b), ep.intersect(e2), ep.union(e2), ep.set_diff(e2), ep.split(b), ep.copy() if hasattr(ep, "copy") else ep[:]]
        return outs
    return []


def mutate(R, rng):
    """one sanctioned mutation of a random live object. returns (kind, target object, objects allowed to change, the object written into) or None"""
    nap = R.nap
    live = R.objs + R.extra
    cands = []
    for o in live:
        if is_series(nap, o) and len(o) >= 1:
            cands.append(("setitem", o))
            if len(o) >= 3:
                cands.append(("setitem_slice", o))
        if isinstance(o, nap.TsdFrame) and o.shape[1] >= 1:
            cands.append(("set_info", o)); cands.append(("setitem_column", o))
        if isinstance(o, nap.IntervalSet) and len(o):
            cands.append(("set_info", o))
        if isinstance(o, nap.TsGroup) and len(o):
            cands.append(("set_info", o))
            if any(isinstance(m, nap.Tsd) and len(m) for m in o.values()):
                cands.append(("member_setitem", o))
    if not cands:
        return None
    kind, o = rng.choice(cands)
    v = float(rng.choice([-99.0, 1e6, 0.25]))
    if kind == "setitem":
        o[rng.randrange(len(o))] = v
    elif kind == "setitem_slice":
        o[1:3] = v
    elif kind == "setitem_column":
        if rng.random() < 0.5 or not isinstance(o.columns[0], str):
            o[:, 0] = v
        else:
            o[o.columns[0]] = np.full(len(o), v)
    elif kind == "set_info":
        n = len(o.metadata_index)
        o.set_info(**{rng.choice(["zz", "yy"]): [rng.randrange(100) for _ in range(n)]})
    elif kind == "member_setitem":
        m = rng.choice([m for m in o.values() if isinstance(m, nap.Tsd) and len(m)])
        m[rng.randrange(len(m))] = v
        return kind, o, [o, m], m
    return kind, o, [o], o


def run_mut_history(nap, seed, hid, length):
    rng = random.Random(seed * 1000003 + hid)
    ops = H.gen_history(rng, length)
    R = H.Real(nap)
    fails, mfails, exc, done, dropped = [], [], [], [], []

    def live():
        return R.objs + R.extra

    def guard(label, f):
        objs = live()
        before = [state(nap, o) for o in objs]
        try:
            out = f()
        except Exception as ex:
            exc.append((label, type(ex).__name__ + ": " + str(ex)[:150]))
            out = None
        for i, o in enumerate(objs):
            if not fs_equal(before[i], state(nap, o)):
                fails.append((label, i, type(o).__name__))
        return out

    def keep(outs, before=None):
        """`before` (the objects live before the call) is given for H's 'as_class', where the HARNESS hands one fresh array to several constructors called without a time support (the constructor
        documents that it keeps the caller's array: ASSUMPTIONS[1]).  Of the results that share their values with each other and with NO object that was live before the call - sharing that
        can only come from that caller array - the first one is kept; the others do not enter the store (part (f) builds those forms from separate arrays)."""
        kept = []
        for y in outs or []:
            if isinstance(y, (nap.Ts, nap.Tsd, nap.TsdFrame, nap.TsdTensor, nap.TsGroup, nap.IntervalSet)):
                if before is not None and is_series(nap, y) and isinstance(y.values, np.ndarray):
                    old_share = any(is_series(nap, z) and isinstance(z.values, np.ndarray) and np.shares_memory(z.values, y.values) for z in before)
                    if not old_share and any(np.shares_memory(z.values, y.values) for z in kept if is_series(nap, z) and isinstance(z.values, np.ndarray)):
                        dropped.append(type(y).__name__)
                        continue
                kept.append(y)
                R.extra.append(y)

    for step, op in enumerate(ops):
        r = guard("op%d:%s" % (step, op[0]), lambda: H.apply_real(R, op, rng))
        if r is None:
            break
        R.objs.append(r[0])
        done.append(op[0])
        if step < 2:
            continue
        if rng.random() < 0.5:
            name = rng.choice(H.UNMODELLED)
            prior = live()
            keep(guard("unmodelled:" + name, lambda: H.apply_unmodelled(R, name, rng)), before=prior if name == "as_class" else None)
            done.append(name)
        if rng.random() < 0.7:
            name = rng.choice(EXTRA)
            keep(guard("extra:" + name, lambda: apply_extra(R, name, rng)))
            done.append("extra:" + name)
        if rng.random() < 0.5:
            objs = live()
            before = [state(nap, o) for o in objs]
            try:
                m = mutate(R, rng)
            except Exception as ex:
                exc.append(("mutate", type(ex).__name__ + ": " + str(ex)[:150]))
                m = None
            if m is None:
                continue
            kind, target, allowed, written = m
            done.append("mutate:" + kind)
            # a series handed out by g[k] IS the member of g: the one group holding the target by identity changes with it.  Two groups holding
            # the same member object is sharing introduced by an earlier operation (a selection that did not copy): the second one is reported.
            holders = [o for o in objs if isinstance(o, nap.TsGroup) and any(mm is written for mm in o.data.values())]
            if len(holders) == 1:
                allowed = allowed + holders
            changed_target = False
            for i, o in enumerate(objs):
                same = fs_equal(before[i], state(nap, o))
                if any(o is a for a in allowed):
                    changed_target = changed_target or not same
                    continue
                if not same:
                    owner = isinstance(o, nap.TsGroup) and any(mm is written for mm in o.data.values())
                    mfails.append((kind, type(target).__name__, type(o).__name__, i, bool(owner)))
    return {"fails": fails, "mfails": mfails, "exc": exc, "done": done, "n_live": len(live()), "dropped": dropped}


# ------------------------------------------------------------------------------------------------------
# (f) ARGUMENT FORMS: the same frame statement, on every accepted form of the inputs
DTYPES = ["float64", "float64", "float64", "float64", "float32", "float32", "int64", "int32", "int16", "int8", "uint8", "uint16", "uint32", "uint64", "bool"]
UNIT_F = {"s": 1.0, "ms": 1e3, "us": 1e6}
TFORMS = ["ndarray", "ndarray", "float32", "int64", "int32", "uint8", "uint16", "uint32", "uint64", "list", "int_list", "tuple", "series", "pdindex", "tsindex", "x.t", "unsorted", "strided_view"]
PLACES = {"origin": 0.0, "negative": -80.0, "straddle": -30.0, "far": 1e5}
# every new (dtype, ndim, layout) of the DATA and every new scalar type reaching a numba kernel (bin_average, threshold, count's dtype, perievent averages) is a new compiled specialisation
# (2-4 s each on a cold numba cache; the product of the axes is > 200 specialisations): the tiers bound that variety, for those four operations only.
# All other operations see every dtype.
JIT_DTYPES = {"quick": ("float64",), "thorough": ("float64", "float32", "int64", "uint8")}


def _el_equal(x, y):
    if x is y:
        return True
    try:
        if isinstance(x, float) and isinstance(y, float) and x != x and y != y:
            return True
        r = x == y
        return bool(r) if not hasattr(r, "all") else bool(np.all(r))
    except Exception:
        return False


def fs_equal(a, b):
    """exact equality of two form snapshots (dtype, shape, every element; NaN equals NaN)"""
    if type(a) is not type(b):
        return False
    if isinstance(a, (tuple, list)):
        return len(a) == len(b) and all(fs_equal(x, y) for x, y in zip(a, b))
    if isinstance(a, np.ndarray):
        if a.dtype != b.dtype or a.shape != b.shape:
            return False
        if a.dtype.kind == "O":
            return all(_el_equal(x, y) for x, y in zip(a.ravel().tolist(), b.ravel().tolist()))
        if a.dtype.kind in "fc":
            return bool(np.array_equal(a, b, equal_nan=True))
        return bool(np.array_equal(a, b))
    return _el_equal(a, b)


def _arr(a):
    return np.array(a, copy=True, subok=False)


def meta_snap(df):
    """a metadata frame, exactly: column labels, index, every column (with its dtype)"""
    cols = tuple(df.columns)
    if not cols:
        return ("M", (), _arr(df.index))
    return ("M", cols, _arr(df.index), tuple(_arr(df[c].to_numpy()) for c in cols))


def fstate(nap, o):
    """deep snapshot of a pynapple object for part (f): everything `state` holds, plus dtypes and the identity of group members.  (The metadata of a series' time support belongs to
    the IntervalSet object, which is snapshotted as an object of its own when it is live: x.time_support IS that object, ASSUMPTIONS[2].)"""
    try:
        if isinstance(o, nap.IntervalSet):
            return ("E", _arr(o.values), _arr(o.index), tuple(o.columns), meta_snap(o._metadata))
        if isinstance(o, nap.TsGroup):
            ks = tuple(o.data.keys())
            return ("G", ks, tuple(id(o.data[k]) for k in ks), tuple(fstate(nap, o.data[k]) for k in ks), _arr(o.time_support.values), _arr(o.index), meta_snap(o._metadata), len(o))
        vals = _arr(o.values) if hasattr(o, "values") else None
        if isinstance(o, nap.TsdFrame):
            return ("T", "TsdFrame", _arr(o.index), vals, _arr(o.time_support.values), tuple(o.columns), str(o.columns.dtype), meta_snap(o._metadata), float(o.rate))
        return ("T", type(o).__name__, _arr(o.index), vals, _arr(o.time_support.values), float(o.rate))
    except Exception as ex:
        return ("BROKEN", type(ex).__name__)


def arg_snap(nap, a, depth=0):
    """snapshot of a caller-supplied argument of any accepted form"""
    if isinstance(a, (nap.Ts, nap.Tsd, nap.TsdFrame, nap.TsdTensor, nap.TsGroup, nap.IntervalSet)):
        return ("O", id(a))         # a library object inside a caller's list / dict: the container must keep holding THIS object; its content is followed in the live store
    if isinstance(a, np.ndarray):
        return ("A", _arr(a))
    if isinstance(a, pd.DataFrame):
        return ("DF", meta_snap(a))
    if isinstance(a, pd.Series):
        return ("S", str(a.dtype), a.name, _arr(a.index), _arr(a.to_numpy()))
    if isinstance(a, pd.Index):
        return ("I", _arr(a))
    if isinstance(a, (list, tuple)) and depth < 4:
        return ("L" if isinstance(a, list) else "TU", tuple(arg_snap(nap, e, depth + 1) for e in a))
    if isinstance(a, dict) and depth < 4:
        return ("D", tuple(a.keys()), tuple(arg_snap(nap, v, depth + 1) for v in a.values()))
    if isinstance(a, (int, float, str, bool, type(None), np.generic, complex)):
        return ("V", type(a).__name__, a)
    return ("X", id(a))


def cls_of(nap, o):
    return H.class_name(nap, o)


class Forms:
    """engine of part (f): a store of live objects and of caller-supplied arguments; every call is run between two exact snapshots of ALL of them"""

    def __init__(self, res, nap, seed, wid, axes):
        self.res, self.nap, self.seed, self.wid, self.axes = res, nap, seed, wid, axes
        self.live, self.lsnap, self.lname = [], [], []
        self.caller, self.csnap = {}, {}
        self.donors = {}        # id(object) -> names of the caller arguments the (support-less) constructor documents as kept
        self.done, self.raised = {}, {}
        self.max_live = 30
        self.n = 0
        self.tier = "quick"

    def arg(self, name, a):
        k, n = name, 1
        while k in self.caller:
            n += 1
            k = "%s#%d" % (name, n)
        self.caller[k] = a
        self.csnap[k] = arg_snap(self.nap, a)
        return a

    def add(self, name, o):
        nap = self.nap
        for y in H.flatten_outputs(nap, o):
            if any(y is z for z in self.live):
                continue
            if len(self.live) >= self.max_live:
                break
            self.live.append(y); self.lsnap.append(fstate(nap, y)); self.lname.append(name)
        return o

    def _inp(self, op, label, forms):
        return {"form_world": [self.seed, self.wid, self.tier], "axes": self.axes, "op": op, "call": label, "forms": forms}

    def run(self, op, label, thunk, forms=None, extra=None, mutates=(), keep=True):
        """one public call. `extra`: caller arguments of this call only ({name: value}); `mutates`: the objects a sanctioned mutator addresses"""
        res, nap = self.res, self.nap
        forms = forms or {}
        ex_snap = {k: arg_snap(nap, v) for k, v in (extra or {}).items()}
        self.n += 1
        res.case(("form", self.wid, self.n, op), nontrivial=bool(self.live))
        res.count("form_op=" + op)
        for k, v in forms.items():
            res.count("form:%s=%s" % (k, v))
        out, ok = None, True
        try:
            out = thunk()
        except Exception as ex:
            ok = False
            self.raised.setdefault(op, []).append("%s: %s: %s" % (label, type(ex).__name__, str(ex)[:120]))
            res.count("form_exception=" + op)
        if ok:
            self.done[op] = self.done.get(op, 0) + 1
        allowed_callers = set()
        for m in mutates:
            allowed_callers.update(self.donors.get(id(m), ()))
        for k, v in list(self.caller.items()) + list((extra or {}).items()):
            sn = self.csnap[k] if k in self.csnap else ex_snap[k]
            now = arg_snap(nap, v)
            if not fs_equal(sn, now):
                if k in self.csnap:
                    self.csnap[k] = now
                if k in allowed_callers:
                    continue
                res.violations.append({"key": {"op": op, "part": "caller_array_modified", "array": k.split("#")[0], "forms": True},
                                       "what": "a caller-supplied argument (%s, %s) was modified by %s [%s]" % (k, type(v).__name__, op, label), "input": self._inp(op, label, forms)})
        holders = [o for o in self.live if isinstance(o, nap.TsGroup) and any(any(mm is m for m in mutates) for mm in o.data.values())]
        for i, o in enumerate(self.live):
            now = fstate(nap, o)
            if fs_equal(self.lsnap[i], now):
                continue
            self.lsnap[i] = now
            if any(o is m for m in mutates) or (len(holders) == 1 and o is holders[0]):
                continue
            part = "visible_through_other_object" if mutates else "argument_modified"
            res.violations.append({"key": {"op": op, "part": part, "object": cls_of(nap, o), "forms": True},
                                   "what": "a live %s (%s) changed across %s [%s]" % (cls_of(nap, o), self.lname[i], op, label), "input": self._inp(op, label, forms)})
        if ok and keep:
            self.add(op, out)
        return out if ok else None


def pk(rng, f, args):
    """the call f(args) with a random prefix of the arguments given positionally and the rest by keyword; returns (thunk, number of positional arguments)"""
    try:
        names = [n for n, p_ in inspect.signature(f).parameters.items() if p_.kind in (p_.POSITIONAL_ONLY, p_.POSITIONAL_OR_KEYWORD)]
    except (TypeError, ValueError):
        names = [n for n, _ in args]
    kmax = 0
    while kmax < len(args) and kmax < len(names) and args[kmax][0] == names[kmax]:
        kmax += 1
    k = rng.randint(0, kmax)
    pos = [v for _, v in args[:k]]
    kw = {n: v for n, v in args[k:]}
    return (lambda: f(*pos, **kw)), k


def sc(rng, v, kinds=("float", "int", "np.float64", "np.int64", "np.float32")):
    """the scalar v in another accepted spelling (only spellings that denote the same number are used)"""
    kind = rng.choice(kinds)
    if kind == "int" and float(v) == int(v):
        return int(v), "int"
    if kind == "np.int64" and float(v) == int(v):
        return np.int64(int(v)), "np.int64"
    if kind == "np.int32" and float(v) == int(v) and abs(v) < 2**31:
        return np.int32(int(v)), "np.int32"
    if kind == "np.float32" and float(np.float32(v)) == float(v):
        return np.float32(v), "np.float32"
    if kind == "np.float64":
        return np.float64(v), "np.float64"
    if kind == "0d":
        return np.array(float(v)), "0d"
    return float(v), "float"


def in_unit(v, u):
    return v * UNIT_F[u]


def tform(F, rng, tsec, tf, unit, donor=None):
    """timestamps `tsec` (float64 seconds) in the form `tf`, expressed in `unit`; the value is registered as a caller argument. returns (argument, unit actually meant)"""
    v = np.asarray(tsec, dtype=np.float64) * UNIT_F[unit]
    if tf in ("tsindex", "x.t"):
        if donor is None or len(donor) != len(tsec):
            donor = F.add("donor_ts", F.nap.Ts(np.asarray(tsec, dtype=np.float64).copy(), time_support=F.nap.IntervalSet(float(np.min(tsec)) - 1, float(np.max(tsec)) + 1)) if len(tsec) else F.nap.Ts(np.array([])))
        return (donor.index if tf == "tsindex" else donor.t), "s"
    if tf == "ndarray":
        a = v.copy()
    elif tf == "float32":
        a = v.astype(np.float32)
    elif tf in ("int64", "int32", "uint8", "uint16", "uint32", "uint64"):
        r = np.rint(v)
        dt = np.dtype(tf)
        if len(r) and (dt.kind == "u" and r.min() < 0 or r.max() > np.iinfo(dt).max or r.min() < np.iinfo(dt).min):
            dt = np.dtype("int64")
        a = r.astype(dt)
    elif tf == "list":
        a = [float(x) for x in v]
    elif tf == "int_list":
        a = [int(round(x)) for x in v]
    elif tf == "tuple":
        a = tuple(float(x) for x in v)
    elif tf == "series":
        a = pd.Series(v.copy())
    elif tf == "pdindex":
        a = pd.Index(v.copy())
    elif tf == "unsorted":
        a = v.copy()
        if len(a) >= 2:
            a[[0, -1]] = a[[-1, 0]]
    elif tf == "strided_view":
        big = F.arg("t_base", np.repeat(v, 2))
        return big[::2], unit
    else:
        raise ValueError(tf)
    return F.arg("t", a), unit


def make_data(rng, n, shape, dtype, special):
    """values of the given dtype; NaN / infinities only exist for floating dtypes"""
    size = int(n * int(np.prod(shape)))
    base = (np.arange(size) % 7 + 1).astype(np.float64)
    if special == "all_equal":
        base[:] = 3.0
    elif special == "zeros":
        base[:] = 0.0
    dt = np.dtype(dtype)
    if dt.kind == "b":
        a = (np.arange(size) % 2 == 0) if special not in ("all_equal", "zeros") else np.full(size, special == "all_equal")
    else:
        a = base.astype(dt)
    a = a.reshape((n,) + tuple(shape))
    if dt.kind == "f" and n:
        rows = list(range(n))
        rng.shuffle(rows)
        if special in ("nan", "mix"):
            for r in rows[: max(1, n // 5)]:
                a[r] = np.nan
        if special in ("+inf", "mix", "inf_pair"):
            a[rows[-1]] = np.inf
        if special in ("-inf", "mix", "inf_pair") and n >= 2:
            a[rows[-2]] = -np.inf
            if special == "inf_pair" and a.ndim > 1:      # +inf and -inf in ONE row: the row sum is NaN although no entry is
                a[rows[-2]].flat[0] = np.inf
    return a


def build_world(F, rng):
    """the live objects of one world, built through the public constructors in the forms drawn into F.axes (every constructor call is a guarded call)"""
    nap, ax = F.nap, F.axes
    off = PLACES[ax["place"]]
    unit = ax["unit"]
    size = ax["size"]
    n = {"many": rng.randint(12, 40), "one": 1, "empty": 0, "dup": rng.randint(8, 20), "equal_times": 5, "two": 2}[size]
    ks = sorted(rng.sample(range(0, 60), n)) if size not in ("dup", "equal_times") else sorted(rng.choices(range(0, 60, 4), k=n))
    if size == "equal_times":
        ks = [17] * n
    tsec = off + np.asarray(ks, dtype=np.float64)
    W = {"n": n, "tsec": tsec, "off": off}
    # --- interval sets, in the form axes of start / end
    s_sec = off + np.array([2.0, 22.0, 44.0]); e_sec = off + np.array([17.0, 38.0, 58.0])     # samples fall exactly on starts and ends (integer seconds)
    sform = ax["sform"]
    uf = UNIT_F[unit]

    def sef(v):
        v = v * uf
        if sform == "list":
            return F.arg("se", [float(x) for x in v])
        if sform == "tuple":
            return F.arg("se", tuple(float(x) for x in v))
        if sform == "series":
            return F.arg("se", pd.Series(v))
        if sform in ("int64", "int32", "uint32", "uint64", "float32"):
            dt = np.dtype(sform)
            if dt.kind == "u" and v.min() < 0:
                dt = np.dtype("int64")
            return F.arg("se", np.rint(v).astype(dt))
        if sform == "unsorted":
            return F.arg("se", v[::-1].copy())
        return F.arg("se", v.copy())
    S, E = sef(s_sec), sef(e_sec)
    mform = ax["meta"]
    labs = ["a", "b", "a"]
    if sform == "unsorted":
        mform = "none"
    meta = {"none": None, "dict": {"lab": labs, "w": np.array([1.0, 2.0, 3.0])}, "frame": pd.DataFrame({"lab": labs, "w": [1.0, 2.0, 3.0]}), "dict_tuple": {"lab": tuple(labs)}}[mform]
    if meta is not None:
        F.arg("ep_meta", meta)
    args = [("start", S), ("end", E)] + ([("time_units", unit)] if unit != "s" or rng.random() < 0.3 else []) + ([("metadata", meta)] if meta is not None else [])
    th, k = pk(rng, nap.IntervalSet, args)
    ep = F.run("IntervalSet", "ctor(start,end)", th, {"npos": k, "se_form": sform, "unit": unit, "ep_meta": mform})
    if ep is None:
        ep = F.add("fallback_ep", nap.IntervalSet(s_sec, e_sec))
    W["ep"] = ep
    # other constructor forms of the same intervals
    pairs = F.arg("pairs", np.stack([s_sec, e_sec], 1) * uf)
    alt = rng.choice(["pairs_array", "pairs_list", "from_iset", "from_frame", "scalars", "0d", "np_scalars"])
    if alt == "pairs_array":
        th = lambda: nap.IntervalSet(pairs, time_units=unit)
    elif alt == "pairs_list":
        pl = F.arg("pairs", [[float(a), float(b)] for a, b in pairs])
        th = lambda: nap.IntervalSet(pl, None, unit)
    elif alt == "from_iset":
        th = lambda: nap.IntervalSet(ep)
    elif alt == "from_frame":
        df = F.arg("ep_frame", pd.DataFrame({"start": s_sec[::-1] if rng.random() < 0.5 else s_sec, "end": e_sec, "lab": [1, 2, 3]}))
        th = lambda: nap.IntervalSet(df)
    elif alt == "scalars":
        a, b = sc(rng, float(s_sec[0]))[0], sc(rng, float(e_sec[-1]))[0]
        th = lambda: nap.IntervalSet(a, b)
    elif alt == "0d":
        a, b = F.arg("se0d", np.array(float(s_sec[0]))), F.arg("se0d", np.array(float(e_sec[-1])))
        th = lambda: nap.IntervalSet(start=a, end=b)
    else:
        a, b = np.float32(s_sec[0]), np.int64(e_sec[-1])
        th = lambda: nap.IntervalSet(a, end=b)
    W["ep2"] = F.run("IntervalSet", "ctor:" + alt, th, {"ep_ctor": alt}) or ep
    W["ep_empty"] = F.run("IntervalSet", "ctor:empty", rng.choice([lambda: nap.IntervalSet([], []), lambda: nap.IntervalSet(start=np.array([]), end=np.array([]))]), {"ep_ctor": "empty"})
    W["ep_one"] = F.run("IntervalSet", "ctor:one", lambda: nap.IntervalSet(off - 5.0, off + 70.0), {"ep_ctor": "one"})
    ms = off + np.arange(0.0, 60.0, 5.0)
    W["ep_many"] = F.run("IntervalSet", "ctor:many", lambda: nap.IntervalSet(ms, ms + rng.choice([0.5, 1.0, 3.0])), {"ep_ctor": "many"})      # intervals holding zero or one sample
    sup = W["ep_one"] if size in ("one", "equal_times", "empty") or rng.random() < 0.4 else (ep if rng.random() < 0.5 else None)
    W["sup"] = sup
    dt, sp = ax["dtype"], ax["special"]
    donor = None
    # --- the four series classes
    def ctor(cls, shape, cname):
        nonlocal donor
        tf = ax["tform"] if rng.random() < 0.7 else rng.choice(TFORMS)
        tt, u = tform(F, rng, tsec, tf, unit, donor)
        args = [("t", tt)]
        d = None
        if cls is not nap.Ts:
            d = make_data(rng, n, shape, dt, sp)
            dform = rng.choice(["ndarray", "ndarray", "ndarray", "list", "fortran", "view"]) if n else "ndarray"
            if dform == "list":
                d = d.tolist()
            elif dform == "fortran" and d.ndim > 1:
                d = np.asfortranarray(d)
            elif dform == "view":
                big = F.arg("d_base", np.repeat(d, 2, axis=0))
                d = big[::2]
            d = F.arg("d", d) if dform != "view" else d
            args.append(("d", d))
        mysup = sup
        if u != "s" or rng.random() < 0.3:
            args.append(("time_units", u))
        if mysup is not None:
            args.append(("time_support", mysup))
        extra_f = {}
        if cls is nap.TsdFrame:
            cform = ax["cols"]
            cols = {"default": None, "str": ["a", "b", "c"], "int_unsorted": [7, 3, 5], "int_array": np.array([10, 20, 30]), "pdindex": pd.Index(["x", "y", "z"]), "float": [0.5, 1.5, 2.5], "mixed_order": ["c", "a", "b"]}[cform]
            if cols is not None:
                F.arg("columns", cols)
                args.append(("columns", cols))
            fm = rng.choice(["none", "dict", "frame"])
            if fm != "none":
                idx = pd.Index(cols) if cols is not None else pd.RangeIndex(3)
                m = {"m": [1, 2, 1], "q": np.array(["u", "v", "w"])} if fm == "dict" else pd.DataFrame({"m": [1, 2, 1]}, index=idx)
                F.arg("frame_meta", m)
                args.append(("metadata", m))
            extra_f = {"cols": cform, "frame_meta": fm}
        # required arguments t, d stay in signature order; the optional ones are shuffled behind them when given by keyword
        th, k = pk(rng, cls, args) if rng.random() < 0.7 else ((lambda: cls(**dict(args))), 0)
        fm_ = {"npos": k, "tform": tf, "unit": u, "dtype": dt, "special": sp, "size": size, "support": "given" if mysup is not None else "default"}
        fm_.update(extra_f)
        o = F.run(cname, "ctor", th, fm_)
        if o is not None and mysup is None and isinstance(d, np.ndarray):
            F.donors[id(o)] = [k_ for k_, v_ in F.caller.items() if isinstance(v_, np.ndarray) and np.shares_memory(v_, d)]
        if o is not None and donor is None and len(o) == n and n:
            donor = o
        return o
    W["ts"] = ctor(nap.Ts, (), "Ts")
    W["tsd"] = ctor(nap.Tsd, (), "Tsd")
    W["frame"] = ctor(nap.TsdFrame, (3,), "TsdFrame")
    W["tensor"] = ctor(nap.TsdTensor, (2, 2), "TsdTensor")
    if rng.random() < 0.3 and n:
        df = F.arg("dataframe", pd.DataFrame(make_data(rng, n, (2,), "float64", "none"), index=tsec * uf, columns=["p", "q"]))
        fr2 = F.run("TsdFrame", "ctor(DataFrame)", lambda: nap.TsdFrame(df, time_units=unit), {"tform": "DataFrame", "unit": unit})
        if fr2 is not None:
            F.donors[id(fr2)] = [k_ for k_, v_ in F.caller.items() if v_ is df]
    if rng.random() < 0.4 and n:
        ser = F.arg("series", pd.Series(make_data(rng, n, (), "float64", "none"), index=tsec * uf))
        ts2 = F.run("Tsd", "ctor(Series)", (lambda: nap.Tsd(ser, time_units=unit)) if rng.random() < 0.5 else (lambda: nap.Tsd(t=ser, time_units=unit, time_support=W["ep_one"])), {"tform": "Series(t,d)", "unit": unit})
        if ts2 is not None:
            F.donors[id(ts2)] = [k_ for k_, v_ in F.caller.items() if v_ is ser]
    # --- groups
    # a dict of raw timestamp arrays (keys already sorted integers / unsorted / strings): the constructor converts the members, never inside the caller's dict
    rk = rng.choice([[0, 1, 2], [0, 1, 2], [5, 2, 9], ["1", "0", "2"]])
    raw = F.arg("group_data", dict(zip(rk, [tsec.copy() * uf, tsec[::2].copy() * uf, [float(x) for x in tsec[1::3] * uf]])))
    th, k = pk(rng, nap.TsGroup, [("data", raw), ("time_support", W["ep_one"]), ("time_units", unit)])
    F.run("TsGroup", "ctor(dict of arrays)", th, {"npos": k, "keys": "sorted ints" if rk == [0, 1, 2] else str(type(rk[0]).__name__) + " unsorted", "members": "raw arrays", "unit": unit})
    kform = ax["keys"]
    keys = {"0..n-1": [0, 1, 2], "gaps_unsorted": [7, 2, 31], "str": ["10", "2", "31"], "float": [4.0, 1.0, 9.0], "np.int64": [np.int64(5), np.int64(3), np.int64(12)], "multi_digit": ["100", "20", "3"]}[kform]
    gsup = W["ep_one"] if rng.random() < 0.6 else None
    mem_form = ax["members"]
    half = tsec[::2]
    if mem_form == "Ts":
        mem = [nap.Ts(tsec.copy(), time_support=gsup), nap.Ts(half.copy(), time_support=gsup), nap.Ts(tsec[1::3].copy(), time_support=gsup)]
    elif mem_form == "Tsd":
        mem = [nap.Tsd(tsec.copy(), np.arange(n, dtype=float), time_support=gsup), nap.Tsd(half.copy(), np.arange(len(half), dtype=float) + 10, time_support=gsup), nap.Ts(tsec[1::3].copy(), time_support=gsup)]
    elif mem_form == "empty_member":
        mem = [nap.Ts(tsec.copy(), time_support=gsup), nap.Ts(np.array([])), nap.Ts(half.copy(), time_support=gsup)]
    elif mem_form == "arrays":
        mem = [F.arg("member_t", tsec.copy() * uf), F.arg("member_t", half.copy() * uf), F.arg("member_t", [float(x) for x in tsec[1::3] * uf])]
    else:       # live: members are live objects of this world (the same object may sit in two groups)
        a_ = W["ts"] if W["ts"] is not None else nap.Ts(tsec.copy())
        b_ = W["tsd"] if W["tsd"] is not None else nap.Ts(half.copy())
        mem = [a_, b_, a_] if rng.random() < 0.5 else [a_, b_, nap.Ts(half.copy())]
    for m_ in mem:
        if isinstance(m_, nap.Ts) or isinstance(m_, nap.Tsd):
            F.add("member", m_)
    cont = rng.choice(["dict", "dict", "list", "tuple"]) if kform == "0..n-1" else "dict"
    data = dict(zip(keys, mem)) if cont == "dict" else (list(mem) if cont == "list" else tuple(mem))
    F.arg("group_data", data)
    gm = rng.choice(["none", "dict", "frame", "kwargs"])
    ikeys = sorted(int(float(k_)) for k_ in keys) if cont == "dict" else [0, 1, 2]
    gmeta = {"none": None, "kwargs": None, "dict": {"cat": [1, 2, 1], "lab": ["x", "y", "z"]}, "frame": pd.DataFrame({"cat": [1, 2, 1]}, index=ikeys)}[gm]
    if gmeta is not None:
        F.arg("group_meta", gmeta)
    gargs = [("data", data)]
    if gsup is not None or (n <= 1 or size == "equal_times"):
        gargs.append(("time_support", gsup if gsup is not None else W["ep_one"]))
    if mem_form == "arrays" and unit != "s":
        gargs.append(("time_units", unit))
    byp = rng.random() < 0.3
    if byp:
        gargs.append(("bypass_check", True))
    if gmeta is not None:
        gargs.append(("metadata", gmeta))
    th, k = pk(rng, nap.TsGroup, gargs)
    if gm == "kwargs":
        th0, catv = th, F.arg("group_meta", np.array([1, 2, 1]))
        th = lambda: nap.TsGroup(**dict(gargs), cat=catv)
    W["group"] = F.run("TsGroup", "ctor", th, {"npos": k, "keys": kform, "members": mem_form, "container": cont, "group_meta": gm, "bypass_check": byp, "group_support": "given" if len(gargs) > 1 and gargs[1][0] == "time_support" else "default"})
    W["group_empty"] = F.run("TsGroup", "ctor:empty", lambda: nap.TsGroup({}, time_support=W["ep_one"]), {"group": "empty"})
    g2keys = [41, 40]
    W["group2"] = F.run("TsGroup", "ctor:second", lambda: nap.TsGroup({g2keys[0]: nap.Ts(tsec[::3].copy()), g2keys[1]: nap.Ts(half.copy())}, time_support=(W["group"].time_support if W["group"] is not None else W["ep_one"]),
                                                                     metadata=({"cat": [5, 6]} if gm in ("dict", "frame", "kwargs") and gm != "dict" else ({"cat": [5, 6], "lab": ["p", "q"]} if gm == "dict" else None))), {"group": "second"})
    return W


def _pick(rng, xs, k):
    xs = list(xs)
    rng.shuffle(xs)
    return xs[:k]


def form_ops(F, rng, W, budget, scratch):
    """public operations on the live objects of a world, each with its arguments in forms drawn at random (position / keyword, unit, scalar spelling, option values, operand class).
    Results join the live store and are drawn as operands of later calls."""
    nap = F.nap
    off = W["off"]

    def live_of(*cls):
        return [o for o in F.live if isinstance(o, cls)]

    def series(data=False, min_len=0, jit=False):
        c = (nap.Tsd, nap.TsdFrame, nap.TsdTensor) if data else (nap.Ts, nap.Tsd, nap.TsdFrame, nap.TsdTensor)
        xs = [o for o in F.live if isinstance(o, c) and len(o) >= min_len and (not jit or jit_ok(o))]
        return rng.choice(xs) if xs else None

    def jit_ok(o):
        """may this object's data reach a numba kernel in this tier (see JIT_DTYPES)"""
        if isinstance(o, (nap.Ts, nap.TsGroup, nap.IntervalSet)):
            return True
        return str(o.dtype) in JIT_DTYPES[F.tier] and (F.tier != "quick" or (isinstance(o.values, np.ndarray) and o.values.flags.c_contiguous))

    def an_ep(nonempty=False):
        xs = [o for o in live_of(nap.IntervalSet) if len(o) or not nonempty]
        return rng.choice(xs) if xs else W["ep"]

    def a_group(min_len=0):
        xs = [o for o in live_of(nap.TsGroup) if len(o) >= min_len]
        return rng.choice(xs) if xs else None

    def unit_arg(v):
        u = rng.choice(["s", "ms", "us"])
        return v * UNIT_F[u], u

    def do(op, label, f, args, forms=None, extra=None, **kw):
        th, k = pk(rng, f, args)
        fm = {"npos": k}
        fm.update(forms or {})
        return F.run(op, label, th, fm, extra=extra, **kw)

    ops = []

    def reg(name, weight=1):
        def deco(fn):
            ops.extend([(name, fn)] * weight)
            return fn
        return deco

    @reg("restrict", 3)
    def _():
        x, ep = series(), an_ep()
        do("restrict", cls_of(nap, x), x.restrict, [("iset", ep)], {"recv": cls_of(nap, x), "ep": "empty" if not len(ep) else "own" if ep is x.time_support else str(min(len(ep), 4))})
        if rng.random() < 0.3:
            do("restrict", "own_support", x.restrict, [("iset", x.time_support)], {"recv": cls_of(nap, x), "ep": "own"})

    @reg("count", 3)
    def _():
        x = series() if rng.random() < 0.7 else (a_group() or series())
        ep = an_ep()
        b, u = unit_arg(rng.choice([1.0, 2.0, 0.5, 7.0]))
        bv, bk = sc(rng, b, ("float", "int", "float", "np.float64"))
        args = []
        mode = rng.choice(["bin", "bin_ep", "ep", "none", "all"])
        if mode in ("bin", "bin_ep", "all"):
            args.append(("bin_size", bv))
        elif rng.random() < 0.3:
            args.append(("bin_size", None))
        if mode in ("bin_ep", "ep", "all"):
            args.append(("ep", ep))
        elif rng.random() < 0.3 and args:
            args.append(("ep", None))
        if mode in ("bin", "bin_ep", "all") and (u != "s" or rng.random() < 0.3) and len(args) == 2:
            args.append(("time_units", u))
        elif mode in ("bin", "bin_ep", "all"):
            args[0] = ("bin_size", sc(rng, b / UNIT_F[u], ("float", "int"))[0])
        if mode == "all" and len(args) == 3:
            args.append(("dtype", rng.choice([None, np.int32] if F.tier == "quick" else [None, np.int32, "float32", bool])))
        do("count", "%s:%s" % (cls_of(nap, x), mode), x.count, args, {"recv": cls_of(nap, x), "count_mode": mode, "unit": u, "scalar": bk})

    @reg("bin_average", 2)
    def _():
        x = series(data=True, jit=True)
        if x is None:
            F.res.count("form_skipped:bin_average(dtype outside the tier's compiled set)")
            return
        b, u = unit_arg(rng.choice([1.0, 2.0, 3.0, 0.25]))
        bv, bk = sc(rng, b, ("float", "np.float64"))
        args = [("bin_size", bv)]
        if rng.random() < 0.6:
            args.append(("ep", an_ep() if rng.random() < 0.8 else None))
            if u != "s" or rng.random() < 0.3:
                args.append(("time_units", u))
            else:
                args[0] = ("bin_size", b / UNIT_F[u])
        else:
            args[0] = ("bin_size", b / UNIT_F[u])
        do("bin_average", cls_of(nap, x), x.bin_average, args, {"recv": cls_of(nap, x), "scalar": bk, "dtype": str(x.dtype)})

    @reg("value_from", 2)
    def _():
        x = series() if rng.random() < 0.75 else (a_group() or series())
        y = series(data=True)
        if y is None:
            return
        if rng.random() < 0.15:
            y = x if isinstance(x, (nap.Tsd, nap.TsdFrame, nap.TsdTensor)) else y        # the same live object used twice
        args = [("tsd" if isinstance(x, nap.TsGroup) else "data", y)]
        mode = rng.choice(["closest", "before", "after"])
        r = rng.random()
        if r < 0.6:
            args.append(("ep", an_ep() if rng.random() < 0.8 else None))
            if rng.random() < 0.7:
                args.append(("mode", mode))
        elif r < 0.8:
            args.append(("mode", mode))
        do("value_from", "%s<-%s" % (cls_of(nap, x), cls_of(nap, y)), x.value_from, args, {"recv": cls_of(nap, x), "source": cls_of(nap, y), "mode": mode if len(args) > 1 and args[-1][0] == "mode" else "default",
                                                                                            "same_object": x is y})

    @reg("get", 2)
    def _():
        x = series() if rng.random() < 0.8 else (a_group() or series())
        a, b = sorted([off + rng.choice([-3.0, 0.0, 5.0, 17.0, 30.5, 44.0]), off + rng.choice([2.0, 17.0, 38.0, 58.0, 70.0])])
        u = rng.choice(["s", "ms", "us"])
        av, ak = sc(rng, a * UNIT_F[u], ("float", "int", "np.float64", "np.int64", "np.float32"))
        args = [("start", av)]
        if rng.random() < 0.75:
            args.append(("end", sc(rng, b * UNIT_F[u])[0]))
        elif u != "s":
            args.append(("end", None))
        if u != "s":
            args.append(("time_units", u))
        else:
            args[0] = ("start", sc(rng, a)[0])
            if len(args) > 1:
                args[1] = ("end", sc(rng, b)[0])
        do("get", cls_of(nap, x), x.get, args, {"recv": cls_of(nap, x), "unit": u, "scalar": ak, "window": len(args) > 1 and args[1][1] is not None})
        if not isinstance(x, nap.TsGroup) and rng.random() < 0.4:
            a2 = [("start", float(a))] + ([("end", float(b)), ("time_unit", "s")] if rng.random() < 0.6 else [])
            do("get_slice", cls_of(nap, x), x.get_slice, a2, keep=False)

    @reg("queries", 2)
    def _():
        x = series()
        u = rng.choice(["s", "ms", "us"])
        F.run("queries", "times/start/end/as_units", lambda: (x.times(u), x.times(units=u), x.start_time(u), x.end_time(units=u), x.as_units(u) if hasattr(type(x), "as_units") else None, x.start, x.end, x.t, x.index, x.rate, x.time_support, x.shape, len(x), repr(x), str(x)),
              {"recv": cls_of(nap, x), "unit": u}, keep=False)
        if not isinstance(x, nap.Ts):
            F.run("queries", "data views", lambda: (x.d, x.values, x.as_array(), x.data(), x.to_numpy(), np.asarray(x), x.ndim, x.size, x.dtype, x.__array__(), np.array(x, dtype=float)), {"recv": cls_of(nap, x)}, keep=False)
        if isinstance(x, (nap.Ts, nap.Tsd)):
            F.run("queries", "as_series", lambda: x.as_series(), {"recv": cls_of(nap, x)}, keep=False)
        if isinstance(x, nap.TsdFrame):
            F.run("queries", "as_dataframe", lambda: (x.as_dataframe(), x.columns, x.metadata, x.metadata_columns, x.metadata_index), {"recv": "TsdFrame"}, keep=False)
        if len(x):
            g, gk = sc(rng, rng.choice([1.0, 2.0, 5.0]) * UNIT_F[u], ("float", "int", "np.float64", "np.int64", "np.float32"))
            do("find_support", cls_of(nap, x), x.find_support, [("min_gap", g)] + ([("time_units", u)] if u != "s" else []) if u != "s" else [("min_gap", sc(rng, 2.0)[0])], {"recv": cls_of(nap, x), "unit": u, "scalar": gk})
        do("copy", cls_of(nap, x), x.copy, [], {"recv": cls_of(nap, x)})
        if isinstance(x, nap.Ts):
            v, vk = sc(rng, 2.0, ("float", "int", "np.float32", "np.int64"))
            do("fillna", "Ts", x.fillna, [("value", v)], {"scalar": vk})

    @reg("slicing", 3)
    def _():
        x = series()
        n = len(x)
        c = cls_of(nap, x)
        idx = list(range(n)); rng.shuffle(idx)
        keys = [("[a:b]", slice(1, max(1, n - 1))), ("[::2]", slice(None, None, 2)), ("[::-1]", slice(None, None, -1)), ("[:]", slice(None)), ("[0:0]", slice(0, 0)), ("[...]", Ellipsis),
                ("[list non-monotone]", idx[:4]), ("[int array]", np.array(idx[:3], dtype=np.int64)), ("[uint8 array]", np.array(sorted(i for i in idx if i < 256)[:3], dtype=np.uint8)), ("[bool array]", np.arange(n) % 2 == 0),
                ("[bool list]", [bool(i % 3) for i in range(n)]), ("[all False]", np.zeros(n, dtype=bool))]
        if n:
            keys += [("[int]", n // 2), ("[-1]", -1), ("[np.int64]", np.int64(0)), ("[repeated]", [0, 0, n - 1])]
            keys.append(("[bool Tsd]", nap.Tsd(np.asarray(x.t), np.arange(n) % 2 == 0, time_support=x.time_support)))
            keys.append(("[get_slice]", x.get_slice(float(x.t[0]), float(x.t[-1]))))
        if c == "TsdFrame" and x.shape[1] >= 2:
            cols = list(x.columns)
            keys += [("[:,0]", (slice(None), 0)), ("[:,[1,0]]", (slice(None), [1, 0])), ("[:,bool]", (slice(None), np.arange(x.shape[1]) % 2 == 0)), ("[a:b,0:2]", (slice(0, 3), slice(0, 2))), ("[:,-1]", (slice(None), -1)),
                     ("[int,:]", (0, slice(None))) if n else ("[:,0:1]", (slice(None), slice(0, 1)))]
            if all(isinstance(cc, str) for cc in cols):
                keys += [("['label']", cols[0]), ("[['l2','l1']]", [cols[1], cols[0]]), ("[('l1','l2')]", (cols[0], cols[1]))]
            F.run("slicing", "loc[label]", lambda: (x.loc[cols[-1]], x.loc[[cols[1], cols[0]]], x.loc[cols]), {"recv": c, "key": "loc", "cols": str(type(cols[0]).__name__)})
        if c == "TsdTensor":
            keys += [("[:,0]", (slice(None), 0)), ("[:,0,1]", (slice(None), 0, 1)), ("[:,:,[1,0]]", (slice(None), slice(None), [1, 0])), ("[...,0]", (Ellipsis, 0)), ("[a:b,None]", (slice(0, 2), None))]
        if c == "Tsd":
            keys += [("[:,None]", (slice(None), None))]
        for lab, key in _pick(rng, keys, 5):
            F.run("slicing", "%s%s" % (c, lab), lambda key=key: x[key], {"recv": c, "key": lab}, extra={"key": key} if isinstance(key, (list, np.ndarray, tuple)) else None)

    @reg("dropna_threshold", 2)
    def _():
        x = series(data=True)
        if x is None:
            return
        c = cls_of(nap, x)
        r = rng.random()
        args = [] if r < 0.3 else [("update_time_support", rng.choice([True, False]))]
        do("dropna", c, x.dropna, args, {"recv": c, "dtype": str(x.dtype), "update_time_support": str(args[0][1]) if args else "default"})
        xs = live_of(nap.Tsd)
        if xs:
            y = rng.choice(xs)
            m = rng.choice(["above", "below", "aboveequal", "belowequal"])
            tv, tk = sc(rng, rng.choice([3.0, 0.0, 1.0, 5.0]), ("float",) if F.tier == "quick" else ("float", "int", "np.float64"))
            if not jit_ok(y):
                F.res.count("form_skipped:threshold(dtype outside the tier's compiled set)")
                xs = []
        if xs:
            do("threshold", m, y.threshold, [("thr", tv)] + ([("method", m)] if m != "above" or rng.random() < 0.5 else []), {"dtype": str(y.dtype), "method": m, "scalar": tk})
            if y.dtype.kind in "iub" or (y.dtype.kind == "f" and len(y) and np.all(np.isfinite(y.values))):
                do("to_tsgroup", str(y.dtype), y.to_tsgroup, [], {"dtype": str(y.dtype)})

    @reg("convolve_smooth", 2)
    def _():
        x = series(data=True)
        if x is None:
            return
        c = cls_of(nap, x)
        kdt = rng.choice(["float64", "float32", "int64", "int16", "uint8", "bool", "halves"])
        k = np.array([0.5, 1.5, 0.5]) if kdt == "halves" else np.array([1, 2, 1]).astype(kdt)
        if rng.random() < 0.3:
            k = np.stack([k, k[::-1] * (1 if kdt == "bool" else 2)], 1)
        if rng.random() < 0.2:
            base = np.repeat(k, 2, axis=0); kk = base[::2]
            extra = {"kernel_base": base}
        else:
            kk, extra = k, {"kernel": k}
        args = [("array", kk)]
        trim = rng.choice(["both", "left", "right"])
        r = rng.random()
        if r < 0.5:
            args += [("ep", an_ep() if rng.random() < 0.8 else None), ("trim", trim)][: rng.choice([1, 2])]
        elif r < 0.75:
            args.append(("trim", trim))
        do("convolve", c, x.convolve, args, {"recv": c, "dtype": str(x.dtype), "kernel": kdt, "kernel_ndim": kk.ndim, "trim": trim if args[-1][0] == "trim" else "default"}, extra=extra)
        if len(x) >= 4 and len(x.time_support):
            u = rng.choice(["s", "ms", "us"])
            std, sk = sc(rng, rng.choice([1.0, 2.0]) * UNIT_F[u], ("float", "int"))
            args = [("std", std)]
            r = rng.random()
            if r < 0.5:
                args += [("windowsize", sc(rng, 6.0 * UNIT_F[u], ("float", "int", "np.float64"))[0] if rng.random() < 0.7 else None), ("time_units", u), ("size_factor", rng.choice([3, 5, 100])), ("norm", rng.choice([True, False]))][: rng.randint(2 if u != "s" else 1, 4)]
            else:
                args = [("std", sc(rng, 2.0, ("float", "int"))[0]), ("size_factor", rng.choice([3, 5])), ("norm", rng.choice([True, False]))]
            if not any(a[0] == "time_units" for a in args):
                args[0] = ("std", sc(rng, 2.0, ("float", "int"))[0])
            th = lambda: x.smooth(**dict(args)) if rng.random() < 0.5 else None
            th, kpos = pk(rng, x.smooth, args)
            F.run("smooth", c, th, {"recv": c, "npos": kpos, "dtype": str(x.dtype), "unit": u if any(a[0] == "time_units" for a in args) else "s", "norm": str(dict(args).get("norm", "default")), "windowsize": "windowsize" in dict(args)})

    @reg("interpolate", 2)
    def _():
        x, ts = series(data=True), series()
        if x is None:
            return
        args = [("ts", ts)]
        r = rng.random()
        lf = {}
        if r < 0.7:
            args.append(("ep", an_ep() if rng.random() < 0.8 else None))
            if rng.random() < 0.5:
                l_, lk = sc(rng, -1.0, ("float", "int", "np.float64", "np.float32"))
                args += [("left", l_), ("right", rng.choice([None, 7, 2.5]))][: rng.choice([1, 2])]
                lf = {"left": lk}
        fm = {"recv": cls_of(nap, x), "target": cls_of(nap, ts), "dtype": str(x.dtype), "same_object": x is ts}
        fm.update(lf)
        do("interpolate", "%s@%s" % (cls_of(nap, x), cls_of(nap, ts)), x.interpolate, args, fm)

    @reg("trial_tensor", 1)
    def _():
        x = series(data=True)
        ep = an_ep(nonempty=True)
        if x is None or not len(ep):
            return
        al = rng.choice(["start", "end"])
        pv, pvk = sc(rng, rng.choice([0.0, -1.0]), ("float", "int", "np.float64")) if rng.random() < 0.6 else (np.nan, "nan")
        args = [("ep", ep)] + [("align", al), ("padding_value", pv)][: rng.randint(0, 2)]
        do("to_trial_tensor", cls_of(nap, x), x.to_trial_tensor, args, {"recv": cls_of(nap, x), "align": al, "padding": pvk}, keep=False)
        y = series() if rng.random() < 0.6 else (a_group() or series())
        if not jit_ok(y):          # build_tensor / warp_tensor call bin_average on the input
            y = series(jit=True) or rng.choice(live_of(nap.Ts) or [a_group()])
            if y is None:
                return
        b, u = unit_arg(rng.choice([2.0, 5.0]))
        if isinstance(y, (nap.Ts, nap.TsGroup)):
            args = [("ep", ep), ("bin_size", sc(rng, b, ("float", "int"))[0]), ("align", al), ("padding_value", pv), ("time_unit", u)][: rng.choice([2, 3, 4, 5, 5])]
            if len(args) < 5:
                args[1] = ("bin_size", b / UNIT_F[u])
            do("trial_count", cls_of(nap, y), y.trial_count, args, {"recv": cls_of(nap, y), "align": al, "unit": u if len(args) == 5 else "s"}, keep=False)
        args = [("input", y), ("ep", ep)]
        if isinstance(y, (nap.Ts, nap.TsGroup)) or rng.random() < 0.5:
            args += [("bin_size", b), ("align", al), ("padding_value", pv), ("time_unit", u)] if rng.random() < 0.6 else [("bin_size", b / UNIT_F[u])]
        do("build_tensor", cls_of(nap, y), nap.build_tensor, args, {"recv": cls_of(nap, y), "align": al}, keep=False)
        nb = rng.choice([3, 5, 4]) if rng.random() < 0.9 else 1
        do("warp_tensor", cls_of(nap, y), nap.warp_tensor, [("input", y), ("ep", ep), ("num_bins", nb)], {"recv": cls_of(nap, y), "num_bins": type(nb).__name__}, keep=False)

    @reg("numpy", 4)
    def _():
        x = series(data=True)
        if x is None:
            return
        c, n = cls_of(nap, x), len(x)
        dt = str(x.dtype)
        other_dt = rng.choice(["float64", "float32", "int64", "int16", "uint8", "bool"])
        arr = (np.arange(int(np.prod(x.shape))) % 5 + 1).reshape(x.shape).astype(other_dt)
        psc, pk_ = rng.choice([(2, "int"), (2.5, "float"), (np.float32(1.5), "np.float32"), (np.int8(3), "np.int8"), (np.uint8(2), "np.uint8"), (True, "bool"), (np.float64(0.5), "np.float64"), (np.array(2.0), "0d")])
        last = x.ndim - 1
        cands = [("x*scalar", lambda: x * psc), ("scalar-x", lambda: psc - x), ("x+array", lambda: x + arr), ("array/x", lambda: arr / x), ("x**2", lambda: x ** 2), ("-x", lambda: -x), ("abs", lambda: abs(x)),
                 ("x//scalar", lambda: x // psc), ("x%scalar", lambda: x % psc), ("x>scalar", lambda: x > psc), ("x==array", lambda: x == arr), ("x&", lambda: (x > 1) & (x.values < 5)), ("~", lambda: ~(x > 2)),
                 ("np.add(out=)", lambda: np.add(x, psc, out=np.zeros(x.shape))), ("np.multiply(x,array)", lambda: np.multiply(x, arr)), ("np.maximum(array,x)", lambda: np.maximum(arr, x)),
                 ("np.where(3 operands)", lambda: np.where(x > 2, x, arr)), ("np.clip(kw)", lambda: np.clip(x, a_min=1, a_max=psc if pk_ != "bool" else 4)), ("np.clip(pos)", lambda: np.clip(x, 1, 4)),
                 ("np.sum(axis kw)", lambda: np.sum(x, axis=last)), ("np.sum(axis pos)", lambda: np.sum(x, last)), ("np.sum(axis=0)", lambda: np.sum(x, axis=0)), ("np.sum(axis=-1)", lambda: np.sum(x, axis=-1)),
                 ("np.mean(keepdims)", lambda: np.mean(x, axis=0, keepdims=True)), ("np.mean(tuple axis)", lambda: np.mean(x, axis=tuple(range(1, x.ndim))) if x.ndim > 1 else np.mean(x)),
                 ("x.sum()", lambda: x.sum()), ("x.mean(0)", lambda: x.mean(0)), ("x.max(axis=0)", lambda: x.max(axis=0)), ("x.astype", lambda: x.astype(other_dt)), ("x.astype(copy=False)", lambda: x.astype(x.dtype, copy=False)),
                 ("x.cumsum(0)", lambda: x.cumsum(0)), ("np.cumsum(axis=0)", lambda: np.cumsum(x, axis=0)), ("np.cumprod", lambda: np.cumprod(x, 0)), ("np.diff", lambda: np.diff(x, axis=0)), ("np.diff(n=2,prepend)", lambda: np.diff(x, 1, 0, x[0:1].values) if n else None),
                 ("np.nan_to_num", lambda: np.nan_to_num(x)), ("np.nan_to_num(kw)", lambda: np.nan_to_num(x, nan=0.0, posinf=9.0, neginf=-9.0)), ("np.isnan", lambda: np.isnan(x) if x.dtype.kind == "f" else np.isfinite(x)),
                 ("np.sign", lambda: np.sign(x) if x.dtype.kind != "b" else np.logical_not(x)), ("np.sqrt", lambda: np.sqrt(x)), ("np.exp", lambda: np.exp(x)), ("np.round", lambda: np.round(x, 1) if x.dtype.kind != "b" else np.copy(x)),
                 ("np.flip(axis kw)", lambda: np.flip(x, axis=0)), ("np.flip(pos)", lambda: np.flip(x, 0)), ("np.roll", lambda: np.roll(x, shift=1, axis=0)), ("np.take", lambda: np.take(x, [0, -1], axis=0) if n else None),
                 ("np.delete", lambda: np.delete(x, [0], axis=0) if n else None), ("np.repeat", lambda: np.repeat(x, 2, axis=last)), ("np.tile", lambda: np.tile(x, 2) if x.ndim == 1 else np.tile(x, (1, 2) + (1,) * (x.ndim - 2))),
                 ("np.reshape", lambda: np.reshape(x, (n, -1))), ("np.reshape(kw)", lambda: x.reshape((n, -1))), ("np.ravel", lambda: np.ravel(x)), ("np.squeeze", lambda: np.squeeze(x)), ("np.expand_dims", lambda: np.expand_dims(x, axis=-1)),
                 ("np.transpose", lambda: np.transpose(x)), ("np.swapaxes", lambda: np.swapaxes(x, 0, last)), ("np.moveaxis", lambda: np.moveaxis(x, source=last, destination=0)),
                 ("np.concatenate(pos axis)", lambda: np.concatenate((x[: n // 2], x[n // 2:]), 0)), ("np.concatenate(kw axis)", lambda: np.concatenate([x[: n // 2], x[n // 2:]], axis=0)),
                 ("np.concatenate(3 operands)", lambda: np.concatenate((x[: n // 3], x[n // 3: 2 * n // 3], x[2 * n // 3:]))), ("np.concatenate(same twice)", lambda: np.concatenate((x, x), axis=last) if x.ndim > 1 else np.concatenate((x, x))),
                 ("np.vstack", lambda: np.vstack((x[: n // 2], x[n // 2:]))), ("np.hstack", lambda: np.hstack((x, x))), ("np.dstack", lambda: np.dstack((x, x))), ("np.stack?", lambda: np.stack((x, x), axis=-1)),
                 ("np.split", lambda: np.split(x, 2) if n % 2 == 0 and n else np.array_split(x, 2)), ("np.array_split(kw)", lambda: np.array_split(x, indices_or_sections=3, axis=0)), ("np.split(indices)", lambda: np.split(x, [1, n // 2]) if n >= 3 else None),
                 ("np.hsplit", lambda: np.hsplit(x, 1) if x.ndim > 1 else None), ("np.sort", lambda: np.sort(x, axis=0)), ("np.argsort", lambda: np.argsort(x, axis=0)), ("np.unique", lambda: np.unique(x)),
                 ("np.argmax", lambda: np.argmax(x, axis=0) if n else None), ("np.median", lambda: np.median(x, axis=0)), ("np.std", lambda: np.std(x, axis=0, ddof=0)), ("np.nanmean", lambda: np.nanmean(x, axis=0)),
                 ("np.percentile", lambda: np.percentile(x, 50, axis=0) if n and x.dtype.kind != "b" else None), ("np.histogram", lambda: np.histogram(x, bins=3) if n and x.dtype.kind != "b" and np.all(np.isfinite(np.asarray(x, dtype=float))) else None),
                 ("np.dot", lambda: np.dot(np.ones(n), x) if x.dtype.kind != "b" else None), ("np.einsum?", lambda: np.tensordot(np.ones(n), x, 1) if x.dtype.kind != "b" else None), ("np.convolve", lambda: np.convolve(x, [1, 1]) if x.ndim == 1 and n else None),
                 ("np.interp", lambda: np.interp([0.5], np.arange(n), x) if x.ndim == 1 and n else None), ("np.gradient", lambda: np.gradient(x, axis=0) if n >= 2 and x.dtype.kind != "b" else None), ("np.pad", lambda: np.pad(x, [(1, 1)] + [(0, 0)] * (x.ndim - 1))),
                 ("np.insert", lambda: np.insert(x, 0, 0, axis=0)), ("np.append", lambda: np.append(x, x, axis=0)), ("np.array(x)", lambda: np.array(x)), ("np.copy", lambda: np.copy(x)), ("np.zeros_like", lambda: (np.zeros_like(x), np.ones_like(x), np.full_like(x, 2))),
                 ("x+x.values (shared memory)", lambda: x + x.values), ("np.where(x>2,x,x.values)", lambda: np.where(x > 2, x, x.values)), ("np.concatenate((x.values,x))", lambda: np.concatenate((x.values, x))),
                 ("x+=1 on an alias", lambda: _iop(x, "iadd", 1)), ("x*=scalar on an alias", lambda: _iop(x, "imul", psc)), ("x-=array on an alias", lambda: _iop(x, "isub", arr))]
        for lab, f in _pick(rng, cands, 9):
            F.run("numpy", lab, f, {"recv": c, "dtype": dt, "np_call": lab, "operand_dtype": other_dt if "array" in lab or "astype" in lab else "-", "py_scalar": pk_ if "scalar" in lab or "out=" in lab else "-"}, extra={"operand": arr})

    @reg("frame_meta", 2)
    def _():
        xs = live_of(nap.TsdFrame)
        if not xs:
            return
        fr = rng.choice(xs)
        mc = fr.metadata_columns
        if mc:
            col = rng.choice(mc)
            F.run("get_info", "TsdFrame", lambda: (fr.get_info(col), fr[col], fr.get_info([col]), fr.get_info(slice(0, 1)), getattr(fr, col) if col.isidentifier() else None), {"recv": "TsdFrame"}, keep=False)
            if "m" in mc:
                do("groupby", "TsdFrame", fr.groupby, [("by", "m")] + ([("get_group", 1)] if rng.random() < 0.5 else []), {"recv": "TsdFrame"})
                fn = rng.choice([np.mean, lambda z: z, lambda z: np.sum(z, 1), len])
                args = [("by", "m"), ("func", fn)]
                F.run("groupby_apply", "TsdFrame", pk(rng, fr.groupby_apply, args)[0], {"recv": "TsdFrame"})
                if rng.random() < 0.4:
                    F.run("groupby_apply", "TsdFrame input_key", lambda: fr.groupby_apply("m", np.clip, "a", a_min=0, a_max=2), {"recv": "TsdFrame", "input_key": True})

    @reg("group", 4)
    def _():
        g = a_group()
        if g is None:
            return
        ng = len(g)
        ks = g.keys()
        ep = an_ep()
        mc = [c_ for c_ in g.metadata_columns if c_ != "rate"]
        r = rng.random()
        if r < 0.25:
            do("group.restrict", "n=%d" % min(ng, 3), g.restrict, [("ep", ep)], {"group_size": min(ng, 3)})
        elif r < 0.5 and ng:
            sh = list(ks); rng.shuffle(sh)
            keyforms = [("int", sh[0]), ("np.int64", np.int64(sh[0])), ("list unsorted", sh), ("list one", [sh[0]]), ("int array", np.array(sh[:2])), ("bool array", np.arange(ng) % 2 == 0), ("bool list", [True] * ng),
                        ("rate mask", g.rate >= 0), ("'rate'", "rate"), ("float key", float(sh[0])), ("['rate']", ["rate"])]
            for lab, key in _pick(rng, keyforms, 4):
                F.run("group[]", lab, lambda key=key: g[key], {"group_key": lab}, extra={"key": key} if not isinstance(key, (int, float, str, np.generic)) else None)
        elif r < 0.62 and ng:
            forms = [("none", []), ("str", [mc[0]]) if mc else ("none", []), ("ndarray", [np.arange(ng, dtype=float)]), ("list", [list(range(ng))]), ("int array", [np.arange(ng)]), ("series", [pd.Series(np.arange(ng, dtype=float), index=g.index)])]
            lab, a = rng.choice(forms)
            F.run("to_tsd", lab, lambda: g.to_tsd(*a), {"to_tsd_arg": lab}, extra={"arg": a[0]} if a else None)
        elif r < 0.8 and ng:
            op_ = rng.choice([">", "<", ">=", "<="])
            thr, tk = sc(rng, 0.0, ("float", "int", "np.float64"))
            do("getby_threshold", op_, g.getby_threshold, [("key", "rate"), ("thr", thr)] + ([("op", op_)] if op_ != ">" or rng.random() < 0.5 else []), {"op_": op_, "scalar": tk})
            fin = np.asarray(g.rate, dtype=float)[np.isfinite(np.asarray(g.rate, dtype=float))]
            hi = min(float(fin.max()), 1e6) + 1.0 if len(fin) else 1.0
            bform = rng.choice(["float array", "int array", "list", "float32"])
            bins = {"float array": np.array([0.0, hi / 2, hi]), "int array": np.array([0, int(hi) + 1, 2 * int(hi) + 2]), "list": [0.0, hi / 2, hi], "float32": np.array([0.0, hi / 2, hi], dtype=np.float32)}[bform]
            do("getby_intervals", bform, g.getby_intervals, [("key", "rate"), ("bins", bins)], {"bins": bform}, extra={"bins": bins})
            if mc:
                do("getby_category", mc[0], g.getby_category, [("key", mc[0])])
                do("group.groupby", mc[0], g.groupby, [("by", mc[0])], keep=False)
                do("group.groupby_apply", mc[0], g.groupby_apply, [("by", mc[0]), ("func", rng.choice([len, lambda z: z, lambda z: z.count(5.0)]))])
                F.run("group.get_info", mc[0], lambda: (g.get_info(mc[0]), g[mc[0]], g.get_info(ks[0]), g.metadata, g.rates, g.rate, g.metadata_columns, g.index, g.keys(), g.values(), g.items(), repr(g)), keep=False)
        else:
            others = [h for h in live_of(nap.TsGroup) if h is not g and len(h)]
            if not others or not ng:
                return
            h = rng.choice(others)
            ri, rt, im = rng.random() < 0.5, rng.random() < 0.5, rng.random() < 0.5
            three = rng.random() < 0.3
            operands = (g, h, g) if three else ((g, g) if rng.random() < 0.15 else (g, h))
            if three or operands[1] is g:
                ri = True
            # mostly valid combinations (an invalid one must raise cleanly and change nothing: kept with probability 0.15)
            if rng.random() < 0.85:
                if any(set(a_.keys()) & set(b_.keys()) for i_, a_ in enumerate(operands) for b_ in operands[i_ + 1:]):
                    ri = True
                if any(not np.array_equal(a_.time_support.values, g.time_support.values) for a_ in operands):
                    rt = True
                if any(a_.metadata_columns != g.metadata_columns for a_ in operands):
                    im = True
            kw = {}
            if ri or rng.random() < 0.3:
                kw["reset_index"] = ri
            if rt or rng.random() < 0.3:
                kw["reset_time_support"] = rt
            if im or rng.random() < 0.3:
                kw["ignore_metadata"] = im
            static = rng.random() < 0.5
            F.run("merge", "%s ri%d rt%d im%d n%d" % ("TsGroup.merge_group" if static else "g.merge", ri, rt, im, len(operands)), (lambda: nap.TsGroup.merge_group(*operands, **kw)) if static else (lambda: operands[0].merge(*operands[1:], **kw)),
                  {"merge_flags": "ri%d_rt%d_im%d" % (ri, rt, im), "n_operands": len(operands), "same_object": operands[1] is g, "merge_call": "static" if static else "method"})

    @reg("ep", 4)
    def _():
        ep, e2 = an_ep(), an_ep()
        if rng.random() < 0.15:
            e2 = ep
        setop = rng.choice(["union", "intersect", "set_diff"])
        do("ep." + setop, "m%d/m%d" % (len(ep.metadata_columns) > 0, len(e2.metadata_columns) > 0), getattr(ep, setop), [("a", e2)], {"set_op": setop, "recv_meta": len(ep.metadata_columns) > 0, "arg_meta": len(e2.metadata_columns) > 0,
                                                                                                                                   "recv_len": min(len(ep), 4), "arg_len": min(len(e2), 4), "same_object": ep is e2})
        u = rng.choice(["s", "ms", "us"])
        thr, tk = sc(rng, rng.choice([1.0, 5.0, 15.0, 20.0]) * UNIT_F[u], ("float", "int", "np.float64", "np.int64", "np.float32"))
        name = rng.choice(["drop_short_intervals", "drop_long_intervals", "merge_close_intervals", "split"])
        args = [("interval_size" if name == "split" else "threshold", thr)] + ([("time_units", u)] if u != "s" or rng.random() < 0.3 else [])
        if u == "s" and len(args) == 1:
            args = [(args[0][0], sc(rng, 5.0)[0])]
        do("ep." + name, u, getattr(ep, name), args, {"unit": u, "scalar": tk, "recv_len": min(len(ep), 4), "recv_meta": len(ep.metadata_columns) > 0})
        x = series()
        F.run("ep.queries", "in_interval etc", lambda: (ep.in_interval(x), ep.tot_length(), ep.tot_length(u), ep.tot_length(time_units=u), ep.as_units(u), ep.as_units(units=u), ep.as_dataframe(), ep.metadata, ep.start, ep.end, ep.values,
                                                       ep.shape, ep.index, ep.columns, np.asarray(ep), np.array(ep, dtype=float), repr(ep), ep.starts, ep.ends, np.sum(ep), np.diff(ep, axis=1), ep + 1.0, ep * 2, ep > 3.0, np.ravel(ep)),
              {"recv_len": min(len(ep), 4)}, keep=False)
        if len(ep):
            al, ak = rng.choice([(0.5, "default"), (0.0, "0.0"), (1.0, "1.0"), (0.25, "0.25")])
            do("ep.get_intervals_center", ak, ep.get_intervals_center, [] if ak == "default" and rng.random() < 0.5 else [("alpha", al)], {"alpha": ak})
            do("ep.time_span", "", ep.time_span, [])
        n = len(ep)
        keys = [("[int]", 0), ("[-1]", -1), ("[slice]", slice(0, 2)), ("[list]", [0]), ("[list reversed]", list(range(n))[::-1]), ("[int array]", np.arange(n)[::2]), ("[bool array]", np.arange(n) % 2 == 0), ("[series bool]", pd.Series(np.arange(n) % 2 == 0)),
                ("[pd.Index]", pd.Index(np.arange(n)[:1])), ("['start']", "start"), ("['end']", "end"), ("[['start','end']]", ["start", "end"]), ("[['end']]", ["end"]), ("[0,0]", (0, 0)), ("[:,1]", (slice(None), 1)), ("[0,'start']", (0, "start")),
                ("[[0],['start','end']]", ([0], ["start", "end"])), ("[:,:]", (slice(None), slice(None))), ("[0:2,0:2]", (slice(0, 2), slice(0, 2))), ("[0,[0,1]]", (0, [0, 1])), ("[np.int64]", np.int64(0))]
        if ep.metadata_columns:
            mcol = ep.metadata_columns[0]
            keys += [("['meta']", mcol), ("[0,'meta']", (0, mcol)), ("[['start','meta']]", ["start", mcol])]
            F.run("ep.meta", mcol, lambda: (ep.get_info(mcol), ep.groupby(mcol), ep.groupby_apply(mcol, lambda z: z.tot_length()), ep.groupby(mcol, get_group=ep.get_info(mcol).iloc[0]) if n else None))
        for lab, key in _pick(rng, keys, 4):
            F.run("ep[]", lab, lambda key=key: ep[key], {"ep_key": lab, "recv_len": min(n, 4)}, extra={"key": key} if isinstance(key, (list, np.ndarray, tuple, pd.Series, pd.Index)) else None)
        if n and rng.random() < 0.5:
            F.run("ep.loc", "", lambda: (ep.loc[0], ep.loc[[0]], ep.loc["start"], ep.loc[0, "end"], ep.loc[[0], "start"]), keep=False)

    @reg("save_load", 1)
    def _():
        o = rng.choice(F.live)
        c = cls_of(nap, o)
        pform = rng.choice(["str", "str_noext", "Path"])
        base = os.path.join(scratch, "w%d_%d" % (F.wid, rng.randrange(10**6)))
        path = {"str": base + ".npz", "str_noext": base, "Path": __import__("pathlib").Path(base + ".npz")}[pform]
        r = do("save", c, o.save, [("filename", path)], {"recv": c, "path": pform}, keep=False)
        if os.path.exists(base + ".npz"):
            F.run("load_file", c, lambda: nap.load_file(base + ".npz"), {"recv": c})

    @reg("mutators", 3)
    def _():
        cands = []
        for o in F.live:
            if isinstance(o, (nap.Tsd, nap.TsdFrame, nap.TsdTensor)) and len(o):
                cands.append(("setitem", o))
            if isinstance(o, (nap.TsdFrame, nap.IntervalSet, nap.TsGroup)) and len(o.metadata_index):
                cands.append(("set_info", o))
            if isinstance(o, nap.TsGroup) and any(isinstance(m, nap.Tsd) and len(m) for m in o.values()):
                cands.append(("member_setitem", o))
        if not cands:
            return
        kind, o = rng.choice(cands)
        c = cls_of(nap, o)
        if kind == "member_setitem":
            o = rng.choice([m for m in o.values() if isinstance(m, nap.Tsd) and len(m)])
            kind = "setitem"
        if kind == "setitem":
            n = len(o)
            val = rng.choice([(-99.0, "float"), (7, "int"), (np.float32(2.5), "np.float32"), (np.int16(3), "np.int16"), (True, "bool")])
            keys = [("[int]", rng.randrange(n)), ("[slice]", slice(0, 2)), ("[list]", [0, n - 1]), ("[bool array]", np.arange(n) % 2 == 0), ("[...]", Ellipsis), ("[-1]", -1),
                    ("[bool Tsd]", nap.Tsd(np.asarray(o.t), np.arange(n) % 2 == 1, time_support=o.time_support))]
            if isinstance(o, nap.TsdFrame) and o.shape[1]:
                keys += [("[:,0]", (slice(None), 0)), ("[int,int]", (0, 0))]
                if isinstance(o.columns[0], str):
                    keys += [("['label']", o.columns[0]), ("[['l']]", [o.columns[0]])]
            if isinstance(o, nap.TsdTensor):
                keys += [("[:,0,0]", (slice(None), 0, 0))]
            lab, key = rng.choice(keys)
            vform = rng.choice(["scalar", "scalar", "array"])
            v = val[0]
            ex = None
            if vform == "array" and lab in ("[slice]", "[...]", "[:,0]", "['label']"):
                v = np.full(np.shape(o.values[key] if lab != "['label']" else o.values[:, 0]), 5.0)
                ex = {"value": v}
            F.run("setitem", "%s%s" % (cls_of(nap, o), lab), lambda: o.__setitem__(key, v), {"recv": cls_of(nap, o), "dtype": str(o.dtype), "key": lab, "value": val[1] if ex is None else "array"}, extra=ex, mutates=(o,), keep=False)
        else:
            m = len(o.metadata_index)
            form = rng.choice(["kw list", "kw array", "kw tuple", "kw series", "dict", "frame", "attribute", "item", "dict+kw", "kw scalar" if m == 1 else "kw list"])
            name = rng.choice(["zz", "yy", "lab2"])
            vals = [rng.randrange(100) for _ in range(m)]
            idx = o.metadata_index
            if form == "kw list":
                a = list(vals); th = lambda: o.set_info(**{name: a})
            elif form == "kw array":
                a = np.array(vals, dtype=rng.choice(["int64", "float32", "uint8"])); th = lambda: o.set_info(**{name: a})
            elif form == "kw tuple":
                a = tuple(vals); th = lambda: o.set_info(**{name: a})
            elif form == "kw series":
                a = pd.Series(vals, index=idx); th = lambda: o.set_info(**{name: a})
            elif form == "dict":
                a = {name: list(vals), "ww": np.array(vals, dtype=float)}; th = lambda: o.set_info(a) if rng.random() < 0.5 else o.set_info(metadata=a)
            elif form == "frame":
                a = pd.DataFrame({name: vals, "ww": np.array(vals, dtype=float)}, index=idx); th = lambda: o.set_info(a)
            elif form == "attribute":
                a = np.array(vals); th = lambda: setattr(o, name, a)
            elif form == "item":
                a = list(vals); th = lambda: o.__setitem__(name, a)
            elif form == "dict+kw":
                a = [{name: list(vals)}, np.array(vals)]; th = lambda: o.set_info(a[0], uu=a[1])
            else:
                a = vals[0]; th = lambda: o.set_info(**{name: a})
            F.run("set_info", "%s:%s" % (c, form), th, {"recv": c, "set_info_form": form}, extra={"value": a}, mutates=(o,), keep=False)

    names = sorted(set(n for n, _ in ops))
    for _ in range(budget):
        name, fn = rng.choice(ops)
        try:
            fn()
        except Exception as ex:      # an error of the generator itself (not of a library call): reported, never silent
            F.res.count("form_generator_error=" + name)
            F.raised.setdefault("generator:" + name, []).append("%s: %s" % (type(ex).__name__, str(ex)[:160]))
    return names


def _iop(x, name, v):
    """augmented assignment on an alias of x: Python rebinds the alias; the ORIGINAL object must be unchanged whatever the outcome"""
    import operator
    y = x
    y = getattr(operator, name)(y, v)
    return y if y is not x else None


def form_process(F, rng):
    """the process-module analyses on the forms of their inputs: signal class and dtype, band limits / kernels / bin edges / tuning curves as list, tuple, integer or float32 arrays, units, flags"""
    nap = F.nap
    off = PLACES[F.axes["place"]]
    dt = rng.choice(["float64", "float64", "float32", "int64", "int16", "uint8"])
    jit_ok = dt in JIT_DTYPES[F.tier]
    n = 600
    tt = off + np.arange(n) * 0.01
    base = np.sin(np.arange(n) / 9.0) * 50
    sig1 = F.arg("sig_d", base.astype(dt))
    sig2 = F.arg("sig_d", np.stack([base, base[::-1]], 1).astype(dt))
    sig3 = F.arg("sig_d", np.stack([base, base[::-1], base * 0.5, -base], 1).reshape(n, 2, 2).astype(dt))
    one = nap.IntervalSet(off, off + 6.0)
    two = nap.IntervalSet([off, off + 3.5], [off + 3.0, off + 6.0])
    sup = rng.choice([one, one, two])
    reg = F.add("sig", nap.Tsd(tt, sig1, time_support=sup))
    regf = F.add("sig", nap.TsdFrame(tt, sig2, time_support=sup, columns=rng.choice([None, ["l", "r"], [5, 2]])))
    regt = F.add("sig", nap.TsdTensor(tt, sig3, time_support=sup))
    F.add("sig_support", sup)
    sig = rng.choice([reg, regf, regt])
    sc_ = cls_of(nap, sig)
    spk = [off + np.sort(np.array(rng.sample(range(0, 600), 80), dtype=float)) / 100.0 for _ in range(3)]
    keys = rng.choice([[0, 1, 2], [3, 9, 4], ["12", "7", "30"]])
    g = F.add("spikes", nap.TsGroup(dict(zip(keys, [nap.Ts(s) for s in spk])), time_support=sup, metadata={"cat": [1, 2, 1]}))
    ik = sorted(int(k) for k in keys)
    ev = F.add("events", nap.Ts(off + np.arange(0.5, 5.5, 0.7), time_support=sup))
    feat = F.add("feature", nap.Tsd(tt, F.arg("feat_d", (np.arange(n) % 3).astype(rng.choice(["float64", "int64", "float32"])) + (0 if rng.random() < 0.5 else 0.5)), time_support=sup))
    feat2 = F.add("features", nap.TsdFrame(tt, F.arg("feat_d", np.stack([np.arange(n) % 3, np.arange(n) % 2], 1).astype(rng.choice(["float64", "int64"]))), time_support=sup))
    ep = rng.choice([sup, one, two])
    u = rng.choice(["s", "ms", "us"])
    uf = UNIT_F[u]

    def lim(vals, form=None):
        form = form or rng.choice(["ndarray", "list", "tuple", "int array", "float32", "int list"])
        v = list(vals)
        if form in ("int array", "int list") and not all(float(x) == int(x) for x in v):
            form = "ndarray"
        return {"ndarray": np.array(v, dtype=float), "list": [float(x) for x in v], "tuple": tuple(float(x) for x in v), "int array": np.array([int(x) for x in v]) if form == "int array" else None,
                "float32": np.array(v, dtype=np.float32), "int list": [int(x) for x in v] if form == "int list" else None}[form], form

    def do(op, label, f, args, forms=None, extra=None, keep=True):
        th, k = pk(rng, f, args)
        fm = {"npos": k, "signal": sc_, "sig_dtype": dt, "supp_len": len(sup)}
        fm.update(forms or {})
        return F.run(op, label, th, fm, extra=extra, keep=keep)
    cands = []

    def filt():
        kind = rng.choice(["lowpass", "highpass", "bandpass", "bandstop"])
        f = getattr(nap, "apply_%s_filter" % kind)
        mode = rng.choice(["butter", "sinc"])
        if kind in ("bandpass", "bandstop"):
            cut, cf = lim([2.0, 8.0])
        else:
            cut, cf = sc(rng, 5.0, ("float", "int", "np.float64", "np.int64", "np.float32"))
        args = [("data", sig), ("cutoff", cut)]
        opt = [("fs", rng.choice([None, 100.0, 100, np.float64(100.0)])), ("mode", mode), ("order", rng.choice([2, 4])), ("transition_bandwidth", rng.choice([0.02, 0.1]))]
        args += opt[: rng.randint(2, 4)]
        do("filter", "%s/%s" % (kind, mode), f, args, {"filter": kind, "mode": mode, "cutoff_form": cf}, extra={"cutoff": cut})
        if rng.random() < 0.4:
            do("filter_response", "%s/%s" % (kind, mode), nap.get_filter_frequency_response, [("cutoff", cut), ("fs", rng.choice([100.0, 100])), ("filter_type", kind), ("mode", mode)] + [("order", 4), ("transition_bandwidth", 0.1)][: rng.randint(0, 2)],
               {"filter": kind, "mode": mode, "cutoff_form": cf}, extra={"cutoff": cut}, keep=False)
    cands.append(filt)

    def corr():
        b, w = 0.05 * uf, 0.3 * uf
        kind = rng.choice(["auto", "cross", "event", "cross_pair"])
        flags = [("ep", rng.choice([None, ep])), ("norm", rng.choice([True, False])), ("time_units", u)]
        if kind == "auto":
            do("correlogram", kind, nap.compute_autocorrelogram, [("group", g), ("binsize", b), ("windowsize", w)] + flags, {"unit": u}, keep=False)
        elif kind == "event":
            do("correlogram", kind, nap.compute_eventcorrelogram, [("group", g), ("event", rng.choice([ev, reg])), ("binsize", b), ("windowsize", w)] + flags, {"unit": u}, keep=False)
        else:
            grp = g if kind == "cross" else rng.choice([(g, g), [g, g[ik[:2]]]])
            do("correlogram", kind, nap.compute_crosscorrelogram, [("group", grp), ("binsize", b), ("windowsize", w)] + flags + [("reverse", rng.choice([True, False]))], {"unit": u, "group_form": type(grp).__name__}, keep=False)
    cands.append(corr)

    def tuning():
        mm, mf = lim([0.0, 3.0])
        nb = rng.choice([3, 4])
        kind = rng.choice(["1d", "1d_cont", "2d", "2d_cont", "discrete", "mi1", "mi2"])
        if kind == "1d":
            fe = rng.choice([feat, feat2[:, 0:1]])
            do("tuning_curves", kind, nap.compute_1d_tuning_curves, [("group", g), ("feature", fe), ("nb_bins", nb)] + [[], [("ep", ep)], [("ep", ep), ("minmax", mm)], [("minmax", mm)]][rng.randrange(4)], {"minmax_form": mf, "feature": cls_of(nap, fe)}, extra={"minmax": mm}, keep=False)
        elif kind == "1d_cont":
            do("tuning_curves", kind, nap.compute_1d_tuning_curves_continuous, [("tsdframe", rng.choice([reg, regf])), ("feature", feat), ("nb_bins", nb)] + [[], [("ep", ep)], [("ep", ep), ("minmax", mm)], [("minmax", mm)]][rng.randrange(4)], {"minmax_form": mf}, extra={"minmax": mm}, keep=False)
        elif kind in ("2d", "2d_cont"):
            mm4, mf = lim([0.0, 2.0, 0.0, 1.0])
            nbb = rng.choice([2, (2, 3)])
            f = nap.compute_2d_tuning_curves if kind == "2d" else nap.compute_2d_tuning_curves_continuous
            do("tuning_curves", kind, f, [("group" if kind == "2d" else "tsdframe", g if kind == "2d" else rng.choice([reg, regf])), ("features", feat2), ("nb_bins", nbb)] + [[], [("ep", ep)], [("ep", ep), ("minmax", mm4)], [("minmax", mm4)]][rng.randrange(4)],
               {"minmax_form": mf, "nb_bins": type(nbb).__name__}, extra={"minmax": mm4}, keep=False)
        elif kind == "discrete":
            d = {"a": ep, "b": one, 3: two}
            do("tuning_curves", kind, nap.compute_discrete_tuning_curves, [("group", g), ("dict_ep", d)], extra={"dict_ep": d}, keep=False)
        elif kind == "mi1":
            tcf = rng.choice(["frame", "int frame", "ndarray", "float32", "zeros"])
            v = np.array([[1.0, 3.0, 2.0], [5.0, 2.0, 1.0], [2.0, 7.0, 3.0]])
            if tcf == "zeros":
                v[0] = 0.0
            tc = {"frame": pd.DataFrame(v, index=[0.5, 1.5, 2.5], columns=ik), "int frame": pd.DataFrame(v.astype(int), index=[0.5, 1.5, 2.5], columns=ik), "ndarray": v, "float32": v.astype(np.float32), "zeros": pd.DataFrame(v, columns=ik)}[tcf]
            do("mutual_info", "1d", nap.compute_1d_mutual_info, [("tc", tc), ("feature", feat)] + [[], [("ep", ep)], [("ep", ep), ("minmax", mm), ("bitssec", rng.choice([True, False]))], [("minmax", mm)], [("bitssec", True)]][rng.randrange(5)], {"tc_form": tcf, "minmax_form": mf}, extra={"tc": tc, "minmax": mm}, keep=False)
        else:
            tcf = rng.choice(["dict", "ndarray", "int dict"])
            v = np.array([[[1.0, 2.0], [3.0, 4.0]], [[2.0, 1.0], [0.5, 3.0]], [[1.0, 0.0], [2.0, 2.0]]])
            tc2 = {"dict": {k: v[i] for i, k in enumerate(ik)}, "ndarray": v, "int dict": {k: v[i].astype(int) for i, k in enumerate(ik)}}[tcf]
            do("mutual_info", "2d", nap.compute_2d_mutual_info, [("dict_tc", tc2), ("features", feat2)] + [[], [("ep", ep)], [("ep", ep), ("bitssec", rng.choice([True, False]))], [("bitssec", True)], [("minmax", F.arg("minmax4", [0.0, 2.0, 0.0, 1.0]))]][rng.randrange(5)], {"tc_form": tcf}, extra={"tc": tc2}, keep=False)
    cands.append(tuning)

    def decode():
        b = 0.5 * uf
        if rng.random() < 0.5:
            tcf = rng.choice(["frame", "int frame", "tsdframe?"])
            v = np.array([[1.0, 3.0, 2.0], [5.0, 2.0, 1.0], [2.0, 7.0, 3.0]])
            tc = pd.DataFrame(v if tcf != "int frame" else v.astype(int), index=[0.5, 1.5, 2.5], columns=ik)
            grp, gf = rng.choice([(g, "TsGroup"), (g.count(0.5, ep), "TsdFrame"), ({k: g[k] for k in ik}, "dict")])
            do("decode_1d", gf, nap.decode_1d, [("tuning_curves", tc), ("group", grp), ("ep", ep), ("bin_size", b), ("time_units", u)] + ([("feature", rng.choice([None, feat]))] if rng.random() < 0.5 else []), {"tc_form": tcf, "group_form": gf, "unit": u},
               extra={"tc": tc, "group": grp if isinstance(grp, dict) else None})
        else:
            v = np.array([[[1.0, 2.0], [3.0, 4.0]], [[2.0, 1.0], [0.5, 3.0]], [[1.0, 0.5], [2.0, 2.0]]])
            tc2 = {k: v[i] for i, k in enumerate(ik)}
            xy, xf = rng.choice([([np.array([0.5, 1.5]), np.array([0.25, 0.75])], "list of arrays"), ((np.array([0.5, 1.5]), np.array([0.25, 0.75])), "tuple of arrays"), ([[0.5, 1.5], [0.25, 0.75]], "list of lists"), (np.array([[0.5, 1.5], [0.25, 0.75]]), "2d array")])
            grp, gf = rng.choice([(g, "TsGroup"), (g.count(0.5, ep), "TsdFrame"), ({k: g[k] for k in ik}, "dict")])
            do("decode_2d", gf, nap.decode_2d, [("tuning_curves", tc2), ("group", grp), ("ep", ep), ("bin_size", b), ("xy", xy), ("time_units", u)] + ([("features", rng.choice([None, feat2]))] if rng.random() < 0.5 else []), {"xy_form": xf, "group_form": gf, "unit": u},
               extra={"tc": tc2, "xy": xy})
    cands.append(decode)

    def peri():
        w = 0.2 * uf
        mmf = rng.choice(["tuple", "scalar", "int tuple"])
        mm = {"tuple": (-w, w) , "scalar": w, "int tuple": (-int(w) if int(w) else -w, int(w) if int(w) else w)}[mmf]
        kind = rng.choice(["perievent", "continuous", "eta"])
        if kind != "perievent" and not (jit_ok and (F.tier != "quick" or sig is not regt)):
            F.res.count("form_skipped:perievent average(dtype outside the tier's compiled set)")
            kind = "perievent"
        if kind == "perievent":
            x = rng.choice([g, g[ik[0]], reg, ev])
            do("perievent", cls_of(nap, x), nap.compute_perievent, [("timestamps", x), ("tref", rng.choice([ev, reg[::50]])), ("minmax", mm), ("time_unit", u)], {"minmax_form": mmf, "unit": u, "recv": cls_of(nap, x)})
        elif kind == "continuous":
            mmc = mm if mmf == "scalar" else (abs(mm[0]), abs(mm[1]))
            do("perievent_continuous", sc_, nap.compute_perievent_continuous, [("timeseries", sig), ("tref", ev), ("minmax", mmc)] + [("ep", rng.choice([None, ep])), ("time_unit", u)][: 2 if u != "s" else rng.randint(0, 2)] if u != "s" else
               [("timeseries", sig), ("tref", ev), ("minmax", mmc)] + [("ep", rng.choice([None, ep]))][: rng.randint(0, 1)], {"minmax_form": mmf, "unit": u})
        else:
            ws = rng.choice([(0.1 * uf, 0.1 * uf), 0.1 * uf, 0])
            do("event_trigger_average", sc_, nap.compute_event_trigger_average, [("group", g), ("feature", sig), ("binsize", 0.02 * uf), ("windowsize", ws), ("ep", rng.choice([None, ep])), ("time_unit", u)], {"windowsize": type(ws).__name__, "unit": u})
    cands.append(peri)

    def spec():
        kind = rng.choice(["fft", "psd", "mean_psd", "wavelet", "filterbank"])
        x = rng.choice([reg, regf])
        e1 = one
        if kind == "fft":
            do("spectrum", kind, nap.compute_fft, [("sig", x)] + [("fs", rng.choice([None, 100.0, 100])), ("ep", e1), ("full_range", rng.choice([True, False])), ("norm", rng.choice([True, False])), ("n", rng.choice([None, 256]))][: rng.randint(1, 5)] if len(sup) == 1 or True else [], keep=False)
        elif kind == "psd":
            do("spectrum", kind, nap.compute_power_spectral_density, [("sig", x), ("fs", rng.choice([None, 100.0])), ("ep", e1)] + [("full_range", rng.choice([True, False])), ("n", rng.choice([None, 256]))][: rng.randint(0, 2)], keep=False)
        elif kind == "mean_psd":
            do("spectrum", kind, nap.compute_mean_power_spectral_density, [("sig", x), ("interval_size", 1.5 * uf), ("fs", rng.choice([None, 100.0])), ("overlap", rng.choice([0.25, 0.0, 0.5])), ("ep", e1), ("full_range", rng.choice([True, False])), ("time_unit", u)], {"unit": u}, keep=False)
        else:
            fr_, ff = lim([2.0, 5.0, 10.0], rng.choice(["ndarray", "int array", "float32"]))
            if kind == "wavelet":
                do("wavelets", "transform", nap.compute_wavelet_transform, [("sig", sig), ("freqs", fr_)] + [("fs", rng.choice([None, 100.0, 100])), ("gaussian_width", 1.5), ("window_length", rng.choice([1.0, 1.5])), ("precision", rng.choice([16, 10])), ("norm", rng.choice(["l1", "l2", None]))][: rng.randint(0, 5)],
                   {"freqs_form": ff}, extra={"freqs": fr_})
            else:
                do("wavelets", "filterbank", nap.generate_morlet_filterbank, [("freqs", fr_), ("fs", rng.choice([100.0, 100]))] + [("gaussian_width", 1.5), ("window_length", 1.0), ("precision", 10)][: rng.randint(0, 3)], {"freqs_form": ff}, extra={"freqs": fr_}, keep=False)
    cands.append(spec)

    def rnd():
        x = rng.choice([g, g[ik[0]], ev, nap.TsGroup({}, time_support=sup) if rng.random() < 0.1 else g])
        st = np.random.get_state()
        np.random.seed(rng.randrange(2**31))
        try:
            kind = rng.choice(["shift", "shuffle", "jitter", "resample"])
            if kind == "shift":
                do("randomize", kind, nap.shift_timestamps, [("ts", x)] + [("min_shift", rng.choice([0.0, 0, 0.5])), ("max_shift", rng.choice([None, 2.0, 3]))][: rng.randint(0, 2)], {"recv": cls_of(nap, x)})
            elif kind == "shuffle":
                do("randomize", kind, nap.shuffle_ts_intervals, [("ts", x)] + [("min_shift", 0.0), ("max_shift", rng.choice([None, 2.0]))][: rng.randint(0, 2)], {"recv": cls_of(nap, x)})
            elif kind == "jitter":
                do("randomize", kind, nap.jitter_timestamps, [("ts", x), ("max_jitter", rng.choice([0.1, 1, np.float64(0.05)]))] + ([("keep_tsupport", rng.choice([True, False]))] if rng.random() < 0.6 else []), {"recv": cls_of(nap, x)})
            else:
                do("randomize", kind, nap.resample_timestamps, [("ts", x)], {"recv": cls_of(nap, x)})
        finally:
            np.random.set_state(st)
    cands.append(rnd)
    for fn in _pick(rng, cands * 2, 7 if F.tier == "quick" else 10):
        try:
            fn()
        except Exception as ex:
            F.res.count("form_generator_error=process")
            F.raised.setdefault("generator:process", []).append("%s: %s" % (type(ex).__name__, str(ex)[:160]))


# (c') the rejected writes on other forms of the containers
FRESH_VARIANTS = ["int16_data", "float32_data", "bool_data", "uint8_data", "ms_units", "us_units", "negative_times", "far_times", "from_TsIndex", "from_lists", "int_time_arrays", "no_metadata", "bypass_check", "str_keys",
                  "tsd_members", "restricted", "sliced", "saved_loaded", "arith_result", "nan_inf_data"]


def fresh_variant(nap, variant, scratch):
    """the seven objects of `fresh` (same sizes, labels and keys, so that every write of `rejected_writes` applies), built in another form"""
    off = {"negative_times": -100.0, "far_times": 1e5}.get(variant, 0.0)
    uf = {"ms_units": 1e3, "us_units": 1e6}.get(variant, 1.0)
    un = {"ms_units": "ms", "us_units": "us"}.get(variant, "s")
    dt = {"int16_data": np.int16, "float32_data": np.float32, "bool_data": bool, "uint8_data": np.uint8}.get(variant, np.float64)
    t10, t5, t3 = off + np.arange(10.0), off + np.arange(5.0), off + np.arange(3.0)

    def T(t):
        t = t * uf
        if variant == "from_lists":
            return [float(x) for x in t]
        if variant == "int_time_arrays":
            return t.astype(np.int64)
        if variant == "from_TsIndex":
            return nap.Ts(t).index
        return t
    d1 = (np.arange(10) % 5).astype(dt); d2 = (np.arange(20) % 7).reshape(10, 2).astype(dt); d3 = (np.arange(40) % 9).reshape(10, 2, 2).astype(dt)
    if variant == "nan_inf_data":
        d1[2] = np.nan; d1[3] = np.inf; d2[1, 0] = -np.inf; d2[4] = np.nan; d3[0, 0, 0] = np.nan
    meta = variant != "no_metadata"
    ep = nap.IntervalSet(T(off + np.array([0.0, 10.0])), T(off + np.array([5.0, 15.0])), time_units=un, metadata={"lab": [1, 2]} if meta else None)
    tsd = nap.Tsd(T(t10), d1, time_units=un)
    ts = nap.Ts(T(t10), time_units=un)
    frame = nap.TsdFrame(T(t10), d2, time_units=un, columns=["a", "b"], metadata={"m": [1, 2]} if meta else None)
    tensor = nap.TsdTensor(T(t10), d3, time_units=un)
    keys = ["0", "1", "4"] if variant == "str_keys" else [0, 1, 4]
    mk = (lambda t: nap.Tsd(t, np.arange(len(t), dtype=float))) if variant == "tsd_members" else (lambda t: nap.Ts(t))
    gsup = nap.IntervalSet(off - 1.0, off + 20.0)
    group = nap.TsGroup(dict(zip(keys, [mk(t10), mk(t5), mk(t3)])), metadata={"lab": [1, 2, 3]} if meta else None, **({"time_support": gsup, "bypass_check": True} if variant == "bypass_check" else {}))
    other_ep = nap.IntervalSet(off, off + 100.0)
    o = {"ep": ep, "tsd": tsd, "ts": ts, "frame": frame, "tensor": tensor, "group": group, "other_ep": other_ep}
    big = nap.IntervalSet(off - 1.0, off + 50.0)
    if variant == "restricted":
        o.update({"ep": ep.intersect(big), "tsd": tsd.restrict(big), "ts": ts.restrict(big), "frame": frame.restrict(big), "tensor": tensor.restrict(big), "group": group.restrict(big)})
    elif variant == "sliced":
        o.update({"ep": ep[0:2], "tsd": tsd[0:10], "ts": ts[::1], "frame": frame[["a", "b"]], "tensor": tensor[np.arange(10)], "group": group[[0, 1, 4]]})
    elif variant == "arith_result":
        o.update({"tsd": tsd * 2 + 1, "frame": np.abs(frame), "tensor": np.clip(tensor, 0, 5), "ep": ep.union(nap.IntervalSet([], [])) if not meta else ep.drop_short_intervals(0.1), "ts": tsd.value_from(tsd).count(1.0).restrict(tsd.time_support) if False else ts.get(off, off + 9.0),
                  "group": group.get(off - 1.0, off + 30.0)})
    elif variant == "saved_loaded":
        for k in ("ep", "tsd", "ts", "frame", "tensor", "group"):
            p = os.path.join(scratch, "fv_%s.npz" % k)
            o[k].save(p)
            o[k] = nap.load_file(p)
    return o


def extra_rejected_writes(nap):
    """further spellings of the writes of part (c): other key forms of item assignment, augmented assignment on the container and on its time index"""
    out = []

    def I(label, c, f, kind="item"):
        out.append((label, c, kind, f))

    def aug(o, c, attr, opn, v):
        import operator
        tgt = o[c] if attr is None else getattr(o[c], attr)
        r = getattr(operator, opn)(tgt, v)
        if attr is not None:
            setattr(o[c], attr, r)
        else:
            o[c] = r if r is tgt else o[c]      # `x op= v` rebinds the NAME: the object itself must be unchanged
            if r is not tgt:
                raise TypeError("augmented assignment returned a new object (the name is rebound, the container is untouched)")
    I("ep[:,0]=x", "ep", lambda o: o["ep"].__setitem__((slice(None), 0), 1.0))
    I("ep[...]=x", "ep", lambda o: o["ep"].__setitem__(Ellipsis, 1.0))
    I("ep[bool]=x", "ep", lambda o: o["ep"].__setitem__(np.array([True, False]), 1.0))
    I("ep[[0]]=x", "ep", lambda o: o["ep"].__setitem__([0], np.array([[1.0, 2.0]])))
    I("ep[0:1]=x", "ep", lambda o: o["ep"].__setitem__(slice(0, 1), (1.0, 2.0)))
    I("ep[np.int64]=x", "ep", lambda o: o["ep"].__setitem__(np.int64(0), [1.0, 2.0]))
    I("ep['start']=list", "ep", lambda o: o["ep"].__setitem__("start", [1.0, 11.0]))
    I("ep.loc[0,'start']=x", "ep", lambda o: o["ep"].loc.__setitem__((0, "start"), 1.0))
    for c in ("tsd", "ts", "frame", "tensor"):
        I("%s.index[bool]=x" % c, c, (lambda c: lambda o: o[c].index.__setitem__(np.arange(10) < 3, 5.0))(c))
        I("%s.index[[0,1]]=x" % c, c, (lambda c: lambda o: o[c].index.__setitem__([0, 1], np.array([5.0, 6.0])))(c))
        I("%s.index[...]=x" % c, c, (lambda c: lambda o: o[c].index.__setitem__(Ellipsis, 0.0))(c))
        I("%s.index[-1]=int" % c, c, (lambda c: lambda o: o[c].index.__setitem__(-1, 3))(c))
        for opn, v in (("iadd", 1.0), ("imul", 2), ("isub", np.float32(0.5)), ("itruediv", 2.0)):
            I("%s.index %s x" % (c, opn), c, (lambda c, opn, v: lambda o: aug(o, c, "index", opn, v))(c, opn, v), "augmented")
        I("%s.rate += x" % c, c, (lambda c: lambda o: aug(o, c, "rate", "iadd", 1.0))(c), "augmented")
        I("%s.time_support |= ep" % c, c, (lambda c: lambda o: setattr(o[c], "time_support", o[c].time_support.union(o["other_ep"])))(c), "augmented")
    for c in ("tsd", "frame", "tensor", "ep"):
        for opn, v in (("iadd", 1.0), ("imul", 2)):
            I("%s %s x" % (c, opn), c, (lambda c, opn, v: lambda o: aug(o, c, None, opn, v))(c, opn, v), "augmented")
    I("group['0']=x", "group", lambda o: o["group"].__setitem__("0", o["ts"]))
    I("group[np.int64(0)]=x", "group", lambda o: o["group"].__setitem__(np.int64(0), o["ts"]))
    I("group[1.0]=x", "group", lambda o: o["group"].__setitem__(1.0, o["ts"]))
    I("group[[0,1]]=x", "group", lambda o: o["group"].__setitem__((0, 1), o["ts"]))
    I("group.rate=list", "group", lambda o: setattr(o["group"], "rate", [1.0, 2.0, 3.0]), "assign")
    I("group.set_info({'rate':x})", "group", lambda o: o["group"].set_info({"rate": np.array([1.0, 2.0, 3.0])}))
    I("group.set_info(frame rate)", "group", lambda o: o["group"].set_info(pd.DataFrame({"rate": [1.0, 2.0, 3.0]}, index=[0, 1, 4])))
    I("group.update(group)", "group", lambda o: o["group"].update(nap.TsGroup({7: o["ts"]})), "dict_api")
    I("group.update(k=ts)", "group", lambda o: o["group"].update([(7, o["ts"])]), "dict_api")
    I("group.pop(0,None)", "group", lambda o: o["group"].pop(0, None), "dict_api")
    return out


def check_rejected_forms(res, nap, tier, seed, scratch):
    """part (c) on other forms: every write of `rejected_writes` on a sample of the container forms, and the further spellings on the plain and the other forms"""
    rng = random.Random(seed * 131 + 9)
    base = rejected_writes(nap)
    more = extra_rejected_writes(nap)
    plans = [("plain", more)]
    per = 10 if tier == "quick" else 60
    for v in FRESH_VARIANTS:
        plans.append((v, _pick(rng, base, per) + _pick(rng, more, 4 if tier == "quick" else 30)))
    for variant, writes in plans:
        for label, c, kind, f in writes:
            try:
                o = fresh(nap) if variant == "plain" else fresh_variant(nap, variant, scratch)
            except Exception as ex:
                res.disagreements.append({"op": "fresh_variant", "what": "harness: the container form %s could not be built: %s" % (variant, ex)})
                break
            before = {k: fstate(nap, v_) for k, v_ in o.items()}
            res.case(("reject_form", variant, label), nontrivial=True)
            res.count("reject_form=" + variant)
            res.count("reject_kind=" + kind)
            raised = False
            try:
                f(o)
            except REJECT + (RecursionError, NotImplementedError, OSError):
                raised = True
            except Exception:
                raised = True
                res.count("reject_form_other_exception")
            changed = sorted(k for k, v_ in o.items() if not fs_equal(before[k], fstate(nap, v_)))
            trig = {"augmented": kind == "augmented", "on_time_index": ".index" in label, "other_form": variant != "plain"}
            if not raised:
                res.violations.append({"key": dict({"op": label, "part": "accepted_write", "kind": kind, "container": c, "state_changed": bool(changed)}, **trig),
                                       "what": "a write that must be rejected was accepted: %s on the container form '%s' (objects changed: %s)" % (label, variant, changed or "none"), "input": {"case": label, "variant": variant, "changed": changed}})
            elif changed:
                res.violations.append({"key": dict({"op": label, "part": "state_changed_by_rejected_write", "kind": kind, "container": c}, **trig),
                                       "what": "%s raised, but only after changing %s (container form '%s')" % (label, changed, variant), "input": {"case": label, "variant": variant, "changed": changed}})


def draw_axes(rng):
    dt = rng.choice(DTYPES)
    fl = np.dtype(dt).kind == "f"
    return {"dtype": dt, "special": rng.choice(["none", "nan", "+inf", "-inf", "mix", "inf_pair", "all_equal", "zeros"]) if fl else rng.choice(["none", "none", "all_equal", "zeros"]),
            "place": rng.choice(list(PLACES)), "unit": rng.choice(["s", "ms", "us"]), "tform": rng.choice(TFORMS), "size": rng.choice(["many", "many", "many", "many", "dup", "one", "empty", "equal_times", "two"]),
            "sform": rng.choice(["ndarray", "ndarray", "ndarray", "list", "tuple", "series", "int64", "int32", "uint32", "uint64", "float32", "unsorted"]), "meta": rng.choice(["none", "dict", "frame", "dict_tuple"]),
            "cols": rng.choice(["default", "str", "int_unsorted", "int_array", "pdindex", "float", "mixed_order"]), "keys": rng.choice(["0..n-1", "gaps_unsorted", "str", "float", "np.int64", "multi_digit"]),
            "members": rng.choice(["Ts", "Tsd", "empty_member", "arrays", "live"])}


def run_form_world(res, nap, seed, wid, tier, scratch):
    rng = random.Random(seed * 7919 + wid)
    axes = draw_axes(rng)
    if axes["place"] == "negative" and axes["tform"].startswith("uint"):
        axes["tform"] = "int64"
    F = Forms(res, nap, seed, wid, axes)
    F.tier = tier
    for k, v in axes.items():
        res.count("world:%s=%s" % (k, v))
    W = build_world(F, rng)
    form_ops(F, rng, W, 22 if tier == "quick" else 40, scratch)
    if wid % 2 == 0:
        form_process(F, rng)
    return F


def check_forms(res, nap, tier, seed, scratch):
    nw = 30 if tier == "quick" else 300
    done, raised = {}, {}
    for wid in range(nw):
        F = run_form_world(res, nap, seed, wid, tier, scratch)
        for k, v in F.done.items():
            done[k] = done.get(k, 0) + v
        for k, v in F.raised.items():
            raised.setdefault(k, []).extend(v)
        if wid == 0:
            res.sample({"form_world_axes": F.axes, "calls": sorted(F.done)[:12]})
    res.extra["form_calls_completed"] = done
    res.extra["form_calls_raising"] = {k: len(v) for k, v in raised.items()}
    res.extra["form_exception_samples"] = {k: v[:3] for k, v in raised.items()}
    for k, v in raised.items():
        if k.startswith("generator:"):
            res.disagreements.append({"op": k, "what": "harness: the form generator itself raised (%d times); the calls behind it were never made" % len(v), "first": v[0]})
        elif done.get(k, 0) == 0 and len(v) >= 2:
            res.disagreements.append({"op": k, "what": "harness: the call '%s' raised in every one of its %d forms; its frame check is vacuous" % (k, len(v)), "first": v[0]})
    return nw


# ------------------------------------------------------------------------------------------------------
def run(res, tier, seed):
    nap = _nap()
    warnings.simplefilter("ignore")
    nh = 120 if tier == "quick" else 1500
    length = 12 if tier == "quick" else 30
    nm, mlength = (nh, length) if tier == "quick" else (400, 18)      # the cost of a mutating history grows with the square of its length (every live object is snapshotted around every call)
    res.rule = ("(a) %d seeded histories (length %d) of 16 modelled + 25 unmodelled public operations with a deep snapshot of EVERY live object (timestamps, values, support, columns, keys, "
                "metadata) before and after EVERY call, so that aliasing created by earlier results is exposed; (b) caller-supplied arrays/kernels/frames/dicts snapshotted around constructors, "
                "convolve/smooth/filters, correlograms, 1d/2d tuning curves, mutual information, 1d/2d decoding, perievent, event-triggered average, spectrum, wavelets, trial tensors, "
                "randomisation, group selection/merge, TsdTensor operations, save (a call that raises in every repetition is reported as a broken check); (c) every container write that must "
                "be rejected, each on fresh objects with a deep state comparison: attribute assignment and attribute deletion of the reserved attributes of IntervalSet/Ts/Tsd/TsdFrame/"
                "TsdTensor/TsGroup, item assignment into IntervalSet / time index / TsGroup keys, and the inherited dict mutators of TsGroup (del, pop, popitem, clear, |=, update, setdefault); "
                "(d) item assignment / set_info are local to the addressed object for ~40 derivations of each of Tsd, TsdFrame, TsdTensor (both directions), 12 group derivations, 12 frame and "
                "11 IntervalSet derivations; (e) %d further histories (length %d) in which TsdFrame/TsdTensor/TsGroup results are operands of later operations and random sanctioned mutations "
                "(item assignment, column assignment, set_info, assignment into a group member) are interleaved: after a mutation every OTHER live object must be unchanged, around every "
                "other call every live object must be unchanged. non-trivial = a call with >= 1 live object; distinct = (history, step) or (check, case). "
                "(c') ARGUMENT FORMS of the rejected writes: the writes of (c) on 20 other forms of the containers (int16/float32/bool/uint8 data, NaN/inf data, built in ms/us, negative and 1e5 s times, from a TsIndex, "
                "from lists, from integer time arrays, without metadata, bypass_check, string keys, Tsd members, after restrict / slicing / arithmetic / save+load) and in further spellings (item keys as slice, "
                "Ellipsis, boolean mask, list, np.int64; string / float / numpy keys of a group; augmented assignment on the container, on its time index, rate and support). "
                "(f) ARGUMENT FORMS of every operation: %d seeded worlds (random.Random(seed*7919+w)); each draws one value per axis and builds its objects through the public constructors UNDER the frame check, "
                "then runs %d operation draws (each several calls) with every call between two exact snapshots (dtype, shape, every element, labels, keys, member identity, metadata) of ALL live objects and ALL "
                "caller-supplied arguments of the world; results join the store and are operands of later calls. Axis 1 data dtype: float64/float32/int64/int32/int16/int8/uint8..uint64/bool, data with NaN, +inf, -inf, "
                "both infinities in one row, all-equal, zeros; kernels / operands / bin edges / band limits / tuning curves in float32, integer, unsigned, bool dtypes. Axis 2 time arguments: ndarray, list, int list, tuple, "
                "pandas Series / Index / DataFrame, another object's TsIndex and .t, float32 / int64 / int32 / uint8..uint64 arrays, unsorted and strided views; scalars as Python int / float, np.float64 / float32 / int64, "
                "0-d arrays. Axis 3: every call draws a random positional prefix of its arguments from the inspected signature and passes the rest by keyword; optional parameters omitted / None / each value; flags "
                "combined (count x4 parameters, merge reset_index x reset_time_support x ignore_metadata, dropna, smooth, convolve trim x ep, interpolate left/right, filters mode x order x fs x bandwidth). Axis 4: s/ms/us "
                "in constructors and in every operation taking a unit. Axis 5: times at the origin, all negative, straddling 0, offset 1e5 s; samples exactly on interval starts / ends. Axis 6: empty / one-sample / "
                "two-sample / duplicate / all-equal-timestamp series (explicit support), empty / one / many-interval sets, intervals with zero or one sample, empty group, group with an empty member, keys with gaps, "
                "unsorted, strings, multi-digit strings, floats, np.int64. Axis 7: Ts, Tsd, TsdFrame (default / string / unsorted integer / float / pd.Index columns, with and without metadata), TsdTensor, TsGroup "
                "(dict / list / tuple of Ts / Tsd / raw arrays / live objects), dict of Ts, tuples of groups, IntervalSet with / without metadata, built from pairs, DataFrame, IntervalSet, scalars. Axis 8: results feed "
                "later calls; the same live object as both operands; bypass_check groups; strided views of one base array; save + load_file results; sanctioned mutators (item assignment with 12 key forms and "
                "int / float / numpy / bool / array values, set_info as kwargs list / array / tuple / Series / scalar, dict, DataFrame, attribute, item) must change the addressed object only (and the caller "
                "array a support-less constructor documents as kept). A call that raises a clean exception still must leave everything unchanged; an operation that raises in ALL its forms is reported as a "
                "vacuous check" % (nh, length, nm, mlength, 30 if tier == "quick" else 300, 22 if tier == "quick" else 40))
    # (a) histories with snapshots
    for hid in range(nh):
        r = H.run_history(nap, seed + 77, hid, length, 0.7, with_snapshots=True)
        for step in range(len(r["codes"])):
            res.case(("hist", hid, step), nontrivial=True)
        for u in r["unmodelled"]:
            res.count("unmodelled=" + u)
            res.evaluations += 1
        for label, idx in r["snap"]:
            res.violations.append({"key": {"op": label.split(":")[-1], "part": "argument_modified"}, "what": "a live object changed across a call that is not a mutator (%s, object #%d)" % (label, idx),
                                   "input": {"history": r["codes"], "seed": [seed + 77, hid], "at": label}})
        if hid == 0:
            res.sample({"history": r["codes"][:8], "unmodelled": r["unmodelled"][:5]})
    # (e) histories with mutators and frame / tensor / group operands
    exc_by_op, done_by_op = {}, {}
    for hid in range(nm):
        r = run_mut_history(nap, seed + 177, hid, mlength)
        for k, name in enumerate(r["done"]):
            res.case(("mhist", hid, k), nontrivial=True)
            done_by_op[name] = done_by_op.get(name, 0) + 1
            if name.startswith(("extra:", "mutate:")):
                res.count(name)
        if r["dropped"]:
            res.count("mhist_not_stored:second_series_on_the_harness_own_array", len(r["dropped"]))
        for label, msg in r["exc"]:
            exc_by_op[label.split(":", 1)[-1] if not label.startswith("op") else label.split(":")[-1]] = msg
            res.count("mhist_exception:" + label.split(":", 1)[-1])
        for label, idx, cls in r["fails"]:
            res.violations.append({"key": {"op": label.split(":")[-1], "part": "argument_modified", "object": cls, "history": "with_mutators"},
                                   "what": "a live %s changed across a call that is not a mutator (%s, object #%d)" % (cls, label, idx), "input": {"mut_seed": [seed + 177, hid, mlength], "at": label}})
        for kind, tcls, ocls, idx, owner in r["mfails"]:
            res.violations.append({"key": {"op": kind, "part": "visible_through_other_object", "target": tcls, "other": ocls, "other_is_group_holding_target": owner, "history": "with_mutators"},
                                   "what": "%s on a live %s changed another live object (%s #%d)" % (kind, tcls, ocls, idx), "input": {"mut_seed": [seed + 177, hid, mlength], "mutation": kind}})
        if hid == 0:
            res.sample({"mutating_history": r["done"][:14]})
    for name in EXTRA + ["mutate:setitem", "mutate:set_info", "mutate:setitem_column", "mutate:setitem_slice"]:
        key = name if name.startswith("mutate:") else "extra:" + name
        n_exc = res.dist.get("mhist_exception:" + name, 0)
        if done_by_op.get(key, 0) - n_exc < 5:
            res.disagreements.append({"op": key, "what": "harness: this operation completed fewer than 5 times over the mutating histories; its frame check is vacuous",
                                      "done": done_by_op.get(key, 0), "exceptions": n_exc, "last_exception": exc_by_op.get(name)})
    # (b) caller-supplied arrays
    rng = random.Random(seed * 31 + 4)
    scratch = os.path.join(C.CACHE, "c10_scratch")
    os.makedirs(scratch, exist_ok=True)
    try:
        nrep = 6 if tier == "quick" else 60
        raised = {}
        for rep in range(nrep):
            n = rng.randint(20, 60)
            t = np.sort(np.array(rng.sample(range(0, 4000), n), dtype=float) / 100.0)
            d = np.arange(n, dtype=float) + 1
            d2 = np.arange(2 * n, dtype=float).reshape(n, 2)
            d3 = np.arange(4 * n, dtype=float).reshape(n, 2, 2)
            s = np.array([0.0, 15.0, 30.0]); e = np.array([10.0, 25.0, 40.0])
            kern = np.array([1.0, 2.0, 1.0])
            kern2 = np.array([[1.0, 0.5], [2.0, 1.0], [1.0, 0.5]])
            tc = pd.DataFrame(np.array([[1.0, 3.0], [5.0, 2.0], [2.0, 7.0]]), index=np.array([0.5, 1.5, 2.5]), columns=[0, 1])
            feat_v = np.mod(np.arange(n), 3).astype(float) + 0.5
            feat2_v = np.stack([np.mod(np.arange(n), 3).astype(float), np.mod(np.arange(n), 2).astype(float)], 1)
            dct = {0: t.copy(), 1: t[::2].copy()}
            cut = np.array([2.0, 8.0])
            freqs = np.array([2.0, 5.0, 10.0])
            minmax = np.array([0.0, 2.0, 0.0, 1.0])
            bins = np.array([0.0, 5.0, 100.0])
            tc2 = {0: np.array([[1.0, 2.0], [3.0, 4.0]]), 1: np.array([[2.0, 1.0], [0.5, 3.0]])}
            xy = [np.array([0.5, 1.5]), np.array([0.25, 0.75])]
            caller = {"t": t, "d": d, "d2": d2, "d3": d3, "s": s, "e": e, "kern": kern, "kern2": kern2, "tc": tc, "feat_v": feat_v, "feat2_v": feat2_v, "dct0": dct[0], "dct1": dct[1], "cut": cut,
                      "freqs": freqs, "minmax": minmax, "bins": bins, "tc2_0": tc2[0], "tc2_1": tc2[1], "xy0": xy[0], "xy1": xy[1]}
            before = {k: (v.copy(deep=True) if isinstance(v, pd.DataFrame) else v.copy()) for k, v in caller.items()}
            ep = nap.IntervalSet(s, e, metadata={"lab": ["a", "b", "a"]})
            x = nap.Tsd(t, d, time_support=ep)
            fr = nap.TsdFrame(t, d2, time_support=ep, columns=["a", "b"], metadata={"m": [1, 2]})
            te = nap.TsdTensor(t, d3, time_support=ep)
            g = nap.TsGroup(dct, time_support=ep, metadata={"cat": [1, 2]})
            g2 = nap.TsGroup({7: nap.Ts(t[::3])}, time_support=ep, metadata={"cat": [4]})
            feat = nap.Tsd(t, feat_v, time_support=ep)
            feat2 = nap.TsdFrame(t, feat2_v, time_support=ep)
            reg = nap.Tsd(np.arange(0, 40, 0.01), np.sin(np.arange(4000) / 9.0))
            regf = nap.TsdFrame(np.arange(0, 40, 0.01), np.stack([np.sin(np.arange(4000) / 9.0), np.cos(np.arange(4000) / 5.0)], 1))
            ev = nap.Ts(t[::4])
            live = [ep, x, fr, te, g, g2, feat, feat2, reg, regf, ev]
            snaps = [state(nap, o) for o in live]
            sv = lambda name: os.path.join(scratch, name)
            calls = {
                "constructors": lambda: (nap.Ts(t), nap.Tsd(t, d), nap.TsdFrame(t, d2), nap.TsdTensor(t, d3), nap.IntervalSet(s, e), nap.IntervalSet(np.stack([s, e], 1)), nap.TsGroup(dct),
                                         nap.Tsd(t[::-1], d), nap.TsdFrame(t[::-1], d2, time_support=ep), nap.IntervalSet(e, s + 20.0), nap.TsGroup({0: x, 1: feat}), nap.TsGroup({0: x, 1: feat}, bypass_check=True)),
                "convolve": lambda: (x.convolve(kern), fr.convolve(kern2), x.convolve(kern, ep=ep, trim="left"), te.convolve(kern)),
                "smooth": lambda: (x.smooth(0.5, size_factor=5), fr.smooth(0.5, size_factor=5), te.smooth(0.5, size_factor=5)),
                "filters": lambda: (nap.apply_lowpass_filter(reg, 5.0, mode="sinc"), nap.apply_highpass_filter(reg, 5.0, mode="sinc"), nap.apply_bandpass_filter(reg, cut, mode="sinc"),
                                    nap.apply_bandstop_filter(reg, cut, mode="sinc"), nap.apply_lowpass_filter(reg, 5.0, mode="butter"), nap.apply_bandpass_filter(reg, cut, mode="butter"),
                                    nap.get_filter_frequency_response(cut, 100.0, "bandpass", "sinc"), nap.get_filter_frequency_response(cut, 100.0, "bandpass", "butter"),
                                    nap.apply_lowpass_filter(regf, 5.0, mode="sinc"), nap.apply_bandpass_filter(regf, cut, mode="butter"),
                                    nap.apply_bandpass_filter(reg, cut, fs=100.0, mode="sinc", transition_bandwidth=0.1)),
                "correlograms": lambda: (nap.compute_autocorrelogram(g, 0.5, 2.0), nap.compute_crosscorrelogram(g, 0.5, 2.0), nap.compute_eventcorrelogram(g, nap.Ts(t[::3]), 0.5, 2.0),
                                         nap.compute_crosscorrelogram((g, g), 0.5, 2.0), nap.compute_autocorrelogram(g, 0.5, 2.0, ep=ep, norm=False), nap.compute_crosscorrelogram(g, 0.5, 2.0, reverse=True)),
                "tuning": lambda: (nap.compute_1d_tuning_curves(g, feat, 3), nap.compute_discrete_tuning_curves(g, {"a": ep}), nap.compute_1d_tuning_curves_continuous(fr, feat, 3),
                                   nap.compute_2d_tuning_curves(g, feat2, 2, ep=ep, minmax=minmax), nap.compute_2d_tuning_curves_continuous(fr, feat2, 2),
                                   nap.compute_1d_tuning_curves(g, feat, 3, minmax=minmax[:2])),
                "mutual_info": lambda: (nap.compute_1d_mutual_info(tc, feat, ep), nap.compute_2d_mutual_info(tc2, feat2, ep), nap.compute_1d_mutual_info(tc.values, feat, minmax=minmax[:2], bitssec=True)),
                "decode": lambda: (nap.decode_1d(tc, g, ep, 1.0), nap.decode_1d(tc, g, ep, 1.0, feature=feat), nap.decode_1d(tc, g.count(1.0, ep), ep, 1.0), nap.decode_1d(tc, {0: g[0], 1: g[1]}, ep, 1.0)),
                "decode_2d": lambda: (nap.decode_2d(tc2, g, ep, 1.0, xy), nap.decode_2d(tc2, g, ep, 1.0, xy, features=feat2), nap.decode_2d(tc2, g.count(1.0, ep), ep, 1.0, xy)),
                "perievent": lambda: (nap.compute_perievent(x, ev, minmax=(-1.0, 1.0)), nap.compute_perievent_continuous(reg, ev, minmax=(-0.05, 0.05)), nap.compute_perievent(g, ev, (-1.0, 1.0)),
                                      nap.compute_perievent_continuous(regf, ev, (-0.05, 0.05), ep=ep)),
                "eta": lambda: (nap.compute_event_trigger_average(g, reg, 0.05, (0.1, 0.1), ep), nap.compute_event_trigger_average(g, regf, 0.05, (0.1, 0.1))),
                "spectrum": lambda: (nap.compute_fft(reg), nap.compute_power_spectral_density(reg), nap.compute_mean_power_spectral_density(reg, 5.0), nap.compute_fft(regf, norm=True),
                                     nap.compute_power_spectral_density(regf, full_range=True), nap.compute_mean_power_spectral_density(regf, 5.0, ep=nap.IntervalSet(0, 40))),
                "wavelets": lambda: (nap.compute_wavelet_transform(reg, freqs, fs=100.0), nap.compute_wavelet_transform(regf, freqs, fs=100.0), nap.generate_morlet_filterbank(freqs, 100.0)),
                "trial_tensors": lambda: (nap.build_tensor(g, ep, 1.0), nap.build_tensor(x, ep), nap.build_tensor(fr, ep, 1.0), nap.build_tensor(te, ep), nap.warp_tensor(g, ep, 5), nap.warp_tensor(fr, ep, 5),
                                          x.to_trial_tensor(ep), fr.to_trial_tensor(ep), te.to_trial_tensor(ep), g.trial_count(ep, 1.0), g[0].trial_count(ep, 1.0)),
                "randomize": lambda: (nap.shift_timestamps(g, 0.0, 5.0), nap.jitter_timestamps(g, 0.1), nap.resample_timestamps(g), nap.shuffle_ts_intervals(g),
                                      nap.shift_timestamps(g[0], 0.0, 5.0), nap.jitter_timestamps(g[0], 0.1, keep_tsupport=True), nap.resample_timestamps(g[0]), nap.shuffle_ts_intervals(g[0])),
                "set_ops": lambda: (ep.union(ep), ep.intersect(ep), ep.set_diff(ep), ep.split(3.0), ep.merge_close_intervals(6.0), ep.drop_short_intervals(1.0), ep.in_interval(x),
                                    ep.get_intervals_center(), ep.get_intervals_center(0.3), ep.time_span(), ep.as_units("ms"), ep.as_dataframe(), ep.tot_length(), ep.drop_long_intervals(5.0),
                                    np.asarray(ep), ep[0], ep[[0, 2]], ep.loc[[0, 1]], ep["lab"], ep.starts, ep.ends, ep.groupby("lab"), ep.groupby_apply("lab", lambda z: z.tot_length())),
                "queries": lambda: (x.restrict(ep), x.count(1.0, ep), x.bin_average(1.0), x.value_from(feat, ep), x.interpolate(feat, ep), x.threshold(5.0), x.dropna(), x.get(3.0, 20.0),
                                    g.restrict(ep), g.count(1.0), g.value_from(feat), g.to_tsd(), g[[1]], fr[["b"]], fr.loc["a"], np.sqrt(x), x * 2 + fr[:, 0].values, np.concatenate((x.get(0, 9), x.get(15, 24))),
                                    x.as_series(), x.as_units("us"), x.to_numpy(), x.find_support(1.0), x.threshold(5.0, "below"), x.copy(), np.nan_to_num(x), np.clip(x, 2.0, 8.0), np.diff(x),
                                    x[x > 5.0], x.get_slice(3, 9), x.times("ms"), x.start_time("us"), x.end_time("ms")),
                "frame_tensor": lambda: (fr.restrict(ep), fr.bin_average(1.0), fr.interpolate(feat), fr.dropna(), fr.as_dataframe(), fr.as_units("ms"), np.sum(fr, 1), np.cumsum(fr, 0), fr > 5.0,
                                         fr[fr[:, 0].values > 5.0], fr.get_info("m"), fr["m"], fr.groupby("m"), fr.groupby_apply("m", np.mean), te.restrict(ep), te.bin_average(1.0), te.count(1.0),
                                         te.interpolate(feat), te[:, 0], te[:, 0, 1], np.sum(te, 1), np.mean(te, (1, 2)), te * 2, te.dropna(), te.get(3, 9), te.copy(), te.as_array(),
                                         np.concatenate((fr.get(0, 9), fr.get(15, 24)), 0), np.hstack((fr, fr)), np.split(te, 2) if len(te) % 2 == 0 else np.array_split(te, 2)),
                "groups": lambda: (g.to_tsd("cat"), g.to_tsd(np.array([1.0, 2.0])), g.getby_threshold("rate", 0.1), g.getby_intervals("rate", bins), g.getby_category("cat"), g.groupby("cat"),
                                   g.groupby_apply("cat", lambda z: len(z)), g.merge(g2), nap.TsGroup.merge_group(g, g2), nap.TsGroup.merge_group(g, g2, reset_index=True, ignore_metadata=True),
                                   g.count(), g.count(ep=ep), g.get(3, 9), g[g.rate > 0.1], g.rates, g.metadata, g.get_info("cat"), g["cat"], list(g.keys()), list(g.values()), list(g.items()),
                                   nap.Tsd(t, np.mod(np.arange(n), 3).astype(float)).to_tsgroup()),
                "save": lambda: (x.save(sv("x.npz")), fr.save(sv("fr.npz")), g.save(sv("g.npz")), ep.save(sv("ep.npz")), te.save(sv("te.npz")), nap.Ts(t).save(sv("ts.npz")),
                                 nap.load_file(sv("x.npz")), nap.load_file(sv("fr.npz")), nap.load_file(sv("g.npz")), nap.load_file(sv("ep.npz")), nap.load_file(sv("te.npz"))),
            }
            st = np.random.get_state()
            np.random.seed(rng.randrange(2**31))
            try:
                for name, f in calls.items():
                    res.case(("caller", rep, name), nontrivial=True)
                    try:
                        f()
                    except Exception as ex:
                        res.count("exception:" + name)
                        raised.setdefault(name, []).append(type(ex).__name__ + ": " + str(ex)[:200])
                    for k, v in caller.items():
                        same = v.equals(before[k]) if isinstance(v, pd.DataFrame) else np.array_equal(v, before[k], equal_nan=True)
                        if not same:
                            res.violations.append({"key": {"op": name, "part": "caller_array_modified", "array": k}, "what": "a caller-supplied array was modified by " + name,
                                                   "input": {"call": name, "array": k}})
                            if isinstance(v, pd.DataFrame):
                                caller[k].iloc[:, :] = before[k].values
                            else:
                                caller[k][...] = before[k]
                    for i, (o, sn) in enumerate(zip(live, snaps)):
                        if not fs_equal(sn, state(nap, o)):
                            res.violations.append({"key": {"op": name, "part": "argument_modified", "object": type(o).__name__}, "what": "an argument object was modified by " + name,
                                                   "input": {"call": name, "object": type(o).__name__}})
                            snaps[i] = state(nap, o)
            finally:
                np.random.set_state(st)
        for name, msgs in raised.items():
            # a call that raises stops before its later operations: the frame check around it is (partly) vacuous
            res.disagreements.append({"op": name, "what": "harness: the call group '%s' raised in %d of %d repetitions; the operations after the raising one were never run under snapshots"
                                      % (name, len(msgs), nrep), "first": msgs[0]})
        # (c) rejected writes
        check_rejected(res, nap)
        # (d) sanctioned mutators are local
        check_setitem_local(res, nap)
        check_group_members_local(res, nap)
        check_set_info_local(res, nap)
        # (c') the rejected writes on other container forms and in other spellings; (f) every operation on the other forms of its arguments
        check_rejected_forms(res, nap, tier, seed, scratch)
        check_forms(res, nap, tier, seed, scratch)
    finally:
        shutil.rmtree(scratch, ignore_errors=True)
        vk = {}
        for v_ in res.violations:
            k_ = json.dumps(v_.get("key"), sort_keys=True, default=str)
            vk[k_] = vk.get(k_, 0) + 1
        res.extra["violation_key_counts"] = vk


def search(res, seed):
    r2 = C.Result()
    run(r2, "thorough", seed)
    return r2.violations[0] if r2.violations else None


def replay(payload):
    nap = _nap()
    warnings.simplefilter("ignore")
    v = payload.get("violation") or {}
    inp = v.get("input", {})
    if "seed" in inp:
        seed, hid = inp["seed"]
        r = H.run_history(nap, seed, hid, max(12, len(inp.get("history", []))), 0.7, with_snapshots=True)
        print("history", r["codes"])
        print("snapshot failures:", r["snap"])
        return 1 if r["snap"] else 0
    if "mut_seed" in inp:
        seed, hid, length = inp["mut_seed"]
        r = run_mut_history(nap, seed, hid, length)
        print("history", r["done"])
        print("objects changed across a non-mutating call:", r["fails"])
        print("objects other than the target changed by a mutation:", r["mfails"])
        return 1 if (r["fails"] or r["mfails"]) else 0
    if "form_world" in inp or "variant" in inp:
        scratch = os.path.join(C.CACHE, "c10_scratch_replay")
        os.makedirs(scratch, exist_ok=True)
        r = C.Result()
        try:
            if "form_world" in inp:
                seed, wid, tier = inp["form_world"]
                run_form_world(r, nap, seed, wid, tier, scratch)
            else:
                check_rejected_forms(r, nap, "thorough", 0, scratch)
        finally:
            shutil.rmtree(scratch, ignore_errors=True)
        hits = [x for x in r.violations if x["key"] == v.get("key")]
        print("form case", inp.get("form_world") or inp.get("variant"), inp.get("call") or inp.get("case"), "->", [h["what"] for h in hits[:3]] or "no violation with this key")
        return 1 if hits else 0
    if "case" in inp:
        r = C.Result()
        check_rejected(r, nap)
        hits = [x for x in r.violations if x["key"] == v.get("key")]
        print("rejected-write case", inp["case"], "->", [h["what"] for h in hits] or "rejected, state unchanged")
        return 1 if hits else 0
    r = C.Result()
    run(r, "quick", 0)
    hits = [x for x in r.violations if x["key"] == v.get("key")]
    print("violations with the same key on this tree:", hits[:3])
    return 1 if hits else 0
