"""C01 every IntervalSet is canonical and covers the union of its inputs."""
import itertools
import json
import random
import warnings

import numpy as np
import pandas as pd

import common as C
import gen as G

LEVEL = "proof"
TRUSTED = ["model: coq/Model/Iset.v (sortZ, fix_go, mk_iset); theorems: FixIsetProofs.v, FixIsetCover.v, SortInvariance.v, C01Top.v"]
ASSUMPTIONS = ["np.sort modelled by a verified merge sort on ticks; format_timestamps as rounding to ticks (bit-level model is C09's)",
               "an interval whose float end exceeds its float start by less than 0.5 ns after the 1e-6 trim is float_ambiguous"]


def _nap():
    import pynapple as nap
    return nap


INF_TICK = 10**18          # +-inf endpoints (widened inputs) are spelled as +-INF_TICK ticks


def _tick(x):
    x = float(x)
    if x == float("inf"):
        return INF_TICK
    if x == float("-inf"):
        return -INF_TICK
    return C.to_ns(x)


def out_ticks(ep):
    return [(_tick(s), _tick(e)) for s, e in ep.values]


def float_canonical(v):
    return all(v[i, 0] < v[i, 1] for i in range(len(v))) and all(v[i, 1] < v[i + 1, 0] for i in range(len(v) - 1))


def check_output(res, what, inp, ep, model_out, pairs):
    """property oracle on the implementation's output + comparison with the model"""
    v = np.asarray(ep.values)
    impl = out_ticks(ep)
    # float-level canonicity is the property itself
    if not float_canonical(v):
        res.violations.append({"key": {"op": what, "part": "canonical"}, "what": "IntervalSet is not canonical",
                               "input": inp, "impl": v.tolist()})
        return
    amb = [iv for iv in impl if iv[0] >= iv[1]]
    impl_c = [iv for iv in impl if iv[0] < iv[1]]
    if amb:
        res.float_ambiguous += 1
    if model_out is not None and impl_c != model_out:
        res.disagreements.append({"op": what, "input": inp, "impl": impl, "model": model_out})
    if pairs is not None and all(s <= e for s, e in pairs):
        pts = set()
        for s, e in pairs:
            for d in (0, 1, -1, 500, -500, 999, -999, 1000, -1000, 1001, -1001):
                pts.add(s + d)
                pts.add(e + d)
        starts = [s for s, _ in pairs]
        # the statement's exact expectation: zero-length inputs vanish; inputs whose interiors overlap are merged; two merged
        # components sharing only the point p are kept apart by trimming 1 us from the earlier one
        comps, touch = [], []
        for s_, e_ in sorted((s, e) for s, e in pairs if s < e):
            if comps and s_ < comps[-1][1]:
                comps[-1][1] = max(comps[-1][1], e_)
            else:
                if comps and s_ == comps[-1][1]:
                    touch.append(s_)
                comps.append([s_, e_])
        zeros = [s for s, e in pairs if s == e]
        for x in pts:
            inu = G.mem(x, pairs)
            ino = G.mem(x, impl_c)
            if ino and not inu:
                res.violations.append({"key": {"op": what, "part": "cover_sound"}, "what": "result covers a point outside the union of the inputs",
                                       "input": inp, "impl": impl, "x": x})
                return
            if inu and not ino:
                if not any(a <= x <= b for a, b in comps) or any(p - 1000 <= x < p for p in touch):
                    continue          # a vanished zero-length input, or the trimmed microsecond of a touching neighbour
                if any(z - 1000 <= x <= z for z in zeros):
                    res.violations.append({"key": {"op": what, "part": "cover_complete", "zero_length_input_meets_another_input": True},
                                           "what": "a zero-length input lying inside (or on the end of) another input does not vanish: it cuts 1 us out of the union",
                                           "input": inp, "impl": impl, "x": x})
                    return
                res.violations.append({"key": {"op": what, "part": "cover_complete"},
                                       "what": "a point of the union that is not in the trimmed microsecond of a touching neighbour is not covered",
                                       "input": inp, "impl": impl, "x": x})
                return


def pair_multisets(P, m_max):
    prs = [(a, b) for a in P for b in P]
    for m in range(0, m_max + 1):
        for c in itertools.combinations_with_replacement(prs, m):
            yield list(c)


def run(res, tier, seed):
    nap = _nap()
    warnings.simplefilter("ignore")
    P = [0, 1, 1000, 1001, 2000, 3000] if tier == "quick" else [0, 1, 999, 1000, 1001, 2000, 2001, 3000]
    mmax = 3
    res.rule = ("constructor: ALL multisets of <=3 (start,end) pairs over the tick set %s x itself (inverted, zero-length, nested, overlapping, touching, sub-us "
                "pairs all included; given in shuffled order) through nap.IntervalSet(start, end) [complete]; + seeded random larger inputs; + every input form "
                "(array of pairs, DataFrame, scalars, ms/us) on a subsample. Oracle on the implementation output: float-level canonicity, cover sound/complete at "
                "endpoint-adjacent probe points. non-trivial = at least 2 pairs; distinct = distinct input multiset" % P)
    res.exhaustive = True
    rng = random.Random(seed * 104729 + 1)
    cases = []
    for prs in pair_multisets(P, mmax):
        prs = list(prs)
        rng.shuffle(prs)
        cases.append(prs)
    gaps = [0, 1, 999, 1000, 1001, 5000, 10**6]
    for _ in range(400 if tier == "quick" else 20000):
        m = rng.randint(1, 9)
        prs = []
        pool = [0]
        for _ in range(m):
            s = rng.choice(pool) + rng.choice(gaps)
            e = s + rng.choice(gaps) if rng.random() < 0.9 else s - rng.choice(gaps)
            if rng.random() < 0.4:
                e = rng.choice(pool)
            pool += [s, e]
            prs.append((s, e))
        rng.shuffle(prs)
        cases.append(prs)
    offs = [0, -1500, -10**7]
    cases = [[(s + offs[n % 3], e + offs[n % 3]) for s, e in prs] for n, prs in enumerate(cases)]
    lines = ["mk_iset\t%s\t%s" % (C.fmt_ints([s for s, _ in p]), C.fmt_ints([e for _, e in p])) for p in cases]
    model = C.run_model(lines)
    for n, (prs, mo) in enumerate(zip(cases, model)):
        ss = [s for s, _ in prs]
        es = [e for _, e in prs]
        mv = [int(x) for x in mo.split()]
        mout = list(zip(mv[0::2], mv[1::2]))
        inp = {"start": ss, "end": es}
        ep = nap.IntervalSet(G.arr(ss), G.arr(es))
        res.case((tuple(ss), tuple(es)), nontrivial=len(prs) >= 2)
        res.count("n_pairs=%d" % min(len(prs), 5))
        if any(s > e for s, e in prs):
            res.count("has_inverted")
        if any(s == e for s, e in prs):
            res.count("has_zero_length")
        if len(set(ss) & set(es)):
            res.count("has_touch")
        check_output(res, "IntervalSet(start,end)", inp, ep, mout, prs)
        if n % 2500 == 0:
            res.sample({"start": ss, "end": es, "result": out_ticks(ep)})
        # other input forms on a subsample
        if n % 23 == 0 and prs:
            forms = {}
            forms["pairs"] = lambda: nap.IntervalSet(np.stack([G.arr(ss), G.arr(es)], axis=1))
            forms["dataframe"] = lambda: nap.IntervalSet(pd.DataFrame({"start": G.arr(ss), "end": G.arr(es)}))
            forms["ms"] = lambda: nap.IntervalSet(np.array(ss) / 1e6, np.array(es) / 1e6, time_units="ms")
            forms["us"] = lambda: nap.IntervalSet(np.array(ss) / 1e3, np.array(es) / 1e3, time_units="us")
            forms["copy"] = lambda: nap.IntervalSet(ep)
            if len(prs) == 1:
                forms["scalars"] = lambda: nap.IntervalSet(ss[0] / 1e9, es[0] / 1e9)
            for fname, f in forms.items():
                e2 = f()
                res.evaluations += 1
                res.count("form=" + fname)
                if fname == "dataframe":
                    # the DataFrame form sorts rows by start first (pairs kept), then the arrays independently: same multisets
                    pass
                check_output(res, "IntervalSet[%s]" % fname, inp, e2, mout, prs)
    # integer and single-precision dtypes (whole seconds) in the three array forms: the order type of the case is kept (endpoints replaced by their ranks), the model
    # is asked about the rank ticks.  Unsigned dtypes are where `np.diff(x) > 0` wraps around (genuine defect repaired in 97cebbb; seed C01-6)
    icases = []
    for n, prs in enumerate(cases):
        if n % 23 == 11 and prs:
            rank = {v: i for i, v in enumerate(sorted({x for pr in prs for x in pr}))}
            icases.append([(rank[s_], rank[e_]) for s_, e_ in prs])
    imodel = C.run_model(["mk_iset\t%s\t%s" % (C.fmt_ints([s_ * 10**9 for s_, _ in p]), C.fmt_ints([e_ * 10**9 for _, e_ in p])) for p in icases])
    DT = [np.uint8, np.uint16, np.uint32, np.uint64, np.int8, np.int32, np.int64, np.float32]
    for n, (prs, mo) in enumerate(zip(icases, imodel)):
        mv = [int(x) for x in mo.split()]
        mout = list(zip(mv[0::2], mv[1::2]))
        tprs = [(s_ * 10**9, e_ * 10**9) for s_, e_ in prs]
        dt = DT[n % len(DT)]
        ss, es = np.array([s_ for s_, _ in prs], dtype=dt), np.array([e_ for _, e_ in prs], dtype=dt)
        inp = {"start_s": ss.tolist(), "end_s": es.tolist(), "dtype": np.dtype(dt).name}
        for fname, f in (("two_arrays", lambda: nap.IntervalSet(ss, es)), ("pairs", lambda: nap.IntervalSet(np.stack([ss, es], axis=1))),
                         ("dataframe", lambda: nap.IntervalSet(pd.DataFrame({"start": ss, "end": es}))), ("lists", lambda: nap.IntervalSet(ss.tolist(), es.tolist()))):
            res.evaluations += 1
            res.count("form=%s,dtype=%s" % (fname, np.dtype(dt).name))
            check_output(res, "IntervalSet[%s,%s]" % (fname, np.dtype(dt).name), inp, f(), mout, tprs)
    # results of operations are canonical (every operation re-enters the constructor)
    ops_cases = 0
    S = G.canonical_isets(G.lattice(7), 3)
    sub = S if tier == "thorough" else rng.sample(S, 40)
    for A in sub:
        a = nap.IntervalSet(G.arr([s for s, _ in A]), G.arr([e for _, e in A]))
        for B in (S if tier == "thorough" else rng.sample(S, 25)):
            b = nap.IntervalSet(G.arr([s for s, _ in B]), G.arr([e for _, e in B]))
            for name, r in (("union", a.union(b)), ("intersect", a.intersect(b)), ("set_diff", a.set_diff(b))):
                ops_cases += 1
                if not float_canonical(np.asarray(r.values)):
                    res.violations.append({"key": {"op": name, "part": "canonical"}, "what": "result of %s is not canonical" % name,
                                           "input": {"A": A, "B": B}, "impl": r.values.tolist()})
        if len(A):
            others = {"split": lambda: a.split(0.0000015), "merge_close": lambda: a.merge_close_intervals(0.000001),
                      "drop_short": lambda: a.drop_short_intervals(0.000001), "drop_long": lambda: a.drop_long_intervals(0.000002),
                      "index0": lambda: a[0], "slice": lambda: a[0:2], "mask": lambda: a[np.arange(len(a)) % 2 == 0],
                      "time_span": lambda: a.time_span()}
            for name, f in others.items():
                r = f()
                ops_cases += 1
                if not float_canonical(np.asarray(r.values)):
                    res.violations.append({"key": {"op": name, "part": "canonical"}, "what": "result of %s is not canonical" % name,
                                           "input": {"A": A}, "impl": r.values.tolist()})
    res.evaluations += ops_cases
    res.count("ops_cases", ops_cases)
    # ---- widened argument forms
    res.rule += (
        " || WIDENED FORMS (same oracles; model compared wherever the result is built from known pairs; runs in two argument forms compared as disagreements). "
        "[dtype] start/end as whole numbers of s/ms/us in uint8..uint64, int8..int64, float16/32/64 and bool arrays, start and end of different dtypes, values below 0 for signed types; "
        "+inf ends and -inf starts (cover clause applied with +-inf as +-1e18 ticks) and NaN endpoints (canonicity only; no NaN may survive); series data in float32/int64/int16/uint8/bool, NaN / +inf / -inf / all-equal / zero data for threshold and dropna. "
        "[time-argument form] ndarray, list, tuple, pandas Series (own index) / Index, another object's TsIndex and .t, strided / reversed / read-only views, start and end sharing one memory block, "
        "column and row vectors, iterables of pairs (Fortran order, transposed view, lists of tuples / lists / arrays, iterator, one pair), DataFrames (columns reordered, metadata columns, own row labels), "
        "numpy scalars, 0-d arrays, Python ints; integer-typed times incl. unsigned. "
        "[positional / keyword] every parameter of the constructor and of union/intersect/set_diff/split/merge_close_intervals/drop_short/long_intervals/threshold/dropna/find_support/restrict/get/count/"
        "bin_average/value_from/interpolate/TsGroup given positionally, by keyword and mixed; defaults spelled out; metadata given or not; merge flags combined; option strings in another letter case must raise or give canonical sets. "
        "[units] s/ms/us for every container and for every duration argument (int, float, numpy.float64/float32/int64/uint16), the same instants must give the same set. "
        "[placement] the case multisets re-placed at 0, straddling 0, negative and +-1e5 s, snapped to the us / ms / s grids; receivers on 1 us, 2 ms, 0.5 s and 2^-8 s lattices; samples on epoch ends by construction. "
        "[degenerate] empty input in every container, single pairs in every scalar form, empty / one-interval receivers, empty series, one sample, coinciding timestamps (with and, on purpose, without a given support), "
        "duplicates, all-False masks, empty TsGroup, groups with empty members, keys not 0..n-1 / unsorted / multi-digit strings / floats / numpy ints. "
        "[class] IntervalSet with and without metadata as receiver and argument; Ts, Tsd, TsdFrame (string / non-0..n-1 integer / unsorted column labels), TsdTensor, TsGroup from dict or list of Ts / Tsd / bare arrays. "
        "[histories] a live canonical set handed back whole / by columns / views / as_dataframe / as_units / numpy conversion / save+load / pickle; indexing by int, negative, numpy ints, slices (negative step, beyond the end), "
        "lists with duplicates, int arrays of every width, masks (ndarray, list, Series), Series / Index keys, (rows, columns) tuples, .loc: the result must be the statement's set of the SELECTED rows; "
        "three operands, the same live object twice, results fed to the next operation; seeded histories of 1-4 operations on series and of 0-3 operations on groups, every support met on the way canonical, "
        "default supports equal to the statement's set of the single pair (first, last timestamp), a group built without time_support covers exactly the union of its members' supports, bypass_check=True with pre-restricted members."
    )
    widen_constructor(res, nap, tier, seed, cases)
    widen_dtypes(res, nap, tier, seed, cases)
    widen_nonfinite(res, nap, tier, seed, cases)
    widen_roundtrip(res, nap, tier, seed, cases)
    widen_ops(res, nap, tier, seed)
    widen_supports(res, nap, tier, seed)
    widen_groups(res, nap, tier, seed)
    widen_options(res, nap, tier, seed)


# ======================================================================================
# WIDENED ARGUMENT FORMS (the oracle stays check_output / float_canonical; only the generators grow)
UNIT = {"s": 10**9, "ms": 10**6, "us": 10**3}


def fv(x, unit="s"):
    """ticks -> float64 values in `unit` (the same instants in every unit)"""
    x = list(x)
    if unit == "s":
        return G.arr(x)
    return np.asarray(x, dtype=np.float64) / float(UNIT[unit]) if len(x) else np.array([], dtype=np.float64)


def divisible(x, unit):
    return all(t % UNIT[unit] == 0 for t in x)


def iv(x, unit):
    """ticks -> Python ints in `unit` (only when divisible)"""
    return [int(t) // UNIT[unit] for t in x]


def _obtain(res, what, inp, f, strict=True, extra_key=None):
    """run one public call; an accepted input form that raises gives the user no IntervalSet at all: reported (part=exception).
    strict=False: the documented signature does not clearly accept the form: a clean Python exception is fine"""
    try:
        return f()
    except Exception as ex:
        if strict:
            key = {"op": what, "part": "exception", "type": type(ex).__name__}
            key.update(extra_key or {})
            res.violations.append({"key": key, "what": "an accepted argument form raises instead of returning: %s" % str(ex)[:160], "input": inp})
        else:
            res.count("clean_exception")
        return None


def _model_isets(lines):
    out = []
    for mo in C.run_model(lines):
        mv = [int(x) for x in mo.split()]
        out.append(list(zip(mv[0::2], mv[1::2])))
    return out


def _mk_line(prs):
    return "mk_iset\t%s\t%s" % (C.fmt_ints([s for s, _ in prs]), C.fmt_ints([e for _, e in prs]))


def ctor_forms(nap):
    """every accepted way of handing the SAME multiset of (start, end) pairs to the constructor: (name, applicable, build, strict)"""
    IS = nap.IntervalSet
    L = []

    def add(name, build, pred=None, strict=True):
        L.append((name, pred or (lambda ss, es: True), build, strict))

    one = lambda ss, es: len(ss) == 1
    nz = lambda ss, es: len(ss) >= 1
    lab = lambda n: ["m%d" % i for i in range(n)]
    pl = lambda ss, es, u="s": list(zip(fv(ss, u).tolist(), fv(es, u).tolist()))
    # --- containers of the time arguments
    add("list", lambda ss, es: IS(fv(ss).tolist(), fv(es).tolist()))
    add("tuple", lambda ss, es: IS(tuple(fv(ss).tolist()), tuple(fv(es).tolist())))
    add("list+ndarray", lambda ss, es: IS(fv(ss).tolist(), fv(es)))
    add("series", lambda ss, es: IS(pd.Series(fv(ss)), pd.Series(fv(es))))
    add("series_own_index", lambda ss, es: IS(pd.Series(fv(ss), index=np.arange(len(ss))[::-1] + 5), pd.Series(fv(es), index=lab(len(es)))))
    add("series+tuple", lambda ss, es: IS(pd.Series(fv(ss)), tuple(fv(es).tolist())))
    add("pd_index", lambda ss, es: IS(pd.Index(fv(ss)), pd.Index(fv(es))))
    add("tsindex", lambda ss, es: IS(nap.Ts(t=fv(ss)).index, nap.Tsd(t=fv(es), d=np.zeros(len(es))).index))
    add("ts_t", lambda ss, es: IS(nap.Ts(t=fv(ss)).t, nap.Ts(t=fv(es)).t))
    add("strided_view", lambda ss, es: IS(np.repeat(fv(ss), 2)[::2], np.repeat(fv(es), 3)[1::3]))
    add("reversed_view", lambda ss, es: IS(fv(ss[::-1])[::-1], fv(es[::-1])[::-1]))

    def shared_cols(ss, es):
        M = np.stack([fv(ss), fv(es)], axis=1)
        return IS(M[:, 0], M[:, 1])

    def shared_rows(ss, es):
        M = np.stack([fv(ss), fv(es)])
        return IS(M[0], M[1])

    def readonly(ss, es):
        a, b = fv(ss), fv(es)
        a.setflags(write=False)
        b.setflags(write=False)
        return IS(a, b)

    add("shared_memory_columns", shared_cols)
    add("shared_memory_rows", shared_rows)
    add("readonly", readonly)
    add("column_and_row_vectors", lambda ss, es: IS(fv(ss)[:, None], fv(es)[None, :]))
    # --- positional / keyword, defaults spelled out, metadata
    add("kw", lambda ss, es: IS(start=fv(ss), end=fv(es)))
    add("kw_swapped", lambda ss, es: IS(end=fv(es), start=fv(ss)))
    add("pos+kw", lambda ss, es: IS(fv(ss), end=fv(es)))
    add("units_s_positional", lambda ss, es: IS(fv(ss), fv(es), "s"))
    add("all_kw_defaults", lambda ss, es: IS(start=fv(ss), end=fv(es), time_units="s", metadata=None))
    add("metadata_dict", lambda ss, es: IS(fv(ss), fv(es), metadata={"lab": lab(len(ss)), "w": list(range(len(ss)))}))
    add("metadata_df_positional", lambda ss, es: IS(fv(ss), fv(es), "s", pd.DataFrame({"w": np.arange(len(ss))})))
    # --- array of pairs
    add("pairs_fortran", lambda ss, es: IS(np.asfortranarray(np.stack([fv(ss), fv(es)], axis=1))), nz)
    add("pairs_transposed_view", lambda ss, es: IS(np.stack([fv(ss), fv(es)]).T), nz)
    add("pairs_list_of_tuples", lambda ss, es: IS(pl(ss, es)), nz)
    add("pairs_list_of_lists", lambda ss, es: IS([list(p) for p in pl(ss, es)]), nz)
    add("pairs_tuple_of_tuples", lambda ss, es: IS(tuple(pl(ss, es))), nz)
    add("pairs_list_of_arrays", lambda ss, es: IS([np.array(p) for p in pl(ss, es)]), nz)
    add("pairs_iterator", lambda ss, es: IS(zip(fv(ss).tolist(), fv(es).tolist())), nz)
    add("pairs_kw", lambda ss, es: IS(start=np.stack([fv(ss), fv(es)], axis=1)), nz)
    add("pairs_end_none", lambda ss, es: IS(np.stack([fv(ss), fv(es)], axis=1), None, "s"), nz)
    add("single_pair_tuple", lambda ss, es: IS(pl(ss, es)[0]), one)
    add("single_pair_list", lambda ss, es: IS(list(pl(ss, es)[0])), one)
    add("single_pair_array", lambda ss, es: IS(np.array(pl(ss, es)[0])), one)
    add("pairs_empty", lambda ss, es: IS(np.zeros((0, 2))), lambda ss, es: len(ss) == 0, strict=False)
    # --- DataFrame
    add("dataframe_cols_reversed", lambda ss, es: IS(pd.DataFrame({"end": fv(es), "start": fv(ss)})))
    add("dataframe_meta", lambda ss, es: IS(pd.DataFrame({"lab": lab(len(ss)), "start": fv(ss), "w": np.arange(len(ss)), "end": fv(es)})))
    add("dataframe_kw", lambda ss, es: IS(start=pd.DataFrame({"start": fv(ss), "end": fv(es)})))
    # --- scalars
    add("scalars_float", lambda ss, es: IS(float(fv(ss)[0]), float(fv(es)[0])), one)
    add("scalars_npfloat64", lambda ss, es: IS(fv(ss)[0], fv(es)[0]), one)
    add("scalars_0d", lambda ss, es: IS(np.array(fv(ss)[0]), np.array(fv(es)[0])), one)
    add("scalars_mixed", lambda ss, es: IS(float(fv(ss)[0]), fv(es)), one)
    add("scalars_kw", lambda ss, es: IS(start=float(fv(ss)[0]), end=float(fv(es)[0])), one)
    # --- time units with every container; integer-dtype times where the instants are whole units
    for u in ("ms", "us"):
        dv = lambda ss, es, u=u: divisible(ss, u) and divisible(es, u)
        dvp = lambda ss, es, u=u: divisible(ss, u) and divisible(es, u) and min(list(ss) + list(es) + [0]) >= 0
        add("list,%s" % u, lambda ss, es, u=u: IS(fv(ss, u).tolist(), fv(es, u).tolist(), time_units=u))
        add("tuple,%s,positional" % u, lambda ss, es, u=u: IS(tuple(fv(ss, u).tolist()), tuple(fv(es, u).tolist()), u))
        add("series,%s" % u, lambda ss, es, u=u: IS(pd.Series(fv(ss, u)), pd.Series(fv(es, u)), time_units=u))
        add("pd_index,%s" % u, lambda ss, es, u=u: IS(pd.Index(fv(ss, u)), pd.Index(fv(es, u)), time_units=u))
        add("strided_view,%s" % u, lambda ss, es, u=u: IS(np.repeat(fv(ss, u), 2)[::2], np.repeat(fv(es, u), 2)[1::2], time_units=u))
        add("dataframe,%s" % u, lambda ss, es, u=u: IS(pd.DataFrame({"start": fv(ss, u), "end": fv(es, u)}), time_units=u))
        add("dataframe_meta,%s" % u, lambda ss, es, u=u: IS(pd.DataFrame({"start": fv(ss, u), "end": fv(es, u), "lab": lab(len(ss))}), None, u))
        add("pairs_list,%s" % u, lambda ss, es, u=u: IS(pl(ss, es, u), time_units=u), nz)
        add("pairs_fortran,%s" % u, lambda ss, es, u=u: IS(np.asfortranarray(np.stack([fv(ss, u), fv(es, u)], axis=1)), time_units=u), nz)
        add("scalars,%s" % u, lambda ss, es, u=u: IS(float(fv(ss, u)[0]), float(fv(es, u)[0]), u), one)
        add("metadata,%s" % u, lambda ss, es, u=u: IS(fv(ss, u), fv(es, u), time_units=u, metadata={"lab": lab(len(ss))}))
    for u in ("s", "ms", "us"):
        dv = lambda ss, es, u=u: divisible(ss, u) and divisible(es, u)
        dvp = lambda ss, es, u=u: divisible(ss, u) and divisible(es, u) and min(list(ss) + list(es) + [0]) >= 0
        add("int64,%s" % u, lambda ss, es, u=u: IS(np.array(iv(ss, u), dtype=np.int64), np.array(iv(es, u), dtype=np.int64), time_units=u), dv)
        add("uint64,%s" % u, lambda ss, es, u=u: IS(np.array(iv(ss, u), dtype=np.uint64), np.array(iv(es, u), dtype=np.uint64), time_units=u), dvp)
        add("uint64+int64,%s" % u, lambda ss, es, u=u: IS(np.array(iv(ss, u), dtype=np.uint64), np.array(iv(es, u), dtype=np.int64), time_units=u), dvp)
        add("pylist_int,%s" % u, lambda ss, es, u=u: IS(iv(ss, u), iv(es, u), time_units=u), dv)
        add("series_int,%s" % u, lambda ss, es, u=u: IS(pd.Series(iv(ss, u), dtype=np.int64), pd.Series(iv(es, u), dtype=np.int64), u), dv)
        add("dataframe_int,%s" % u, lambda ss, es, u=u: IS(pd.DataFrame({"start": np.array(iv(ss, u), dtype=np.int64), "end": np.array(iv(es, u), dtype=np.int64)}), time_units=u), dv)
        add("pairs_int,%s" % u, lambda ss, es, u=u: IS(np.array(list(zip(iv(ss, u), iv(es, u))), dtype=np.int64).reshape(-1, 2), time_units=u),
            lambda ss, es, u=u: len(ss) >= 1 and divisible(ss, u) and divisible(es, u))
        add("pairs_pyint,%s" % u, lambda ss, es, u=u: IS(list(zip(iv(ss, u), iv(es, u))), time_units=u),
            lambda ss, es, u=u: len(ss) >= 1 and divisible(ss, u) and divisible(es, u))
        add("int_scalars,%s" % u, lambda ss, es, u=u: IS(iv(ss, u)[0], iv(es, u)[0], time_units=u),
            lambda ss, es, u=u: len(ss) == 1 and divisible(ss, u) and divisible(es, u))
        add("npint_scalars,%s" % u, lambda ss, es, u=u: IS(np.int64(iv(ss, u)[0]), np.array(iv(es, u)[0]), u),
            lambda ss, es, u=u: len(ss) == 1 and divisible(ss, u) and divisible(es, u))
    return L


W_OFFS = [0, -1500, -2500, 10**14, -10**14, -10**7, 10**14 + 500]      # straddling 0, +-1e5 s


def widen_constructor(res, nap, tier, seed, cases):
    """axes 2-6 and 8 on the constructor: the case multisets of run() re-placed in time and snapped to the us / ms grids, each handed over in a
    rotating + seeded selection of the argument forms of ctor_forms(); full oracle (check_output) and the model on every one"""
    quick = tier == "quick"
    rng = random.Random(seed * 7919 + 11)
    forms = ctor_forms(nap)
    K = 1300 if quick else 6000
    per = 5 if quick else 7
    pick = [c for c in cases if len(c) <= 1] + [rng.choice(cases) for _ in range(K)]
    wcases = []
    for n, prs in enumerate(pick):
        off = W_OFFS[n % len(W_OFFS)]
        grid = ("ns", "us", "ms", "s")[rng.randrange(4)] if n % 3 else "ns"
        if grid == "ns":
            q = [(s + off, e + off) for s, e in prs]
        else:
            # snap to whole microseconds, then scale: the instants become whole us / ms / s (integer-typed arguments become possible)
            k = {"us": 1, "ms": 1000, "s": 10**6}[grid]
            o = (off // (1000 * k)) * 1000 * k
            q = [((s // 1000) * 1000 * k + o, (e // 1000) * 1000 * k + o) for s, e in prs]
        wcases.append((grid, q))
    model = _model_isets([_mk_line(q) for _, q in wcases])
    rot = 0
    for n, ((grid, prs), mout) in enumerate(zip(wcases, model)):
        ss = [s for s, _ in prs]
        es = [e for _, e in prs]
        inp = {"start": ss, "end": es}
        app = [f for f in forms if f[1](ss, es)]
        if len(prs) <= 1:
            chosen = app                       # the empty input and the single pairs meet every applicable form
        else:
            chosen = [app[(rot + j * 7) % len(app)] for j in range(per - 2)] + rng.sample(app, 2)
            rot += 1
        res.case(("w", tuple(ss), tuple(es)), nontrivial=len(prs) >= 2)
        res.count("w_grid=%s" % grid)
        res.count("w_offset=%d" % W_OFFS[n % len(W_OFFS)])
        for fname, _, build, strict in chosen:
            what = "IntervalSet[%s]" % fname
            inp_f = dict(inp, form=fname)
            ep = _obtain(res, what, inp_f, lambda: build(ss, es), strict)
            res.evaluations += 1
            res.count("wform=" + fname)
            if ep is not None:
                check_output(res, what, inp_f, ep, mout, prs)
    # a DataFrame that kept the row labels of a larger table (rows filtered out), rows already in order / not in order
    for n, ((grid, prs), mout) in enumerate(zip(wcases, model)):
        if n % 9 or not prs:
            continue
        ss = [s for s, _ in prs]
        es = [e for _, e in prs]
        for with_meta in (False, True):
            d = {"start": fv(ss), "end": fv(es)}
            if with_meta:
                d["lab"] = ["m%d" % i for i in range(len(ss))]
            df = pd.DataFrame(d, index=np.arange(len(ss)) * 2 + 3)
            in_order = bool(np.all(np.diff(fv(ss)) >= 0))
            what = "IntervalSet[dataframe_own_index]"
            inp = {"start": ss, "end": es, "form": "dataframe with index %s%s" % (df.index.tolist(), ", metadata column" if with_meta else "")}
            ep = _obtain(res, what, inp, lambda: nap.IntervalSet(df), True,
                         {"dataframe_index_not_default": True, "rows_in_start_order": in_order})
            res.evaluations += 1
            res.count("wform=dataframe_own_index,in_order=%s" % in_order)
            if ep is not None:
                check_output(res, what, inp, ep, mout, prs)


W_DT = [np.uint8, np.uint16, np.uint32, np.uint64, np.int8, np.int16, np.int32, np.int64, np.float16, np.float32, np.float64, np.bool_]


def widen_dtypes(res, nap, tier, seed, cases):
    """axes 1, 2, 4 on the constructor: whole numbers of s / ms / us (the order type of a case, endpoints replaced by their ranks, shifted below 0 for the
    signed types) in every integer / float / bool dtype, start and end possibly of DIFFERENT dtypes, in every container; numpy scalars for single pairs"""
    quick = tier == "quick"
    rng = random.Random(seed * 7919 + 12)
    IS = nap.IntervalSet
    signed = lambda dt: np.dtype(dt).kind in "if"
    conts = {
        "two_arrays": lambda a, b, u: IS(a, b, time_units=u),
        "pairs": lambda a, b, u: IS(np.stack([a, b], axis=1), time_units=u),
        "dataframe": lambda a, b, u: IS(pd.DataFrame({"start": a, "end": b}), time_units=u),
        "lists": lambda a, b, u: IS(a.tolist(), b.tolist(), u),
        "series": lambda a, b, u: IS(pd.Series(a), pd.Series(b), time_units=u),
        "tuple_of_npscalars": lambda a, b, u: IS(tuple(a), tuple(b), time_units=u),
        "list_of_npscalar_pairs": lambda a, b, u: IS([(x, y) for x, y in zip(a, b)], time_units=u),
        "ts_index_of_dtype": lambda a, b, u: IS(nap.Ts(t=a, time_units=u).index, nap.Ts(t=b, time_units=u).index),
        "np_scalars": lambda a, b, u: IS(a[0], b[0], u),
        "0d_arrays": lambda a, b, u: IS(a[0:1].reshape(()), b[0:1].reshape(()), time_units=u),
    }
    todo = []
    src = [c for n, c in enumerate(cases) if c and n % (23 if quick else 11) == 5]
    ranked = []
    for prs in src:
        rank = {v: i for i, v in enumerate(sorted({x for pr in prs for x in pr}))}
        ranked.append(([(rank[s_], rank[e_]) for s_, e_ in prs], None))
    for m in (1, 2):                                      # every multiset of <= 2 pairs over {0, 1}: the cases a bool array can spell
        for c in itertools.combinations_with_replacement([(0, 0), (0, 1), (1, 0), (1, 1)], m):
            ranked.append((list(c), np.bool_))
    for rp, force in ranked:
        top = max(max(p) for p in rp)
        for _ in range(3):
            d1 = force or rng.choice(W_DT)
            d2 = d1 if rng.random() < 0.5 else rng.choice(W_DT)
            if top > 1:                                   # bool holds 0 / 1 only
                d1 = rng.choice(W_DT[:11]) if d1 is np.bool_ else d1
                d2 = rng.choice(W_DT[:11]) if d2 is np.bool_ else d2
            shift = rng.choice([0, 1, top // 2 + 1, top + 2]) if signed(d1) and signed(d2) else 0
            u = rng.choice(["s", "ms", "us"])
            names = [c for c in conts if (len(rp) == 1 or c not in ("np_scalars", "0d_arrays"))]
            if np.bool_ in (d1, d2):
                names = [c for c in names if c != "np_scalars"]        # numpy.bool_ is not a number for the constructor (clean RuntimeError)
            cn = rng.choice(names) if len(rp) > 1 else None
            todo.append((rp, shift, d1, d2, u, cn))
    model = _model_isets([_mk_line([((s_ - sh) * UNIT[u], (e_ - sh) * UNIT[u]) for s_, e_ in rp]) for rp, sh, _, _, u, _ in todo])
    for (rp, sh, d1, d2, u, cn), mout in zip(todo, model):
        a = np.array([s_ - sh for s_, _ in rp], dtype=d1)
        b = np.array([e_ - sh for _, e_ in rp], dtype=d2)
        tprs = [((s_ - sh) * UNIT[u], (e_ - sh) * UNIT[u]) for s_, e_ in rp]
        inp = {"start": a.tolist(), "end": b.tolist(), "dtype_start": np.dtype(d1).name, "dtype_end": np.dtype(d2).name, "time_units": u}
        for c in ([cn] if cn else [c for c in conts if not (c == "np_scalars" and np.bool_ in (d1, d2))]):
            what = "IntervalSet[%s,%s%s,%s]" % (c, np.dtype(d1).name, "" if d1 is d2 else "+" + np.dtype(d2).name, u)
            ep = _obtain(res, what, dict(inp, form=c), lambda: conts[c](a, b, u))
            res.evaluations += 1
            res.count("wdtype=%s" % np.dtype(d1).name)
            if d1 is not d2:
                res.count("wdtype_mixed")
            res.count("wdtype_container=%s" % c)
            res.count("wdtype_units=%s" % u)
            if sh:
                res.count("wdtype_negative_values")
            if ep is not None:
                check_output(res, what, dict(inp, form=c), ep, mout, tprs)


def widen_nonfinite(res, nap, tier, seed, cases):
    """axis 1: +inf ends and -inf starts (every pair still has start <= end: the statement's cover clause applies, +-inf spelled as +-INF_TICK for the
    model and the oracle); NaN endpoints (no order: only canonicity is determined, and the result must not hold a NaN)"""
    quick = tier == "quick"
    rng = random.Random(seed * 7919 + 13)
    IS = nap.IntervalSet
    INF = float("inf")
    src = [c for n, c in enumerate(cases) if c and n % (31 if quick else 13) == 3]
    todo = []
    for prs in src:
        q = [list(p) for p in prs]
        kind = rng.choice(["inf", "inf", "nan"])
        hit = rng.sample(range(len(q)), rng.randint(1, len(q)))
        for i in hit:
            if kind == "nan":
                q[i][rng.randrange(2)] = None
            elif rng.random() < 0.5:
                q[i][1] = INF_TICK
            else:
                q[i][0] = -INF_TICK
        todo.append((kind, [tuple(p) for p in q]))
    model = _model_isets([_mk_line([(0 if s is None else s, 0 if e is None else e) for s, e in q]) for _, q in todo])

    def val(t):
        return float("nan") if t is None else INF if t == INF_TICK else -INF if t == -INF_TICK else t / 1e9

    for n, ((kind, q), mout) in enumerate(zip(todo, model)):
        s = np.array([val(a) for a, _ in q])
        e = np.array([val(b) for _, b in q])
        inp = {"start": s.tolist(), "end": e.tolist()}
        for fname, f in (("two_arrays", lambda: IS(s, e)), ("pairs", lambda: IS(np.stack([s, e], axis=1))), ("lists", lambda: IS(s.tolist(), e.tolist())),
                         ("dataframe", lambda: IS(pd.DataFrame({"start": s, "end": e}))), ("ms", lambda: IS(s * 1e3, e * 1e3, time_units="ms")),
                         ("series,kw", lambda: IS(start=pd.Series(s), end=pd.Series(e)))):
            what = "IntervalSet[%s,%s]" % (fname, kind)
            ep = _obtain(res, what, inp, f)
            res.evaluations += 1
            res.count("wnonfinite=%s,%s" % (kind, fname))
            if ep is None:
                continue
            if kind == "nan":
                v = np.asarray(ep.values)
                if np.isnan(v).any() or not float_canonical(v):
                    res.violations.append({"key": {"op": what, "part": "canonical"}, "what": "IntervalSet built from inputs holding NaN is not canonical",
                                           "input": inp, "impl": v.tolist()})
            else:
                check_output(res, what, inp, ep, mout, q)


def widen_roundtrip(res, nap, tier, seed, cases):
    """axis 8 on the constructor: a live canonical IntervalSet (with and without metadata) handed back to the constructor whole, by its columns / views of its
    own memory, through as_dataframe / as_units, a numpy conversion, save + load and pickle: it must come back as the same set (it is canonical, so it is its
    own union)"""
    import os
    import pickle
    import tempfile
    quick = tier == "quick"
    IS = nap.IntervalSet
    tmp = tempfile.mkdtemp(prefix="c01rt")
    src = [c for n, c in enumerate(cases) if c and n % (61 if quick else 29) == 7]
    eps = []
    for n, prs in enumerate(src):
        off = W_OFFS[n % len(W_OFFS)]
        k = 1 if n % 2 else 1000
        q = [(s * k + off, e * k + off) for s, e in prs] if n % 3 else [((s // 1000) * 1000 + off // 1000 * 1000, (e // 1000) * 1000 + off // 1000 * 1000) for s, e in prs]
        ep = IS(fv([s for s, _ in q]), fv([e for _, e in q]))
        t = out_ticks(ep)
        if len(ep) and all(a < b for a, b in t):
            eps.append((ep, t))
    model = _model_isets([_mk_line(t) for _, t in eps])
    for n, ((ep0, t), mout) in enumerate(zip(eps, model)):
        meta = n % 2 == 1
        ep = IS(ep0.values, metadata={"lab": ["m%d" % i for i in range(len(ep0))]}) if meta else ep0
        path = os.path.join(tmp, "e%d.npz" % (n % 4))

        def saveload():
            ep.save(path)
            return nap.load_file(path)

        forms = {"copy": lambda: IS(ep), "copy_kw": lambda: IS(start=ep), "values": lambda: IS(ep.values), "columns": lambda: IS(ep.start, ep.end),
                 "columns_by_name": lambda: IS(ep["start"], ep["end"]), "columns_by_tuple_index": lambda: IS(ep[:, 0], ep[:, 1]),
                 "columns_loc": lambda: IS(ep.loc["start"], ep.loc["end"]), "np_asarray": lambda: IS(np.asarray(ep)), "np_array_f": lambda: IS(np.array(ep, order="F")),
                 "as_dataframe": lambda: IS(ep.as_dataframe()), "as_units_ms": lambda: IS(ep.as_units("ms"), time_units="ms"),
                 "as_units_s_kw": lambda: IS(start=ep.as_units(units="s")), "reversed_views": lambda: IS(ep.start[::-1], ep.end[::-1]),
                 "transposed_values": lambda: IS(ep.values.T[0], ep.values.T[1]), "save_load": saveload, "pickle": lambda: pickle.loads(pickle.dumps(ep)),
                 "index_all": lambda: ep[:], "str_columns": lambda: ep[["start", "end"]], "twice": lambda: IS(IS(ep))}
        if all(a % 1000 == 0 and b % 1000 == 0 for a, b in t):
            forms["as_units_us"] = lambda: IS(ep.as_units("us"), time_units="us")
        inp = {"start": [a for a, _ in t], "end": [b for _, b in t], "metadata": meta}
        for fname, f in forms.items():
            what = "IntervalSet[roundtrip:%s]" % fname
            r = _obtain(res, what, inp, f)
            res.evaluations += 1
            res.count("wroundtrip=%s%s" % (fname, ",metadata" if meta else ""))
            if r is not None:
                check_output(res, what, dict(inp, form=fname), r, mout, t)
    for f in os.listdir(tmp):
        os.remove(os.path.join(tmp, f))
    os.rmdir(tmp)


W_STEPS = [1000, 2 * 10**6, 5 * 10**8, 2 * 1953125]      # 1 us, 2 ms, 0.5 s, 2^-8 s (dyadic)


def _place(A, step, k):
    return [((s + k) * step, (e + k) * step) for s, e in A]


def _mk(nap, T, meta=False, how=0):
    """a canonical set given in ticks -> IntervalSet (how: which constructor form built it; the values are the same)"""
    ss, es = [s for s, _ in T], [e for _, e in T]
    md = {"lab": ["m%d" % i for i in range(len(T))], "w": list(range(len(T)))} if meta else None
    if how == 1:
        d = {"start": fv(ss), "end": fv(es)}
        if meta:
            d.update(md)
        return nap.IntervalSet(pd.DataFrame(d))
    if how == 2 and divisible(ss, "us") and divisible(es, "us"):
        return nap.IntervalSet(np.array(iv(ss, "us"), dtype=np.int64), np.array(iv(es, "us"), dtype=np.int64), time_units="us", metadata=md)
    if how == 3 and len(T):
        return nap.IntervalSet(np.stack([fv(ss, "ms"), fv(es, "ms")], axis=1), time_units="ms", metadata=md)
    return nap.IntervalSet(fv(ss), fv(es), metadata=md)


def scalar_forms(rng, ticks, units=True):
    """the same duration `ticks` as (value, unit, tag) in every scalar type that holds it exactly"""
    out = []
    for u in (("s", "ms", "us") if units else ("s",)):
        v = float(fv([ticks], u)[0])
        out.append((v, u, "float"))
        out.append((np.float64(v), u, "np.float64"))
        if float(np.float32(v)) == v:
            out.append((np.float32(v), u, "np.float32"))
        if ticks % UNIT[u] == 0:
            i = ticks // UNIT[u]
            out.append((int(i), u, "int"))
            out.append((np.int64(i), u, "np.int64"))
            if 0 <= i < 2**16:
                out.append((np.uint16(i), u, "np.uint16"))
    return out


def index_keys(rng, n):
    """(name, key, rows selected) over a set of n >= 1 intervals"""
    R = list(range(n))
    i = rng.randrange(n)
    perm = rng.sample(R, n)
    dup = [rng.randrange(n) for _ in range(n + 1)]
    m = [rng.random() < 0.5 for _ in R]
    msel = [j for j in R if m[j]]
    K = [("int", i, [i]), ("int_negative", i - n, [i]), ("np.int64", np.int64(i), [i]), ("np.uint8", np.uint8(i), [i]), ("np.int32_negative", np.int32(i - n), [i])]
    for nm, sl in (("all", slice(None)), ("from1", slice(1, None)), ("to-1", slice(None, -1)), ("step2", slice(None, None, 2)), ("reversed", slice(None, None, -1)),
                   ("beyond", slice(n, None)), ("np_bounds", slice(np.int64(0), np.int64(n))), ("last2", slice(-2, None)), ("odd_reversed", slice(None, None, -2))):
        K.append(("slice_" + nm, sl, R[sl]))
    K += [("list_permuted", perm, perm), ("list_duplicates", dup, dup), ("list_negative", [j - n for j in perm], perm),
          ("ndarray_int64", np.array(perm, dtype=np.int64), perm), ("ndarray_uint8", np.array(dup, dtype=np.uint8), dup), ("ndarray_int16_negative", np.array([j - n for j in dup], dtype=np.int16), dup),
          ("mask_ndarray", np.array(m), msel), ("mask_list", list(m), msel), ("mask_all_false", np.zeros(n, dtype=bool), []), ("mask_series", pd.Series(m), msel),
          ("series_int", pd.Series(perm), perm), ("series_int_own_index", pd.Series(dup, index=np.arange(len(dup))[::-1] + 3), dup), ("pd_index", pd.Index(perm), perm),
          ("str_columns", ["start", "end"], R), ("str_columns_reversed", ["end", "start"], R),
          ("ndarray_empty", np.array([], dtype=np.int64), []), ("series_empty", pd.Series([], dtype=np.int64), [])]
    # (a[[]], the empty Python list, returns a pandas DataFrame, not an IntervalSet: outside this property's statement, not generated)
    rows = [K[0], K[1], K[2], K[5 + rng.randrange(9)], K[14], K[15], K[17], K[20], K[23], K[24], K[25], K[26]]
    cols = [("colon", slice(None)), ("[0,1]", [0, 1]), ("0:2", slice(0, 2)), (":2", slice(None, 2)), ("array01", np.array([0, 1])), ("names", ["start", "end"])]
    for rn, rk, rsel in rows:
        for cn, ck in rng.sample(cols, 3):
            if rn == "mask_list" and cn != "names":
                continue        # a[[True, False], :] : numpy reads a Python list of bools inside a tuple as a mask too; kept to the plain form
            K.append(("tuple(%s,%s)" % (rn, cn), (rk, ck), rsel))
    return K


def widen_ops(res, nap, tier, seed):
    """axes 2-8 on the operations the quantifier names (set operations, split, merge_close_intervals, drop_short/long_intervals, indexing, time_span):
    receivers on four time lattices (1 us, 2 ms, 0.5 s, 2^-8 s), at 0 / straddling 0 / +-1e5 s, with and without metadata, built through different constructor forms"""
    quick = tier == "quick"
    rng = random.Random(seed * 7919 + 15)
    S = G.canonical_isets(list(range(8)), 3)
    pending = []          # (what, inp, result, pairs): the result is built from `pairs`, judged by check_output once the model has run

    def canon(what, inp, r, extra=None):
        if not isinstance(r, nap.IntervalSet):
            res.violations.append({"key": {"op": what, "part": "type"}, "what": "result is not an IntervalSet", "input": inp, "impl": repr(type(r))})
            return False
        v = np.asarray(r.values)
        if np.isnan(v).any() or not float_canonical(v):
            res.violations.append({"key": {"op": what, "part": "canonical"}, "what": "result of %s is not canonical" % what, "input": inp, "impl": v.tolist()})
            return False
        return True

    def same(what, inp, r, r0, form):
        """the same instants / the same operands in another argument form: the same set"""
        if out_ticks(r) != out_ticks(r0):
            res.disagreements.append({"op": what, "kind": "argument form changes the result", "form": form, "input": inp, "impl": out_ticks(r), "base_form_result": out_ticks(r0)})

    nrec = 56 if quick else 250
    for n in range(nrec):
        A = rng.choice(S) if n % 10 else []
        if n % 14 == 5:
            A = [(3 * i, 3 * i + rng.choice([1, 2])) for i in range(rng.choice([12, 40]))]      # many intervals
        step = W_STEPS[n % 4]
        big = 10**14 // step
        k = [0, -3, big, -big, -7][(n // 4) % 5]
        TA = _place(A, step, k)
        a0 = _mk(nap, TA)
        a = _mk(nap, TA, meta=n % 2 == 1, how=n % 4)
        inpA = {"A": TA, "step": step, "metadata": n % 2 == 1}
        res.count("wops_receiver_len=%s" % (len(A) if len(A) <= 3 else "many"))
        res.count("wops_step=%d" % step)
        res.count("wops_placement=%s" % ("0", "straddles0", "+1e5s", "-1e5s", "negative")[(n // 4) % 5])
        # ---- binary operations
        for j in range(3 if quick else 4):
            B = rng.choice(S) if j else []
            TB = _place(B, step, k)
            b0 = _mk(nap, TB)
            b = _mk(nap, TB, meta=j % 2 == 0, how=(n + j) % 4)
            Cc = _mk(nap, _place(rng.choice(S), step, k))
            for name in ("union", "intersect", "set_diff"):
                inp = dict(inpA, B=TB, op=name)
                r0 = _obtain(res, name, inp, lambda: getattr(a0, name)(b0))
                if r0 is None or not canon(name, inp, r0):
                    continue
                forms = {"keyword": lambda: getattr(a, name)(a=b), "metadata_self": lambda: getattr(a, name)(b0), "metadata_arg": lambda: getattr(a0, name)(b),
                         "arg_rebuilt_from_columns": lambda: getattr(a0, name)(nap.IntervalSet(b.start, b.end)), "arg_indexed": lambda: getattr(a, name)(b[:])}
                for fn, f in (forms.items() if not quick else rng.sample(sorted(forms.items()), 2)):
                    r = _obtain(res, name + "[" + fn + "]", inp, f)
                    res.evaluations += 1
                    res.count("wops=%s,%s" % (name, fn))
                    if r is not None and canon(name + "[" + fn + "]", inp, r):
                        same(name, inp, r, r0, fn)
                # three operands / the result fed to the next operation / the same live object twice
                extra = [("chain3", lambda: getattr(getattr(a, name)(b), rng.choice(["union", "intersect", "set_diff"]))(Cc)),
                         ("self_twice", lambda: getattr(a, name)(a)), ("result_with_operand", lambda: getattr(getattr(a, name)(b), name)(a))]
                for fn, f in (extra if not quick else [extra[(n + j) % 3]]):
                    r = _obtain(res, name + "[" + fn + "]", inp, f)
                    res.evaluations += 1
                    res.count("wops=%s,%s" % (name, fn))
                    if r is not None:
                        canon(name + "[" + fn + "]", inp, r)
                        if fn == "self_twice":
                            pending.append((name + "[self_twice]", inp, r, [] if name == "set_diff" else TA))
        if not A:
            for name, f in (("split", lambda: a.split(1)), ("merge_close_intervals", lambda: a.merge_close_intervals(1, "ms")), ("drop_short_intervals", lambda: a.drop_short_intervals(threshold=1)),
                            ("drop_long_intervals", lambda: a.drop_long_intervals(1, time_units="us")), ("slice", lambda: a[0:2]), ("mask", lambda: a[np.zeros(0, dtype=bool)])):
                r = _obtain(res, name + "[empty]", inpA, f)
                res.evaluations += 1
                res.count("wops=%s,empty_receiver" % name)
                if r is not None:
                    pending.append((name + "[empty]", inpA, r, []))
            continue
        # ---- operations with a duration argument: every scalar type and unit, positional and keyword
        for name, pname in (("split", "interval_size"), ("merge_close_intervals", "threshold"), ("drop_short_intervals", "threshold"), ("drop_long_intervals", "threshold")):
            thr = rng.choice([step, 2 * step, 3 * step, step // 2, step + step // 2])
            inp = dict(inpA, op=name, ticks=thr)
            v0 = float(fv([thr])[0])
            r0 = _obtain(res, name, inp, lambda: getattr(a0, name)(v0))
            if r0 is None or not canon(name, inp, r0):
                continue
            sf = scalar_forms(rng, thr)
            for v, u, tag in (sf if not quick else rng.sample(sf, min(6, len(sf)))):
                style = rng.randrange(3)
                if style == 0:
                    f = (lambda: getattr(a, name)(v, u)) if u != "s" or rng.random() < 0.5 else (lambda: getattr(a, name)(v))
                elif style == 1:
                    f = lambda: getattr(a, name)(**{pname: v, "time_units": u})
                else:
                    f = lambda: getattr(a, name)(v, time_units=u)
                fn = "%s,%s,%s" % (tag, u, ("positional", "keyword", "mixed")[style])
                inp_f = dict(inp, value=repr(v), time_units=u)
                r = _obtain(res, name + "[" + fn + "]", inp_f, f)
                res.evaluations += 1
                res.count("wops=%s,%s,%s" % (name, tag, u))
                res.count("wops_call_style=%s" % ("positional", "keyword", "mixed")[style])
                if r is not None and canon(name + "[" + fn + "]", inp_f, r):
                    same(name, inp_f, r, r0, fn)
            # the result fed into the next operation
            r = _obtain(res, name + "[then time_span / index / union]", inp, lambda: (r0.time_span().union(r0[::2]) if len(r0) else r0.union(a)))
            res.evaluations += 1
            if r is not None:
                canon(name + "[then]", inp, r)
        # ---- time_span: built from the single pair (first start, last end)
        r = _obtain(res, "time_span", inpA, lambda: a.time_span())
        res.evaluations += 1
        res.count("wops=time_span")
        if r is not None:
            pending.append(("time_span", inpA, r, [(TA[0][0], TA[-1][1])]))
        # ---- indexing: the result is built from the selected rows
        keys = index_keys(rng, len(TA))
        for kn, key, rows in (keys if not quick else keys[:5] + rng.sample(keys[5:], 22)):
            what = "index[%s]" % kn
            inp = dict(inpA, key=repr(key)[:120])
            r = _obtain(res, what, inp, lambda: a[key])
            res.evaluations += 1
            res.count("wops=index,%s" % (kn if not kn.startswith("tuple") else "tuple(rows,%s" % kn.split(",")[-1]))
            if r is not None and canon(what, inp, r):
                pending.append((what, inp, r, [TA[j] for j in rows]))
        perm = rng.sample(range(len(TA)), len(TA))
        r = _obtain(res, "index[loc_list]", inpA, lambda: a.loc[perm])
        res.evaluations += 1
        res.count("wops=index,loc_list")
        if r is not None and canon("index[loc_list]", inpA, r):
            pending.append(("index[loc_list]", dict(inpA, key=perm), r, [TA[j] for j in perm]))
    model = _model_isets([_mk_line(p[3]) for p in pending])
    for (what, inp, r, prs), mout in zip(pending, model):
        check_output(res, what, inp, r, mout, prs)


# --------------------------------------------------------------------------------------
# time supports: every IntervalSet carried by a series / group after a history of operations
def _sup(o):
    return out_ticks(o if hasattr(o, "as_units") and not hasattr(o, "time_support") else o.time_support)


class _Form:
    """how one history hands its arguments over.  base: float64 seconds in ndarrays, float64 data, positional scalars.  Otherwise a seeded choice per axis."""

    def __init__(self, rng, base, spec):
        self.rng, self.base = rng, base
        tk = spec["tk"]
        self.unit = "s"
        self.tform = "ndarray"
        self.ddt = np.float64
        self.cols = None
        if base:
            return
        self.ddt = spec["alt_dtype"]
        self.cols = rng.choice([None, ["b", "a"], [7, 3], ["10", "9"]])
        self.unit = rng.choice(["s", "ms", "us"])
        opts = ["ndarray", "list", "tuple", "pd_index", "strided", "tsindex", "t_attr", "pd_series"]
        if divisible(tk, self.unit):
            opts += ["int64", "int64", "pylist_int"] + (["uint64", "uint32"] if (not tk or (min(tk) >= 0 and max(tk) // UNIT[self.unit] < 2**32)) else [])
        if self.unit == "s" and all(float(np.float32(v)) == v for v in fv(tk)):
            opts += ["float32", "float32"]
        self.tform = rng.choice(opts)
        if self.tform in ("tsindex", "t_attr"):
            self.unit = "s"                         # a TsIndex / the .t of another object is in seconds

    def times(self, nap, tk):
        u, f = self.unit, self.tform
        x = fv(tk, u)
        if f in ("int64", "uint64", "uint32", "pylist_int") and not (divisible(tk, u) and (f in ("int64", "pylist_int") or not tk or (min(tk) >= 0 and max(tk) // UNIT[u] < 2**32))):
            f = "ndarray"                          # (these instants are not whole units: plain float64)
        if f == "float32" and not all(float(np.float32(v)) == v for v in x):
            f = "ndarray"
        if f == "list":
            return x.tolist()
        if f == "tuple":
            return tuple(x.tolist())
        if f in ("pd_index",):
            return pd.Index(x)
        if f == "pd_series":
            return pd.Series(x)
        if f == "strided":
            return np.repeat(x, 2)[::2]
        if f == "tsindex":
            return nap.Ts(t=x).index
        if f == "t_attr":
            return nap.Ts(t=x).t
        if f == "int64":
            return np.array(iv(tk, u), dtype=np.int64)
        if f == "uint64":
            return np.array(iv(tk, u), dtype=np.uint64)
        if f == "uint32":
            return np.array(iv(tk, u), dtype=np.uint32)
        if f == "pylist_int":
            return iv(tk, u)
        if f == "float32":
            return x.astype(np.float32)
        return x

    def data(self, vals, shape_tail=()):
        a = np.array([float("nan") if v is None else float(v) for v in vals], dtype=np.float64)
        a = a.reshape((len(vals),) + (1,) * len(shape_tail)) * np.ones((1,) + tuple(shape_tail)) if shape_tail else a
        if shape_tail and len(vals):
            a = a.copy()
            a[..., 1:] = np.where(np.isnan(a[..., 1:]), a[..., 1:], 1.0)[..., :]       # NaN rows found through ONE entry; +inf and -inf in the same row elsewhere
        return a.astype(self.ddt)

    def dur(self, ticks, units=True, kinds=("float", "np.float64", "int", "np.int64", "np.uint16")):
        """(value, unit-or-None) for a duration / instant argument.  (numpy.float32 durations are left out of the histories: find_support / get convert them in single
        precision, which moves them by 1e-8 relative - no concern of this property, but it would make coincidences with sample times arbitrary)"""
        if self.base:
            return float(fv([ticks])[0]), None
        v, u, _ = self.rng.choice([s for s in scalar_forms(self.rng, ticks, units) if s[2] in kinds])
        return v, u

    def ep(self, nap, T):
        if self.base:
            return _mk(nap, T)
        return _mk(nap, T, meta=self.rng.random() < 0.3, how=self.rng.randrange(4))


def _build_series(nap, F, cls, tk, vals, sup):
    t = F.times(nap, tk)
    u = F.unit
    ts = None if sup is None else F.ep(nap, sup)
    kw = (not F.base) and F.rng.random() < 0.5
    if cls == "Ts":
        if kw:
            return nap.Ts(t=t, time_units=u, time_support=ts)
        return nap.Ts(t, u, ts) if not F.base else nap.Ts(t, time_support=ts)
    if isinstance(t, pd.Series):
        t = t.values                               # (a pandas Series as `t` of a Tsd means index = time: given below for Tsd only)
    if cls == "Tsd":
        d = F.data(vals)
        if (not F.base) and F.tform == "pd_series":
            return nap.Tsd(pd.Series(d, index=fv(tk, u)), time_units=u, time_support=ts)
        return nap.Tsd(t=t, d=d, time_units=u, time_support=ts) if kw else nap.Tsd(t, d, u, ts)
    if cls == "TsdFrame":
        d = F.data(vals, (2,))
        return nap.TsdFrame(t=t, d=d, time_units=u, time_support=ts, columns=F.cols) if kw or F.cols is not None else nap.TsdFrame(t, d, u, ts)
    d = F.data(vals, (2, 2))
    return nap.TsdTensor(t=t, d=d, time_units=u, time_support=ts) if kw else nap.TsdTensor(t, d, u, ts)


def _run_history(nap, F, spec, tmpdir):
    """-> list of (label, support ticks | ('EXC', type)); the objects' supports are returned too for the canonicity oracle"""
    import os
    rec, objs = [], []
    rng = F.rng
    cur = ["build"]

    def note(label, o):
        rec.append((label, _sup(o)))
        objs.append((label, o if isinstance(o, nap.IntervalSet) else o.time_support))

    try:
        x = _build_series(nap, F, spec["cls"], spec["tk"], spec["vals"], spec["sup"])
        note("build", x)
        for op in spec["ops"]:
            k = op[0]
            cur[0] = k
            kw = (not F.base) and rng.random() < 0.5
            if k == "restrict":
                e = F.ep(nap, op[1])
                x = x.restrict(iset=e) if kw else x.restrict(e)
            elif k == "slice":
                x = x[op[1]:op[2]:op[3]]
            elif k == "mask":
                m = np.arange(len(x)) % op[1] != 0
                x = x[m]
            elif k == "get":
                (a, ua), (b, ub) = F.dur(op[1]), F.dur(op[2])
                if ua != ub:                      # one time_units for both bounds
                    a, b, ua = float(fv([op[1]], "ms")[0]), float(fv([op[2]], "ms")[0]), "ms"
                x = x.get(a, b) if ua is None else (x.get(start=a, end=b, time_units=ua) if kw else x.get(a, b, ua))
            elif k == "thr":
                while x.ndim > 1:                 # threshold is a Tsd method: one column / one entry of the frame / tensor
                    x = x[:, op[1] % x.shape[1]]
                v = op[1] / 2.0
                if not F.base:
                    v = rng.choice([v, np.float32(v)] + ([int(v), np.int64(v)] if v == int(v) else []))
                x = x.threshold(thr=v, method=op[2]) if kw else (x.threshold(v, op[2]) if op[2] != "above" or not F.base else x.threshold(v))
            elif k == "dropna":
                x = x.dropna(update_time_support=op[1]) if kw else (x.dropna(op[1]) if not op[1] or not F.base else x.dropna())
            elif k == "fs":
                v, u = F.dur(op[1])
                r = x.find_support(v) if u is None else (x.find_support(min_gap=v, time_units=u) if kw else x.find_support(v, u))
                note("find_support", r)
                if op[2]:
                    x = x.restrict(r)
            elif k == "same":
                x = [lambda: x * 1, lambda: np.maximum(x, x.values), lambda: x + 0, lambda: x.copy(), lambda: x[:]][op[1]]()
            elif k == "nanify":
                x = x / x.values                  # 0 / 0 -> NaN (the same live data used twice)
            elif k == "saveload":
                p = os.path.join(tmpdir, "h%d.npz" % (0 if F.base else 1))
                x.save(p)
                x = nap.load_file(p)
            elif k == "count":
                v, u = F.dur(op[1], kinds=("float", "np.float64", "int"))        # (count accepts float / int only: TypeError otherwise, C05's concern)
                e = None if op[2] is None else F.ep(nap, op[2])
                if u is None:
                    x = x.count(v, e)
                elif kw:
                    x = x.count(bin_size=v, ep=e, time_units=u)
                else:
                    x = x.count(v, e, u)
            elif k == "bin_average":
                v, u = F.dur(op[1])
                e = None if op[2] is None else F.ep(nap, op[2])
                x = x.bin_average(v, e) if u is None else (x.bin_average(bin_size=v, ep=e, time_units=u) if kw else x.bin_average(v, e, u))
            elif k == "value_from":
                src = nap.Ts(F.times(nap, op[1]), time_units=F.unit)
                e = None if op[2] is None else F.ep(nap, op[2])
                x = src.value_from(data=x, ep=e) if kw else src.value_from(x, e)
            elif k == "interp":
                src = nap.Ts(F.times(nap, op[1]), time_units=F.unit)
                e = None if op[2] is None else F.ep(nap, op[2])
                x = x.interpolate(ts=src, ep=e) if kw else x.interpolate(src, e)
            elif k == "concat":
                s = x.time_support
                if len(s) < 2:
                    continue
                i = 1 + op[1] % (len(s) - 1)
                x = np.concatenate((x.restrict(s[:i]), x.restrict(s[i:])))
            elif k == "col":
                x = x[:, op[1] % x.shape[1]] if x.ndim > 1 and x.shape[1] else x
            elif k == "group":
                keys = op[1]
                members = {keys[0]: x, keys[1]: x[::2], keys[2]: nap.Ts(t=x.t[:1], time_support=x.time_support)}
                g = nap.TsGroup(members) if op[2] == 0 else (nap.TsGroup(members, time_support=x.time_support, bypass_check=op[2] == 2))
                note("group", g)
                for kk in g.keys():
                    note("group_member", g[kk])
                continue
            note(k, x)
    except Exception as ex:
        rec.append(("EXC", type(ex).__name__ + ": " + str(ex)[:80], cur[0]))
    return rec, objs


_HIST_SETS = G.canonical_isets(list(range(12)), 3)


def _rand_history(rng, quick):
    step = rng.choice(W_STEPS)
    big = 10**14 // step
    k = rng.choice([0, 0, -4, big, -big, -20])
    N = 12
    pts = sorted(rng.choice(range(N)) for _ in range(rng.choice([0, 1, 2, 3, 5, 8, 8])))
    if rng.random() < 0.5:
        pts = sorted(set(pts))
    if pts and rng.random() < 0.1:
        pts = [pts[0]] * len(pts)                                # all timestamps equal
    lat = lambda p: (p + k) * step
    tk = [lat(p) for p in pts]
    S = _HIST_SETS
    iset = lambda: [(lat(a), lat(b)) for a, b in rng.choice(S)]
    cls = rng.choice(["Tsd", "Tsd", "Tsd", "TsdFrame", "TsdTensor", "Ts"])
    nonfinite = cls != "Ts" and rng.random() < 0.4
    pool = [0, 1, 2, 3] + ([None, None, float("inf"), float("-inf")] if nonfinite else [])
    vals = [rng.choice(pool) for _ in pts]
    if pts and rng.random() < 0.1:
        vals = [rng.choice(pool)] * len(pts)                     # all-equal data / zeros / all NaN
    if nonfinite:
        alt = rng.choice([np.float64, np.float32])
    else:
        alt = rng.choice([np.float64, np.float32, np.int64, np.int16, np.uint8, np.bool_])      # (each dtype costs one numba specialisation per kernel)
        if alt is np.bool_:
            vals = [v % 2 for v in vals]
    sup = None if rng.random() < 0.35 else iset()
    if sup is None and len(set(tk)) == 1 and rng.random() < 0.7:
        sup = [(tk[0] - step, tk[0] + step)]                     # (coinciding timestamps get an EMPTY default support: tested on purpose 30% of the time)
    ops = []
    for _ in range(rng.randint(1, 4)):
        c = rng.choice(["restrict", "slice", "mask", "get", "thr", "thr", "dropna", "dropna", "fs", "fs", "same", "nanify", "saveload", "count", "bin_average",
                        "value_from", "interp", "concat", "col", "group"])
        if c == "restrict":
            ops.append((c, iset()))
        elif c == "slice":
            ops.append((c, rng.choice([None, 0, 1, -3]), rng.choice([None, -1, 4]), rng.choice([None, 2])))
        elif c == "mask":
            ops.append((c, rng.choice([2, 3])))
        elif c == "get":
            a, b = sorted([rng.randrange(-1, N + 1), rng.randrange(-1, N + 1)])
            ops.append((c, lat(a), lat(b)))
        elif c == "thr" and cls != "Ts":
            ops.append(("col", rng.randrange(2)))
            ops.append((c, rng.choice([1, 2, 3, 4, -1, 0]), rng.choice(["above", "below", "aboveequal", "belowequal"])))
        elif c == "dropna" and cls != "Ts":
            ops.append((c, rng.random() < 0.7))
        elif c == "fs":
            ops.append((c, rng.choice([step // 2, step + step // 2, 2 * step + step // 2]), rng.random() < 0.5))      # (never equal to a gap between samples: see float_ambiguous)
        elif c == "same" and cls != "Ts":
            ops.append((c, rng.randrange(5)))
        elif c == "nanify" and cls != "Ts":
            ops.append((c,))
            ops.append(("dropna", True))
        elif c == "saveload":
            ops.append((c,))
        elif c == "count":
            ops.append((c, rng.choice([step, 2 * step, 4 * step]), rng.choice([None, iset()])))
        elif c == "bin_average" and cls != "Ts":
            ops.append((c, rng.choice([2 * step, 4 * step]), rng.choice([None, iset()])))
        elif c in ("value_from", "interp") and cls != "Ts":
            ops.append((c, sorted(lat(rng.randrange(N)) for _ in range(rng.randint(0, 5))), rng.choice([None, iset()])))
        elif c == "concat" and cls != "Ts":
            ops.append((c, rng.randrange(3)))
        elif c == "group" and cls in ("Ts", "Tsd"):
            ops.append((c, rng.choice([[0, 1, 2], [7, 3, 5], ["4", "10", "2"], [2.0, 0.0, 1.0]]), rng.randrange(3)))
            break
    return {"cls": cls, "tk": tk, "vals": vals, "sup": sup, "ops": ops, "alt_dtype": alt, "step": step}


def widen_supports(res, nap, tier, seed):
    """axes 1-8 on the IntervalSets CARRIED AS TIME SUPPORTS and returned by threshold / dropna / find_support: seeded histories run twice, once in the base argument
    form and once in a seeded other form of the same instants and values; every support met on the way must be canonical (statement) and the two runs must agree"""
    import os
    import tempfile
    quick = tier == "quick"
    rng = random.Random(seed * 7919 + 16)
    tmp = tempfile.mkdtemp(prefix="c01h")
    pending = []
    for n in range(800 if quick else 4000):
        spec = _rand_history(rng, quick)
        fseed = rng.randrange(10**9)
        inp = {k: (v if k != "alt_dtype" else np.dtype(v).name) for k, v in spec.items()}
        inp["vals"] = [None if v is None else v for v in spec["vals"]]
        rb, ob = _run_history(nap, _Form(random.Random(fseed), True, spec), spec, tmp)
        Fa = _Form(random.Random(fseed), False, spec)
        ra, oa = _run_history(nap, Fa, spec, tmp)
        inp["form"] = {"t": Fa.tform, "time_units": Fa.unit, "dtype": np.dtype(Fa.ddt).name, "columns": Fa.cols, "form_seed": fseed}
        res.case(("h", n, fseed), nontrivial=len(spec["tk"]) >= 2)
        res.evaluations += len(ra)
        res.count("wsup_class=%s" % spec["cls"])
        res.count("wsup_t_form=%s" % Fa.tform)
        res.count("wsup_units=%s" % Fa.unit)
        res.count("wsup_dtype=%s" % np.dtype(Fa.ddt).name)
        res.count("wsup_n_samples=%s" % min(len(spec["tk"]), 3))
        if spec["sup"] is None:
            res.count("wsup_default_support")
        if any(v is None for v in spec["vals"]):
            res.count("wsup_data_nan")
        if any(v in (float("inf"), float("-inf")) for v in spec["vals"] if v is not None):
            res.count("wsup_data_inf")
        if spec["tk"] and spec["tk"][0] < 0:
            res.count("wsup_negative_times")
        if spec["tk"] and abs(spec["tk"][0]) >= 10**13:
            res.count("wsup_offset_1e5s")
        for op in spec["ops"]:
            res.count("wsup_op=%s" % op[0])
        for run_name, objs in (("base", ob), ("form", oa)):
            for label, ep in objs:
                v = np.asarray(ep.values)
                if np.isnan(v).any() or not float_canonical(v):
                    res.violations.append({"key": {"op": "support_after[%s]" % label, "part": "canonical"}, "what": "a time support / returned IntervalSet is not canonical (%s run)" % run_name,
                                           "input": inp, "impl": v.tolist()})
        if rb and rb[-1][0] == "EXC":
            res.count("wsup_history_stopped_by_clean_exception")
        if [r for r in ra if r[0] != "EXC"] != [r for r in rb if r[0] != "EXC"][:len([r for r in ra if r[0] != "EXC"])] or \
                (ra and ra[-1][0] == "EXC") != (rb and rb[-1][0] == "EXC") or len(ra) != len(rb):
            if ra and ra[-1][0] == "EXC" and not (rb and rb[-1][0] == "EXC"):
                res.violations.append({"key": {"op": "history[%s]" % ra[-1][2], "part": "exception", "type": ra[-1][1].split(":")[0]},
                                       "what": "an accepted argument form raises where the base form returns: %s" % ra[-1][1], "input": inp})
            else:
                res.disagreements.append({"op": "history", "kind": "argument form changes a time support", "input": inp, "impl": ra, "base_form_result": rb})
        # the default support of a series is built from the single pair (first, last timestamp)
        if spec["sup"] is None and oa:
            tk = spec["tk"]
            pending.append(("default_support[%s,%s,%s]" % (spec["cls"], Fa.tform, Fa.unit), inp, oa[0][1], [(tk[0], tk[-1])] if tk else []))
    model = _model_isets([_mk_line(p[3]) for p in pending])
    for (what, inp, ep, prs), mout in zip(pending, model):
        check_output(res, what, inp, ep, mout, prs)
    for f in os.listdir(tmp):
        os.remove(os.path.join(tmp, f))
    os.rmdir(tmp)


def _group_history(nap, rng, base, spec, tmpdir):
    """one TsGroup history -> (records, supports met)"""
    import os
    rec, objs = [], []
    cur = ["build"]

    def note(label, o):
        e = o if isinstance(o, nap.IntervalSet) else o.time_support
        rec.append((label, out_ticks(e)))
        objs.append((label, e))

    def ep(T):
        return _mk(nap, T) if base else _mk(nap, T, meta=rng.random() < 0.3, how=rng.randrange(4))

    def num(ticks, kinds=("float", "np.float64", "int", "np.int64")):
        if base:
            return float(fv([ticks])[0]), None
        v, u, _ = rng.choice([s for s in scalar_forms(rng, ticks) if s[2] in kinds])
        return v, u

    try:
        raw = spec["raw"]                        # members handed over as bare arrays (the group builds the Ts itself, with ITS time_units)
        u = "s" if base else (rng.choice(["s", "ms", "us"]) if raw else "s")
        sup = None if spec["sup"] is None else ep(spec["sup"])
        members = []
        for tk, msup in spec["members"]:
            if raw:
                x = fv(tk, u)
                if not base:
                    c = rng.randrange(4)
                    x = x.tolist() if c == 0 else (np.array(iv(tk, u), dtype=np.int64) if c == 1 and divisible(tk, u) else x)
                members.append(x)
            else:
                F = _Form(rng, base, {"tk": tk, "alt_dtype": np.float64})
                members.append(_build_series(nap, F, spec["cls"], tk, [1] * len(tk), msup))
        keys = spec["keys"] if not base else [int(float(k)) for k in spec["keys"]]
        if spec["as_list"] and not base:
            data = members                       # keys 0..n-1 by position (spec["keys"] is 0..n-1 in this case)
        else:
            data = dict(zip(keys, members))
        bypass = spec["bypass"] and not base
        if bypass and sup is not None and not raw:
            data = {k: m.restrict(sup) for k, m in data.items()} if isinstance(data, dict) else [m.restrict(sup) for m in data]      # bypass_check=True promises members already restricted
        elif bypass:
            bypass = False
        if base:
            g = nap.TsGroup(data, time_support=sup, time_units=u)
        elif rng.random() < 0.5:
            g = nap.TsGroup(data, sup, u, bypass)
        else:
            g = nap.TsGroup(data=data, time_units=u, bypass_check=bypass, time_support=sup, metadata={"lab": ["g%d" % i for i in range(len(members))]} if rng.random() < 0.5 else None)
        note("group", g)
        for k in sorted(g.keys()):
            note("member", g[k])
        for op in spec["ops"]:
            cur[0] = op[0]
            kw = (not base) and rng.random() < 0.5
            if op[0] == "restrict":
                e = ep(op[1])
                g = g.restrict(ep=e) if kw else g.restrict(e)
            elif op[0] == "subset":
                ks = [k for i, k in enumerate(sorted(g.keys())) if i % 2 == op[1]]
                if not ks:
                    continue
                g = g[ks] if base else rng.choice([lambda: g[ks[::-1]], lambda: g[np.array(ks)], lambda: g[np.isin(np.array(sorted(g.keys())), ks)], lambda: g[ks]])()
            elif op[0] == "get":
                (a, ua), (b, ub) = num(op[1]), num(op[2])
                if ua != ub:
                    a, b, ua = float(fv([op[1]], "us")[0]), float(fv([op[2]], "us")[0]), "us"
                g = g.get(a, b) if ua is None else (g.get(start=a, end=b, time_units=ua) if kw else g.get(a, b, ua))
            elif op[0] == "merge":
                other = nap.TsGroup({100: nap.Ts(t=fv(op[1]), time_support=_mk(nap, op[2]))})
                if op[3] == 0:
                    g = g.merge(other, reset_time_support=True, ignore_metadata=True)
                elif op[3] == 1:
                    g = nap.TsGroup.merge_group(g, other, g, reset_index=True, reset_time_support=True, ignore_metadata=True)       # three operands, one of them twice
                else:
                    g = g.merge(g, reset_index=True, ignore_metadata=not base and rng.random() < 0.5)                                    # the same live group twice, support kept
            elif op[0] == "count":
                v, uu = num(op[1], kinds=("float", "np.float64", "int"))
                e = None if op[2] is None else ep(op[2])
                c = g.count(v, e) if uu is None else (g.count(bin_size=v, ep=e, time_units=uu) if kw else g.count(v, e, uu))
                note("count", c)
                continue
            elif op[0] == "to_tsd":
                note("to_tsd", g.to_tsd())
                continue
            elif op[0] == "saveload":
                p = os.path.join(tmpdir, "g%d.npz" % (0 if base else 1))
                g.save(p)
                g = nap.load_file(p)
            note(op[0], g)
            for k in sorted(g.keys()):
                note("member", g[k])
    except Exception as ex:
        rec.append(("EXC", type(ex).__name__ + ": " + str(ex)[:80], cur[0]))
    return rec, objs


def widen_groups(res, nap, tier, seed):
    """axes 2-4 and 6-8 on the time support of a TsGroup: members given as Ts / Tsd or bare arrays / lists (with time_units s/ms/us), in a dict (keys not 0..n-1, unsorted,
    multi-digit strings, floats) or a list, empty members, an empty group, support passed or not, bypass_check; then restrict / subset / get / merge (three operands,
    the same group twice, option flags combined) / count / to_tsd / save+load.  Every support met must be canonical; a group built without time_support must cover
    exactly the union of its members' supports; the base-form run must give the same supports"""
    import os
    import tempfile
    quick = tier == "quick"
    rng = random.Random(seed * 7919 + 17)
    tmp = tempfile.mkdtemp(prefix="c01g")
    S = _HIST_SETS
    N = 12
    pending = []
    for n in range(240 if quick else 2000):
        step = rng.choice(W_STEPS)
        big = 10**14 // step
        k = rng.choice([0, 0, -4, big, -big])
        lat = lambda p: (p + k) * step
        iset = lambda: [(lat(a), lat(b)) for a, b in rng.choice(S)]
        raw = rng.random() < 0.3
        nm = rng.choice([0, 1, 2, 3, 3, 4])
        members = []
        for _ in range(nm):
            pts = sorted(set(rng.randrange(N) for _ in range(rng.choice([0, 1, 2, 4, 6]))))
            members.append(([lat(p) for p in pts], None if raw or rng.random() < 0.5 else iset()))
        as_list = rng.random() < 0.25
        keysets = [list(range(nm)), [7, 3, 12, 5][:nm], ["4", "10", "2", "33"][:nm], [2.0, 0.0, 11.0, 1.0][:nm], [np.int64(9), np.int64(1), np.int64(4), np.int64(2)][:nm]]
        spec = {"raw": raw, "cls": rng.choice(["Ts", "Tsd"]), "members": members, "as_list": as_list, "keys": list(range(nm)) if as_list else rng.choice(keysets),
                "sup": None if rng.random() < 0.5 else iset(), "bypass": rng.random() < 0.4, "ops": [], "step": step}
        for _ in range(rng.randint(0, 3)):
            c = rng.choice(["restrict", "subset", "get", "merge", "count", "to_tsd", "saveload"])
            if c == "restrict":
                spec["ops"].append((c, iset()))
            elif c == "subset":
                spec["ops"].append((c, rng.randrange(2)))
            elif c == "get":
                a, b = sorted([rng.randrange(-1, N + 1), rng.randrange(-1, N + 1)])
                spec["ops"].append((c, lat(a), lat(b)))
            elif c == "merge":
                spec["ops"].append((c, sorted(lat(rng.randrange(N)) for _ in range(3)), iset(), rng.randrange(3)))
            elif c == "count":
                spec["ops"].append((c, rng.choice([step, 2 * step]), rng.choice([None, iset()])))
            else:
                spec["ops"].append((c,))
        fseed = rng.randrange(10**9)
        rb, ob = _group_history(nap, random.Random(fseed), True, spec, tmp)
        ra, oa = _group_history(nap, random.Random(fseed), False, spec, tmp)
        inp = {k_: (v if k_ != "keys" else [repr(x) for x in v]) for k_, v in spec.items()}
        inp["form_seed"] = fseed
        res.case(("g", n, fseed), nontrivial=nm >= 2)
        res.evaluations += len(ra)
        res.count("wgroup_members=%d" % nm)
        res.count("wgroup_keys=%s" % ("list" if as_list else type(spec["keys"][0]).__name__ + ("" if spec["keys"] == list(range(nm)) else ",not_0..n-1") if nm else "none"))
        res.count("wgroup_members_as=%s" % ("bare_arrays" if raw else spec["cls"]))
        if any(not m[0] for m in members):
            res.count("wgroup_has_empty_member")
        if spec["sup"] is None:
            res.count("wgroup_no_time_support_passed")
        elif spec["bypass"]:
            res.count("wgroup_bypass_check")
        for op in spec["ops"]:
            res.count("wgroup_op=%s" % op[0])
        for run_name, objs in (("base", ob), ("form", oa)):
            for label, e in objs:
                v = np.asarray(e.values)
                if np.isnan(v).any() or not float_canonical(v):
                    res.violations.append({"key": {"op": "group_support_after[%s]" % label, "part": "canonical"}, "what": "a time support carried by a group / its member is not canonical (%s run)" % run_name,
                                           "input": inp, "impl": v.tolist()})
        if rb and rb[-1][0] == "EXC":
            res.count("wgroup_history_stopped_by_clean_exception")
        strip = lambda r: [x for x in r if x[0] != "EXC"]
        if ra and ra[-1][0] == "EXC" and not (rb and rb[-1][0] == "EXC"):
            res.violations.append({"key": {"op": "group_history[%s]" % ra[-1][2], "part": "exception", "type": ra[-1][1].split(":")[0]},
                                   "what": "an accepted argument form raises where the base form returns: %s" % ra[-1][1], "input": inp})
        elif strip(ra) != strip(rb) or len(ra) != len(rb):
            res.disagreements.append({"op": "group_history", "kind": "argument form changes a time support", "input": inp, "impl": ra, "base_form_result": rb})
        # built without time_support: the group's support is the union of the members' supports
        if spec["sup"] is None and oa and oa[0][0] == "group":
            msup = []
            for tk, ms in members:                     # (a series without timestamps carries an EMPTY support whatever support it was given)
                msup += [] if not len(tk) else (ms if ms is not None else [(tk[0], tk[-1])])
            pending.append(("TsGroup.time_support[union of members]", inp, oa[0][1], msup))
    for what, inp, e, prs in pending:
        check_output(res, what, inp, e, None, prs)
    for f in os.listdir(tmp):
        os.remove(os.path.join(tmp, f))
    os.rmdir(tmp)


def widen_options(res, nap, tier, seed):
    """axis 3, strings: option strings in another letter case / unknown (time_units, threshold method): the documented values are lower case, so the call must either
    raise a clean Python exception or return canonical sets - never reach a kernel unvalidated and hand back garbage"""
    a = nap.IntervalSet([0.0, 2.0, 5.0], [1.0, 4.0, 9.0])
    x = nap.Tsd(t=np.arange(10.0), d=np.array([0, 3, 3, 0, 0, 3, 0, 3, 3, 0.0]), time_support=nap.IntervalSet([0.0, 5.0], [4.0, 9.0]))
    calls = []
    for u in ("S", "MS", "Ms", "US", "sec", "", None, 1):
        calls += [("IntervalSet(time_units=%r)" % (u,), lambda u=u: nap.IntervalSet([0.0, 1.0], [0.5, 2.0], time_units=u)),
                  ("split(time_units=%r)" % (u,), lambda u=u: a.split(1.0, u)), ("merge_close_intervals(time_units=%r)" % (u,), lambda u=u: a.merge_close_intervals(1.0, u)),
                  ("drop_short_intervals(time_units=%r)" % (u,), lambda u=u: a.drop_short_intervals(1.0, u)), ("drop_long_intervals(time_units=%r)" % (u,), lambda u=u: a.drop_long_intervals(1.0, time_units=u)),
                  ("find_support(time_units=%r)" % (u,), lambda u=u: x.find_support(1.0, u)), ("Ts(time_units=%r)" % (u,), lambda u=u: nap.Ts(np.arange(3.0), time_units=u)),
                  ("TsGroup(time_units=%r)" % (u,), lambda u=u: nap.TsGroup({0: np.arange(3.0)}, time_units=u))]
    for m in ("Above", "BELOW", "AboveEqual", "belowEqual", "above ", "", None, "greater"):
        calls += [("threshold(method=%r)" % (m,), lambda m=m: x.threshold(1.0, m)), ("threshold(method=%r,kw)" % (m,), lambda m=m: x.threshold(thr=1, method=m))]
    for what, f in calls:
        r = _obtain(res, what, {"call": what}, f, strict=False)
        res.evaluations += 1
        res.count("woptions=%s" % what.split("(")[0])
        if r is None:
            continue
        e = r if isinstance(r, nap.IntervalSet) else r.time_support
        v = np.asarray(e.values)
        if np.isnan(v).any() or not float_canonical(v):
            res.violations.append({"key": {"op": what, "part": "canonical"}, "what": "an option string outside the documented values is accepted and the result is not canonical", "input": {"call": what}, "impl": v.tolist()})


def search(res, seed):
    r2 = C.Result()
    run(r2, "thorough", seed)
    return r2.violations[0] if r2.violations else None


def replay(payload):
    nap = _nap()
    warnings.simplefilter("ignore")
    v = payload.get("violation") or (payload.get("disagreements") or [{}])[0]
    inp = v.get("input", {})
    what = v.get("key", {}).get("op", v.get("op", ""))
    if "start" in inp and isinstance(inp.get("form"), str):
        # a widened constructor form: rebuild the same call
        print("violation / disagreement recorded:", json.dumps({k: v[k] for k in v if k != "input"}, default=str)[:600])
        print("input:", json.dumps(inp, default=str)[:600])
        ss, es = inp["start"], inp["end"]
        forms = {f[0]: f for f in ctor_forms(nap)}
        r = C.Result()
        if inp["form"] in forms and all(isinstance(x, int) for x in ss + es):
            ep = _obtain(r, what, inp, lambda: forms[inp["form"]][2](ss, es), forms[inp["form"]][3])
            if ep is not None:
                print("implementation:", ep.values.tolist())
                check_output(r, what, inp, ep, None, list(zip(ss, es)))
        elif inp["form"].startswith("dataframe with index"):
            d = {"start": fv(ss), "end": fv(es)}
            if "metadata column" in inp["form"]:
                d["lab"] = ["m%d" % i for i in range(len(ss))]
            ep = _obtain(r, what, inp, lambda: nap.IntervalSet(pd.DataFrame(d, index=np.arange(len(ss)) * 2 + 3)), True, {k: x for k, x in v.get("key", {}).items() if k.startswith(("dataframe", "rows"))})
            if ep is not None:
                print("implementation:", ep.values.tolist())
                check_output(r, what, inp, ep, None, list(zip(ss, es)))
        else:
            print("(this argument form is rebuilt by the generators only: re-run ./check C01 with the same VERIF_SEED)")
            return 1
        print("violations:", r.violations)
        return 1 if r.violations else 0
    if "start" in inp and "form" not in inp and all(isinstance(x, int) for x in inp["start"] + inp["end"]):
        ep = nap.IntervalSet(G.arr(inp["start"]), G.arr(inp["end"]))
        print("input start=%s end=%s (ticks)" % (inp["start"], inp["end"]))
        print("implementation:", ep.values.tolist())
        r = C.Result()
        check_output(r, "IntervalSet(start,end)", inp, ep, None, list(zip(inp["start"], inp["end"])))
        print("violations:", r.violations)
        return 1 if r.violations else 0
    print("violation / disagreement recorded:", json.dumps({k: v[k] for k in v if k != "input"}, default=str)[:800])
    print("replay of operation results / histories: input", json.dumps(inp, default=str)[:1500])
    print("(histories are rebuilt by the seeded generators: re-run ./check C01 with the same VERIF_SEED)")
    return 1

# --- Glue layer (DESIGN.md 10.11): the Python between the API and the kernels, tied by proof in Properties/C01c.v; this is the
# executable tie of its trusted parts (translator tools/py2glue.py + primitive semantics Glue/Interp.v): the TRANSLATED term run by the
# extracted evaluator (ocaml/gluedriver) against the REAL routine of pynapple on the same inputs (harness/gluecmp.py).
import gluecmp  # noqa: E402

DRIVERS = list(globals().get("DRIVERS", ["driver"])) + ["gluedriver"]
GLUE_ROUTINES = ['IntervalSet.__init__']
_run_without_glue = run


def run(res, tier, seed):
    _run_without_glue(res, tier, seed)
    gluecmp.check(res, GLUE_ROUTINES, tier, seed)
    res.rule += (" | glue: for each of %s the translated Glue.Lang term (coq/Gen/Glue.v) is evaluated by the extracted Glue/Interp.v and compared with the "
                 "real pynapple routine on canonical sets of a dyadic lattice (incl. negative times, empty, touching, duplicates, unsorted/improper "
                 "constructor input, thresholds equal to a length or gap); exceptions must match the model's error kind" % ", ".join(GLUE_ROUTINES))
