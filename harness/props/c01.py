"""C01 every IntervalSet is canonical and covers the union of its inputs."""
import itertools
import random
import warnings

import numpy as np
import pandas as pd

import common as C
import gen as G

LEVEL = "proof"
TRUSTED = ["model: coq/Model/Iset.v (sortZ, fix_go, mk_iset); theorems: FixIsetProofs.v, FixIsetCover.v, SortInvariance.v, C01Top.v"]
ASSUMPTIONS = ["np.sort modelled by a verified merge sort on ticks; format_timestamps as rounding to ticks (bit-level model is C09's)",
               "an interval whose float end exceeds its float start by less than 0.5 ns after the 1e-6 trim is float_ambiguous"]


def _nap():
    import pynapple as nap
    return nap


def out_ticks(ep):
    return [(C.to_ns(s), C.to_ns(e)) for s, e in ep.values]


def float_canonical(v):
    return all(v[i, 0] < v[i, 1] for i in range(len(v))) and all(v[i, 1] < v[i + 1, 0] for i in range(len(v) - 1))


def check_output(res, what, inp, ep, model_out, pairs):
    """property oracle on the implementation's output + comparison with the model"""
    v = np.asarray(ep.values)
    impl = out_ticks(ep)
    # float-level canonicity is the property itself
    if not float_canonical(v):
        res.violations.append({"key": {"op": what, "part": "canonical"}, "what": "IntervalSet is not canonical",
                               "input": inp, "impl": v.tolist()})
        return
    amb = [iv for iv in impl if iv[0] >= iv[1]]
    impl_c = [iv for iv in impl if iv[0] < iv[1]]
    if amb:
        res.float_ambiguous += 1
    if model_out is not None and impl_c != model_out:
        res.disagreements.append({"op": what, "input": inp, "impl": impl, "model": model_out})
    if pairs is not None and all(s <= e for s, e in pairs):
        pts = set()
        for s, e in pairs:
            for d in (0, 1, -1, 500, -500, 999, -999, 1000, -1000, 1001, -1001):
                pts.add(s + d)
                pts.add(e + d)
        starts = [s for s, _ in pairs]
        # the statement's exact expectation: zero-length inputs vanish; inputs whose interiors overlap are merged; two merged
        # components sharing only the point p are kept apart by trimming 1 us from the earlier one
        comps, touch = [], []
        for s_, e_ in sorted((s, e) for s, e in pairs if s < e):
            if comps and s_ < comps[-1][1]:
                comps[-1][1] = max(comps[-1][1], e_)
            else:
                if comps and s_ == comps[-1][1]:
                    touch.append(s_)
                comps.append([s_, e_])
        zeros = [s for s, e in pairs if s == e]
        for x in pts:
            inu = G.mem(x, pairs)
            ino = G.mem(x, impl_c)
            if ino and not inu:
                res.violations.append({"key": {"op": what, "part": "cover_sound"}, "what": "result covers a point outside the union of the inputs",
                                       "input": inp, "impl": impl, "x": x})
                return
            if inu and not ino:
                if not any(a <= x <= b for a, b in comps) or any(p - 1000 <= x < p for p in touch):
                    continue          # a vanished zero-length input, or the trimmed microsecond of a touching neighbour
                if any(z - 1000 <= x <= z for z in zeros):
                    res.violations.append({"key": {"op": what, "part": "cover_complete", "zero_length_input_meets_another_input": True},
                                           "what": "a zero-length input lying inside (or on the end of) another input does not vanish: it cuts 1 us out of the union",
                                           "input": inp, "impl": impl, "x": x})
                    return
                res.violations.append({"key": {"op": what, "part": "cover_complete"},
                                       "what": "a point of the union that is not in the trimmed microsecond of a touching neighbour is not covered",
                                       "input": inp, "impl": impl, "x": x})
                return


def pair_multisets(P, m_max):
    prs = [(a, b) for a in P for b in P]
    for m in range(0, m_max + 1):
        for c in itertools.combinations_with_replacement(prs, m):
            yield list(c)


def run(res, tier, seed):
    nap = _nap()
    warnings.simplefilter("ignore")
    P = [0, 1, 1000, 1001, 2000, 3000] if tier == "quick" else [0, 1, 999, 1000, 1001, 2000, 2001, 3000]
    mmax = 3
    res.rule = ("constructor: ALL multisets of <=3 (start,end) pairs over the tick set %s x itself (inverted, zero-length, nested, overlapping, touching, sub-us "
                "pairs all included; given in shuffled order) through nap.IntervalSet(start, end) [complete]; + seeded random larger inputs; + every input form "
                "(array of pairs, DataFrame, scalars, ms/us) on a subsample. Oracle on the implementation output: float-level canonicity, cover sound/complete at "
                "endpoint-adjacent probe points. non-trivial = at least 2 pairs; distinct = distinct input multiset" % P)
    res.exhaustive = True
    rng = random.Random(seed * 104729 + 1)
    cases = []
    for prs in pair_multisets(P, mmax):
        prs = list(prs)
        rng.shuffle(prs)
        cases.append(prs)
    gaps = [0, 1, 999, 1000, 1001, 5000, 10**6]
    for _ in range(400 if tier == "quick" else 20000):
        m = rng.randint(1, 9)
        prs = []
        pool = [0]
        for _ in range(m):
            s = rng.choice(pool) + rng.choice(gaps)
            e = s + rng.choice(gaps) if rng.random() < 0.9 else s - rng.choice(gaps)
            if rng.random() < 0.4:
                e = rng.choice(pool)
            pool += [s, e]
            prs.append((s, e))
        rng.shuffle(prs)
        cases.append(prs)
    offs = [0, -1500, -10**7]
    cases = [[(s + offs[n % 3], e + offs[n % 3]) for s, e in prs] for n, prs in enumerate(cases)]
    lines = ["mk_iset\t%s\t%s" % (C.fmt_ints([s for s, _ in p]), C.fmt_ints([e for _, e in p])) for p in cases]
    model = C.run_model(lines)
    for n, (prs, mo) in enumerate(zip(cases, model)):
        ss = [s for s, _ in prs]
        es = [e for _, e in prs]
        mv = [int(x) for x in mo.split()]
        mout = list(zip(mv[0::2], mv[1::2]))
        inp = {"start": ss, "end": es}
        ep = nap.IntervalSet(G.arr(ss), G.arr(es))
        res.case((tuple(ss), tuple(es)), nontrivial=len(prs) >= 2)
        res.count("n_pairs=%d" % min(len(prs), 5))
        if any(s > e for s, e in prs):
            res.count("has_inverted")
        if any(s == e for s, e in prs):
            res.count("has_zero_length")
        if len(set(ss) & set(es)):
            res.count("has_touch")
        check_output(res, "IntervalSet(start,end)", inp, ep, mout, prs)
        if n % 2500 == 0:
            res.sample({"start": ss, "end": es, "result": out_ticks(ep)})
        # other input forms on a subsample
        if n % 23 == 0 and prs:
            forms = {}
            forms["pairs"] = lambda: nap.IntervalSet(np.stack([G.arr(ss), G.arr(es)], axis=1))
            forms["dataframe"] = lambda: nap.IntervalSet(pd.DataFrame({"start": G.arr(ss), "end": G.arr(es)}))
            forms["ms"] = lambda: nap.IntervalSet(np.array(ss) / 1e6, np.array(es) / 1e6, time_units="ms")
            forms["us"] = lambda: nap.IntervalSet(np.array(ss) / 1e3, np.array(es) / 1e3, time_units="us")
            forms["copy"] = lambda: nap.IntervalSet(ep)
            if len(prs) == 1:
                forms["scalars"] = lambda: nap.IntervalSet(ss[0] / 1e9, es[0] / 1e9)
            for fname, f in forms.items():
                e2 = f()
                res.evaluations += 1
                res.count("form=" + fname)
                if fname == "dataframe":
                    # the DataFrame form sorts rows by start first (pairs kept), then the arrays independently: same multisets
                    pass
                check_output(res, "IntervalSet[%s]" % fname, inp, e2, mout, prs)
    # integer and single-precision dtypes (whole seconds) in the three array forms: the order type of the case is kept (endpoints replaced by their ranks), the model
    # is asked about the rank ticks.  Unsigned dtypes are where `np.diff(x) > 0` wraps around (genuine defect repaired in 97cebbb; seed C01-6)
    icases = []
    for n, prs in enumerate(cases):
        if n % 23 == 11 and prs:
            rank = {v: i for i, v in enumerate(sorted({x for pr in prs for x in pr}))}
            icases.append([(rank[s_], rank[e_]) for s_, e_ in prs])
    imodel = C.run_model(["mk_iset\t%s\t%s" % (C.fmt_ints([s_ * 10**9 for s_, _ in p]), C.fmt_ints([e_ * 10**9 for _, e_ in p])) for p in icases])
    DT = [np.uint8, np.uint16, np.uint32, np.uint64, np.int8, np.int32, np.int64, np.float32]
    for n, (prs, mo) in enumerate(zip(icases, imodel)):
        mv = [int(x) for x in mo.split()]
        mout = list(zip(mv[0::2], mv[1::2]))
        tprs = [(s_ * 10**9, e_ * 10**9) for s_, e_ in prs]
        dt = DT[n % len(DT)]
        ss, es = np.array([s_ for s_, _ in prs], dtype=dt), np.array([e_ for _, e_ in prs], dtype=dt)
        inp = {"start_s": ss.tolist(), "end_s": es.tolist(), "dtype": np.dtype(dt).name}
        for fname, f in (("two_arrays", lambda: nap.IntervalSet(ss, es)), ("pairs", lambda: nap.IntervalSet(np.stack([ss, es], axis=1))),
                         ("dataframe", lambda: nap.IntervalSet(pd.DataFrame({"start": ss, "end": es}))), ("lists", lambda: nap.IntervalSet(ss.tolist(), es.tolist()))):
            res.evaluations += 1
            res.count("form=%s,dtype=%s" % (fname, np.dtype(dt).name))
            check_output(res, "IntervalSet[%s,%s]" % (fname, np.dtype(dt).name), inp, f(), mout, tprs)
    # results of operations are canonical (every operation re-enters the constructor)
    ops_cases = 0
    S = G.canonical_isets(G.lattice(7), 3)
    sub = S if tier == "thorough" else rng.sample(S, 40)
    for A in sub:
        a = nap.IntervalSet(G.arr([s for s, _ in A]), G.arr([e for _, e in A]))
        for B in (S if tier == "thorough" else rng.sample(S, 25)):
            b = nap.IntervalSet(G.arr([s for s, _ in B]), G.arr([e for _, e in B]))
            for name, r in (("union", a.union(b)), ("intersect", a.intersect(b)), ("set_diff", a.set_diff(b))):
                ops_cases += 1
                if not float_canonical(np.asarray(r.values)):
                    res.violations.append({"key": {"op": name, "part": "canonical"}, "what": "result of %s is not canonical" % name,
                                           "input": {"A": A, "B": B}, "impl": r.values.tolist()})
        if len(A):
            others = {"split": lambda: a.split(0.0000015), "merge_close": lambda: a.merge_close_intervals(0.000001),
                      "drop_short": lambda: a.drop_short_intervals(0.000001), "drop_long": lambda: a.drop_long_intervals(0.000002),
                      "index0": lambda: a[0], "slice": lambda: a[0:2], "mask": lambda: a[np.arange(len(a)) % 2 == 0],
                      "time_span": lambda: a.time_span()}
            for name, f in others.items():
                r = f()
                ops_cases += 1
                if not float_canonical(np.asarray(r.values)):
                    res.violations.append({"key": {"op": name, "part": "canonical"}, "what": "result of %s is not canonical" % name,
                                           "input": {"A": A}, "impl": r.values.tolist()})
    res.evaluations += ops_cases
    res.count("ops_cases", ops_cases)


def search(res, seed):
    r2 = C.Result()
    run(r2, "thorough", seed)
    return r2.violations[0] if r2.violations else None


def replay(payload):
    nap = _nap()
    warnings.simplefilter("ignore")
    v = payload.get("violation") or (payload.get("disagreements") or [{}])[0]
    inp = v.get("input", {})
    if "start" in inp:
        ep = nap.IntervalSet(G.arr(inp["start"]), G.arr(inp["end"]))
        print("input start=%s end=%s (ticks)" % (inp["start"], inp["end"]))
        print("implementation:", ep.values.tolist())
        r = C.Result()
        check_output(r, "IntervalSet(start,end)", inp, ep, None, list(zip(inp["start"], inp["end"])))
        print("violations:", r.violations)
        return 1 if r.violations else 0
    print("replay of operation results: input", inp)
    return 1

# --- Glue layer (DESIGN.md 10.11): the Python between the API and the kernels, tied by proof in Properties/C01c.v; this is the
# executable tie of its trusted parts (translator tools/py2glue.py + primitive semantics Glue/Interp.v): the TRANSLATED term run by the
# extracted evaluator (ocaml/gluedriver) against the REAL routine of pynapple on the same inputs (harness/gluecmp.py).
import gluecmp  # noqa: E402

DRIVERS = list(globals().get("DRIVERS", ["driver"])) + ["gluedriver"]
GLUE_ROUTINES = ['IntervalSet.__init__']
_run_without_glue = run


def run(res, tier, seed):
    _run_without_glue(res, tier, seed)
    gluecmp.check(res, GLUE_ROUTINES, tier, seed)
    res.rule += (" | glue: for each of %s the translated Glue.Lang term (coq/Gen/Glue.v) is evaluated by the extracted Glue/Interp.v and compared with the "
                 "real pynapple routine on canonical sets of a dyadic lattice (incl. negative times, empty, touching, duplicates, unsorted/improper "
                 "constructor input, thresholds equal to a length or gap); exceptions must match the model's error kind" % ", ".join(GLUE_ROUTINES))
