"""Shared machinery of the checks: build (Gen + coqc + OCaml), proof status, model runner,
evidence, known findings, verdicts.  See DESIGN.md sections 3 and 4."""
import fcntl
import hashlib
import json
import os
import re
import subprocess
import sys
import time

HOME = os.environ.get("VERIF_HOME", os.path.dirname(os.path.dirname(os.path.abspath(__file__))))
REPO = os.environ.get("VERIF_REPO", "/repo")
COQ = os.path.join(HOME, "coq")
OCAML = os.path.join(HOME, "ocaml")
EVID = os.path.join(HOME, "evidence")
REPLAYS = os.path.join(HOME, "replays")
CACHE = os.path.join(HOME, ".cache")

KERNEL_TB = [
    "Coq 8.16.1 kernel (coqc); vm_compute used for finite-table proofs and _refuted witnesses; no native_compute",
    "extraction: ExtrOcamlBasic only (bool,list,prod,option,unit,sumbool -> OCaml); Z/positive/nat stay inductive; ocaml/driver.ml glue",
    "correspondence harness (generators, canonicaliser to_ns, differ, Python oracles) ties the hand-written models to /repo",
    "float64 times idealised as integer nanosecond ticks (DESIGN.md section 2); float_ambiguous is the declared blind spot",
]


def to_ns(x):
    return int(round(float(x) * 1e9))


def sh(cmd, timeout=1800, cwd=None, env=None):
    p = subprocess.run(cmd, shell=True, cwd=cwd, env=env, stdout=subprocess.PIPE, stderr=subprocess.STDOUT,
                       timeout=timeout, text=True)
    return p.returncode, p.stdout


class Lock:
    def __init__(self, name="build"):
        os.makedirs(CACHE, exist_ok=True)
        self.path = os.path.join(CACHE, name + ".lock")

    def __enter__(self):
        self.f = open(self.path, "w")
        fcntl.flock(self.f, fcntl.LOCK_EX)
        return self

    def __exit__(self, *a):
        fcntl.flock(self.f, fcntl.LOCK_UN)
        self.f.close()


def src_hash(paths):
    h = hashlib.sha256()
    for p in paths:
        try:
            h.update(open(p, "rb").read())
        except OSError:
            h.update(b"<missing>")
    return h.hexdigest()[:16]


# --------------------------------------------------------------------------------------
# build
def generate():
    """Regenerate coq/Gen/*.v from /repo's working tree (translator tie): every script listed in tools/GENERATORS
    (format: `script.py Cxx Cyy ...` = the properties whose proofs depend on its output).
    Each script rewrites its output only when the content changed (keeps make incremental) and exits non-zero
    when it cannot translate what it finds (fail-closed). Returns (ok, log, failed_properties)."""
    lst = os.path.join(HOME, "tools", "GENERATORS")
    if not os.path.exists(lst):
        return True, "", []
    ok, log, failed = True, "", []
    for line in [l.strip() for l in open(lst) if l.strip() and not l.startswith("#")]:
        parts = line.split()
        rc, out = sh(f"/venv/bin/python {os.path.join(HOME, 'tools', parts[0])}", cwd=HOME, timeout=300)
        log += out[-1500:]
        if rc != 0:
            ok = False
            failed += parts[1:] or ["*"]
    return ok, log, failed


def build(targets=None):
    """make the Coq development (incremental) and the OCaml driver. Returns dict."""
    t0 = time.time()
    info = {"gen_ok": True, "make_ok": True, "ocaml_ok": True, "log": ""}
    with Lock("build"):
        ok, log, gfailed = generate()
        info["gen_ok"] = ok
        info["gen_failed_for"] = gfailed
        info["log"] += log[-4000:]
        if not os.path.exists(os.path.join(COQ, "Makefile")):
            sh("coq_makefile -f _CoqProject -o Makefile", cwd=COQ)
        tgt = " ".join(targets) if targets else ""
        rc, out = sh(f"timeout 3300 make -k -j{os.cpu_count() or 8} {tgt}", cwd=COQ, timeout=3400)
        info["make_ok"] = rc == 0
        if rc != 0:
            info["log"] += out[-6000:]
        info["failed_files"] = sorted(set(re.findall(r'File "\./([^"]+)", line', out))) if rc != 0 else []
        # OCaml drivers: ocaml/driver.ml (+model.ml) and per-property ocaml/driver_<id>.ml (+model_<id>.ml)
        import glob
        pairs = [("driver", "model")]
        for d in sorted(glob.glob(os.path.join(OCAML, "driver_*.ml"))):
            suf = os.path.basename(d)[len("driver_"):-3]
            pairs.append(("driver_" + suf, "model_" + suf))
        if os.path.exists(os.path.join(OCAML, "jitdriver.ml")):
            pairs.append(("jitdriver", "jitmodel"))
        if os.path.exists(os.path.join(OCAML, "gluedriver.ml")):
            pairs.append(("gluedriver", "gluemodel"))
        for drv_name, mod_name in pairs:
            drv = os.path.join(OCAML, drv_name)
            srcs = [os.path.join(OCAML, mod_name + ".ml"), os.path.join(OCAML, drv_name + ".ml")]
            if all(os.path.exists(s_) for s_ in srcs):
                if not os.path.exists(drv) or os.path.getmtime(drv) < max(os.path.getmtime(s_) for s_ in srcs):
                    rc2, out2 = sh(f"ocamlfind ocamlopt -O2 -w -a {mod_name}.mli {mod_name}.ml {drv_name}.ml -o {drv_name}", cwd=OCAML, timeout=900)
                    if rc2 != 0:
                        info.setdefault("ocaml_failed", []).append(drv_name)
                        info["log"] += out2[-3000:]
            elif drv_name == "driver":
                info.setdefault("ocaml_failed", []).append(drv_name)
        info.setdefault("ocaml_failed", [])
        info["ocaml_ok"] = not info["ocaml_failed"]
    info["build_s"] = round(time.time() - t0, 2)
    return info


def proof_status(pid):
    """Compile Properties/<pid>.v afresh (so that Print Assumptions output is captured) and report
    the theorems it states, which were accepted, and what they depend on."""
    vfile = os.path.join(COQ, "Properties", pid + ".v")
    res = {"theorems": [], "obligations": 0, "discharged": 0, "assumptions": {}, "ok": False, "log": ""}
    if not os.path.exists(vfile):
        res["log"] = "no property file"
        return res
    src = open(vfile).read()
    extra = os.path.join(COQ, "Properties", pid + "b.v")     # companion file (kernel-text refinement theorems)
    if os.path.exists(extra):
        src += "\n" + open(extra).read()
    extra_c = os.path.join(COQ, "Properties", pid + "c.v")   # companion file (glue-text refinement theorems)
    if os.path.exists(extra_c):
        src += "\n" + open(extra_c).read()
    names = re.findall(r"^\s*(?:Theorem|Corollary)\s+([A-Za-z0-9_']+)", src, re.M)
    res["theorems"] = names
    res["obligations"] = len(names)
    bad = re.findall(r"\b(Admitted|admit|Axiom|Parameter|Conjecture|Abort)\b", src)
    with Lock("build"):
        rc, out = sh(f"timeout 900 coqc -Q . Verif Properties/{pid}.v", cwd=COQ, timeout=1000)
        if rc == 0 and os.path.exists(extra):
            rc, out2 = sh(f"timeout 900 coqc -Q . Verif Properties/{pid}b.v", cwd=COQ, timeout=1000)
            out += out2
        if rc == 0 and os.path.exists(extra_c):
            rc, out2 = sh(f"timeout 900 coqc -Q . Verif Properties/{pid}c.v", cwd=COQ, timeout=1000)
            out += out2
    res["log"] = out[-3000:] if rc != 0 else ""
    if rc == 0 and not bad:
        res["discharged"] = len(names)
        res["ok"] = True
    # parse Print Assumptions output: blocks "Closed under the global context" or "Axioms:\n name : type"
    closed = out.count("Closed under the global context")
    axioms = sorted(set(re.findall(r"^([A-Za-z0-9_.']+)\s*:", out, re.M)))
    res["assumptions"] = {"closed_theorems": closed, "axioms": axioms}
    return res


COQCHK_NOREC = {"C09"}


def coqchk(pid):
    """independent re-check of the compiled property file and everything it depends on (thorough tier)"""
    # coqchk's verdict is a function of the compiled files alone: the result is memoised under the hash of every .vo of the
    # development (Flocq + Reals make the C09 run take ~40 min; any change to any .vo invalidates the memo)
    import hashlib, glob
    h = hashlib.sha256()
    for f in sorted(glob.glob(os.path.join(COQ, "**", "*.vo"), recursive=True)):
        h.update(f.encode()); h.update(hashlib.sha256(open(f, "rb").read()).digest())
    memo = os.path.join(HOME, ".cache", "coqchk", "%s-%s.json" % (pid, h.hexdigest()[:24]))
    if os.path.exists(memo):
        r = json.load(open(memo)); r["memoised"] = True
        return r
    with Lock("build"):
        mods = f"Verif.Properties.{pid}" + (f" Verif.Properties.{pid}b" if os.path.exists(os.path.join(COQ, "Properties", pid + "b.vo")) else "")
        mods += f" Verif.Properties.{pid}c" if os.path.exists(os.path.join(COQ, "Properties", pid + "c.vo")) else ""
        mode = "recursive"
        if pid in COQCHK_NOREC:
            # re-check every module of THIS development in the property's dependency closure, admitting the external libraries as installed
            # (recursing into Flocq + Coq.Reals takes hours); the axiom list then contains every admitted library constant and is not reported
            rc0, dep = sh(f"coqdep -Q . Verif -sort Properties/{pid}.v", cwd=COQ, timeout=120)
            own = [w[:-2].replace("/", ".") for w in dep.split() if w.endswith(".v")]
            mods = " ".join("-norec Verif." + m for m in own)
            mode = "norec: %d own modules checked, external libraries (Flocq, Coq.Reals, ...) admitted" % len(own)
        rc, out = sh(f"timeout 3400 coqchk -silent -o -Q . Verif {mods}", cwd=COQ, timeout=3500)
    summ = out[out.find("CONTEXT SUMMARY"):] if "CONTEXT SUMMARY" in out else out[-1500:]
    ax = re.search(r"\* Axioms:(.*?)\n\s*\n\* Constants", summ, re.S)
    axioms = [a.strip() for a in (ax.group(1).strip().splitlines() if ax else []) if a.strip() and a.strip() != "<none>"]
    if mode != "recursive":
        axioms = ["<not reported in norec mode: see Print Assumptions per theorem> (" + mode + ")"]
    bad = [k for k in ("type-in-type", "unsafe (co)fixpoints", "positivity is assumed") if re.search(re.escape(k) + r": (?!<none>)\S", summ)]
    r = {"ok": rc == 0 and not bad, "axioms": axioms, "flags": bad, "tail": summ[-600:] if rc != 0 else ""}
    if r["ok"]:
        os.makedirs(os.path.dirname(memo), exist_ok=True)
        json.dump(r, open(memo, "w"))
    return r


def hygiene():
    """No Admitted/admit/Axiom/... in any file of the development, i.e. every .v listed in coq/_CoqProject
    (Gen/ files are generated tables made of Definitions only and are skipped)."""
    files = [l.strip() for l in open(os.path.join(COQ, "_CoqProject")) if l.strip().endswith(".v") and not l.startswith("Gen/")]
    pat = re.compile(r"\b(Admitted|admit|Axiom|Parameter|Conjecture|Admit Obligations)\b|Unset Guard|bypass_check\(|type-in-type")
    lines = []
    for f in files:
        try:
            src = open(os.path.join(COQ, f)).read()
        except OSError:
            lines.append(f + ": missing")
            continue
        # strip comments (non-nested approximation is enough: the keywords must not occur in code)
        code = re.sub(r"\(\*.*?\*\)", "", src, flags=re.S)
        for n, l in enumerate(code.splitlines(), 1):
            if pat.search(l):
                lines.append("%s:%d:%s" % (f, n, l.strip()[:80]))
    return lines


# --------------------------------------------------------------------------------------
# model runner (extracted OCaml)
def run_model(lines, chunk=200000, driver="driver"):
    drv = os.path.join(OCAML, driver)
    out = []
    for i in range(0, len(lines), chunk):
        part = lines[i:i + chunk]
        p = subprocess.run([drv], input="\n".join(part) + "\n", stdout=subprocess.PIPE, stderr=subprocess.PIPE, text=True)
        res = p.stdout.split("\n")
        if res and res[-1] == "":
            res.pop()
        if len(res) != len(part):
            raise RuntimeError(f"model driver returned {len(res)} lines for {len(part)} cases: {p.stderr[-500:]}")
        out.extend(res)
    return out


def fmt_ints(xs):
    return " ".join(str(int(x)) for x in xs)


def fmt_iset(A):
    return " ".join(f"{int(s)} {int(e)}" for s, e in A)


# --------------------------------------------------------------------------------------
# known findings
def load_known():
    p = os.path.join(HOME, "known_findings.json")
    if not os.path.exists(p):
        return []
    return json.load(open(p)).get("findings", [])


def match_known(pid, viol):
    """A violation matches a `known` entry when the entry's `match` dict is a sub-dict of the violation's key."""
    for k in load_known():
        if k.get("property") != pid or k.get("kind") != "known":
            continue
        m = k.get("match", {})
        if all(viol.get("key", {}).get(a) == b for a, b in m.items()):
            return k
    return None


# --------------------------------------------------------------------------------------
class Result:
    """What a property's check hands back to main."""

    def __init__(self):
        self.evaluations = 0
        self.keys = set()            # distinct non-trivial case keys
        self.samples = []
        self.violations = []         # property fails on the implementation: dicts {key, what, input, impl, expected}
        self.disagreements = []      # model != implementation (broken correspondence): dicts
        self.float_ambiguous = 0
        self.dist = {}
        self.rule = ""
        self.exhaustive = False
        self.extra = {}
        self.traces = 0

    def count(self, name, k=1):
        self.dist[name] = self.dist.get(name, 0) + k

    def case(self, key, nontrivial=True):
        self.evaluations += 1
        if nontrivial:
            self.keys.add(key)

    def sample(self, s, limit=5):
        if len(self.samples) < limit:
            self.samples.append(s)


def write_replay(pid, payload):
    os.makedirs(REPLAYS, exist_ok=True)
    h = hashlib.sha256(json.dumps(payload, sort_keys=True, default=str).encode()).hexdigest()[:12]
    path = os.path.join(REPLAYS, f"{pid}-{h}.json")
    with open(path, "w") as f:
        json.dump(payload, f, indent=1, default=str)
    return path


def _strict(o):
    """NaN / infinities (legal in generated inputs) are not JSON: spell them as strings in the evidence file"""
    if isinstance(o, float) and (o != o or o in (float("inf"), float("-inf"))):
        return repr(o)
    if isinstance(o, dict):
        return {(k if isinstance(k, str) else str(k)): _strict(v) for k, v in o.items()}
    if isinstance(o, (list, tuple)):
        return [_strict(v) for v in o]
    return o


def write_evidence(pid, tier, seed, level, coverage, assumptions, wall, violations):
    os.makedirs(EVID, exist_ok=True)
    ev = {"property_id": pid, "tier": tier, "seed": int(seed), "level": level, "coverage": coverage,
          "assumptions": assumptions, "wall_s": round(wall, 2), "violations": int(violations)}
    with open(os.path.join(EVID, pid + ".json"), "w") as f:
        json.dump(_strict(ev), f, indent=1, default=str, allow_nan=False)
    return ev
